#!/bin/sh
# offline setup: parse every specification with SANY; nothing is fetched or built.
HERE=$(cd "$(dirname "$0")" && pwd)
cd "$HERE/specs" || exit 1
rc=0
mkdir -p "$HERE/out/sany_tmp"
for f in *.tla; do
  out=$(java -Djava.io.tmpdir="$HERE/out/sany_tmp" -cp /opt/veriftools/tla/tla2tools.jar:/opt/veriftools/tla/CommunityModules-deps.jar tla2sany.SANY "$f" 2>&1)
  if echo "$out" | grep -q -E "Semantic errors|Parse Error|Fatal errors|Could not"; then
    echo "SANY FAILED: $f"; echo "$out" | tail -20; rc=1
  fi
done
rm -rf "$HERE/out/sany_tmp"
mkdir -p "$HERE/out" "$HERE/evidence"
[ $rc = 0 ] && echo "setup ok: $(ls *.tla | wc -l) modules parse"
exit $rc
