---------------------------- MODULE ConfigMerge ----------------------------
(***************************************************************************)
(* C16: how the effective value of ONE setting comes about                 *)
(* (gunicorn/app/base.py Application.load_config 154-199,                  *)
(* load_config_from_module_name_or_filename 122-149, config.py             *)
(* Setting.add_option 277-305 and the validators).                         *)
(*                                                                         *)
(* The built-in default is in place (eff = "D"); then four source steps in *)
(* the code's order:                                                       *)
(*   fw   framework defaults: the dict returned by init()                  *)
(*   file the configuration file -- the one named by the command line -c,  *)
(*        else by -c in GUNICORN_CMD_ARGS, else ./gunicorn.conf.py         *)
(*   env  GUNICORN_CMD_ARGS                                                *)
(*   cli  the command line                                                 *)
(* Each source mentions the setting with valid value A or B, with the      *)
(* value of the built-in default spelled out ("dflt"), with a value the    *)
(* validator rejects ("bad"), or not at all ("no").  files: which of the   *)
(* three namings of a configuration file exist; files that are not chosen  *)
(* are decoys (they mention the setting with another valid value).         *)
(*                                                                         *)
(* Setting kinds restrict what the command line / environment can say:     *)
(*   store, typed, append : anything                                       *)
(*   store_true           : only A (= True)                                *)
(*   store_const          : only B (= False, --no-sendfile)                *)
(*   fileonly, hook       : nothing (no command-line flag)                 *)
(* Below the built-in default sits one more level for a few settings: a    *)
(* variable of the process environment that stands in while no source      *)
(* mentions the setting (SENDFILE; WEB_CONCURRENCY, PORT and               *)
(* FORWARDED_ALLOW_IPS shape the defaults of workers, bind and             *)
(* forwarded_allow_ips).  fb = "set": that variable is present; fbused:    *)
(* the value in force still comes from it.                                 *)
(* Dev: {} is the intended design = the documented order.                  *)
(***************************************************************************)
EXTENDS Integers, Sequences, FiniteSets, TLC

CONSTANT Dev

Kinds == {"store", "typed", "append", "store_true", "store_const", "fileonly", "hook"}
Srcs == <<"fw", "file", "env", "cli">>
MLow == {"no", "A", "B", "bad"}
MHigh == {"no", "A", "B", "dflt", "bad"}
Namings == {"cli", "env", "cwd"}

CanSay(kind, m) ==
  IF m = "no" THEN TRUE
  ELSE IF kind \in {"store", "typed", "append"} THEN TRUE
  ELSE IF kind = "store_true" THEN m = "A"
  ELSE IF kind = "store_const" THEN m = "B"
  ELSE FALSE

Cases == {c \in [kind : Kinds, fw : MLow, file : MLow, env : MHigh, cli : MHigh, files : SUBSET Namings,
                 fb : {"no", "set"}] :
            /\ CanSay(c.kind, c.env) /\ CanSay(c.kind, c.cli)
            /\ (c.files = {} => c.file = "no")}

Chosen(c) == IF "cli" \in c.files THEN "cli"
             ELSE IF "env" \in c.files /\ "EnvFileIgnored" \notin Dev THEN "env"
             ELSE IF "cwd" \in c.files THEN "cwd" ELSE "none"
Ment(c, src) == IF src = "fw" THEN c.fw
                ELSE IF src = "file" THEN (IF Chosen(c) = "none" THEN "no" ELSE c.file)
                ELSE IF src = "env" THEN c.env ELSE c.cli

Order == IF "EnvBeforeFile" \in Dev THEN <<"fw", "env", "file", "cli">> ELSE Srcs

S0(c) == [case |-> c, k |-> 1, eff |-> "D", status |-> "run", gen |-> 0, fbused |-> (c.fb = "set")]

Step(s) ==
  LET src == Order[s.k]
      m == Ment(s.case, src)
      nxt == IF s.k = Len(Order) THEN "done" ELSE "run"
  IN
  IF m = "bad"
  THEN (IF "SwallowInvalid" \in Dev THEN [s EXCEPT !.k = s.k + 1, !.status = nxt]
        ELSE [s EXCEPT !.status = "failed"])
  ELSE IF m = "no" \/ (m = "dflt" /\ src = "cli" /\ "CliIfDifferent" \in Dev)
  THEN [s EXCEPT !.k = s.k + 1, !.status = nxt]
  ELSE [s EXCEPT !.k = s.k + 1, !.status = nxt, !.eff = IF m = "dflt" THEN "D" ELSE m,
                 !.fbused = IF "FallbackFirst" \in Dev THEN s.fbused ELSE FALSE]

VARIABLE s
Init == \E c \in Cases : s = S0(c)
(* HUP: the operator has edited the chosen configuration file (it now mentions the setting with f, or not at  *)
(* all) and the application reloads: load_default_config() + load_config() start again from the built-in     *)
(* defaults (Application.reload -> do_load_config).  Deviation "ReloadKeepsValues": the old Config object,   *)
(* with the values of the previous load, is kept as the starting point.                                     *)
Reload ==
  /\ s.status = "done" /\ s.gen = 0
  /\ \E f \in {"no", "A", "B"} :
       s' = [case |-> [s.case EXCEPT !.file = IF s.case.files = {} THEN "no" ELSE f], k |-> 1,
             eff |-> IF "ReloadKeepsValues" \in Dev THEN s.eff ELSE "D", status |-> "run", gen |-> 1,
             fbused |-> (s.case.fb = "set")]
Next == (s.status = "run" /\ s' = Step(s)) \/ Reload
Spec == Init /\ [][Next]_s
LevelBound == TLCGet("level") <= 12

RECURSIVE RunFrom(_)
RunFrom(x) == IF x.status # "run" THEN x ELSE RunFrom(Step(x))
Outcome(c) == RunFrom(S0(c))

(***************************************************************************)
(* Properties                                                              *)
(***************************************************************************)
(* the documented rule, independent of Dev: the most authoritative naming chooses the file, *)
(* then command line > environment > file > framework                                      *)
Rank == <<"cli", "env", "file", "fw">>
PChosen(c) == IF "cli" \in c.files THEN "cli" ELSE IF "env" \in c.files THEN "env"
              ELSE IF "cwd" \in c.files THEN "cwd" ELSE "none"
PMent(c, src) == IF src = "fw" THEN c.fw
                 ELSE IF src = "file" THEN (IF PChosen(c) = "none" THEN "no" ELSE c.file)
                 ELSE IF src = "env" THEN c.env ELSE c.cli
RECURSIVE TopFrom(_, _)
TopFrom(c, i) == IF i > Len(Rank) THEN "none"
                 ELSE IF PMent(c, Rank[i]) # "no" THEN Rank[i] ELSE TopFrom(c, i + 1)
Top(c) == TopFrom(c, 1)
ValueOf(m) == IF m \in {"A", "B"} THEN m ELSE "D"
AnyBad(c) == \E i \in 1..4 : PMent(c, Srcs[i]) = "bad"

MostAuthoritativeWins ==
  s.status = "done" => s.eff = (IF Top(s.case) = "none" THEN "D" ELSE ValueOf(PMent(s.case, Top(s.case))))
UnmentionedUntouched ==
  [][(s.status = "run" /\ PMent(s.case, Order[s.k]) = "no") => s'.eff = s.eff]_s
(* the stand-in variable decides only while nothing mentions the setting *)
FallbackOnlyWhenUnmentioned ==
  s.status = "done" => (s.fbused <=> (s.case.fb = "set" /\ Top(s.case) = "none"))
InvalidStopsStartup == AnyBad(s.case) => s.status # "done"
ValidStarts == (~AnyBad(s.case)) => s.status # "failed"
=============================================================================
