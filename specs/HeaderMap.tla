------------------------------ MODULE HeaderMap ------------------------------
(***************************************************************************)
(* Which request data may change wsgi.url_scheme, SCRIPT_NAME / PATH_INFO  *)
(* and REMOTE_ADDR: Message.parse_headers (scheme headers, underscore      *)
(* policy), Request.proxy_protocol, wsgi.create / proxy_environ and the    *)
(* carrying of PROXY information across a keep-alive connection, as a      *)
(* decision procedure Model(case), plus the trust rules of C08 as an       *)
(* envelope Envelope(case, obs) that judges both the model (design check)  *)
(* and observations of the real code (HeaderMapTrace).                     *)
(*                                                                         *)
(* case = [peer: "listed"|"unlisted"|"unix", fa: "none"|"listed"|"star",   *)
(*         fh: "default"|"empty"|"star", hm: "drop"|"refuse"|"dangerous",  *)
(*         ssh: "default"|"empty", pp: BOOLEAN, pa: like fa,               *)
(*         pline: BOOLEAN (PROXY line before request 1), idx: 1|2,         *)
(*         pline2: BOOLEAN (a PROXY line in front of request 2 of a keep-alive connection: not the connection
           preamble any more, it is a malformed request line),
           decl: BOOLEAN (the address a PROXY line declares is itself in   *)
(*         forwarded_allow_ips - it is not the peer, so it grants nothing),*)
(*         tls: BOOLEAN (the listener terminates TLS itself: the scheme is *)
(*         https unless a permitted forwarder says otherwise),             *)
(*         wk: "sync"|"gthread"|"async", hs: Seq(header kind)]             *)
(* obs  = [out: "app"|"reject", scheme, sn (SCRIPT_NAME is not empty, i.e.   *)
(*         it was taken from some request header), addr: "peer"|"declared", amb (some environ variable     *)
(*         received values of two differently spelled field names, none of *)
(*         which is a forwarder header honoured from a permitted peer -    *)
(*         the documented exception "mapped regardless of header_map")]    *)
(***************************************************************************)
EXTENDS Naturals, Sequences, FiniteSets, TLC

CONSTANT Dev

HdrKinds == {"proto_s", "proto_i", "ssl_s", "ssl_i", "proto_us", "sn", "sn_h", "pi", "cu", "ch", "cdot", "plain"}
SchemeKinds == {"proto_s", "proto_i", "ssl_s", "ssl_i"}
Secure(h) == h \in {"proto_s", "ssl_s"}
Underscore(h) == h \in {"proto_us", "sn", "pi", "cu"}
(* upper-cased field name as parse_headers sees it *)
NameOf(h) == CASE h \in {"proto_s", "proto_i"} -> "X-FORWARDED-PROTO" [] h \in {"ssl_s", "ssl_i"} -> "X-FORWARDED-SSL"
               [] h = "proto_us" -> "X_FORWARDED_PROTO" [] h = "sn" -> "SCRIPT_NAME" [] h = "sn_h" -> "SCRIPT-NAME"
               [] h = "pi" -> "PATH_INFO" [] h = "cu" -> "X_CUSTOM" [] h = "ch" -> "X-CUSTOM"
               [] h = "cdot" -> "X.CUSTOM"      \* another token character between the words: . ~ ! + # $ % & ' * ^ ` |
               [] OTHER -> "ACCEPT"
(* environ key it maps to *)
KeyOf(h) == CASE h \in {"proto_s", "proto_i", "proto_us"} -> "HTTP_X_FORWARDED_PROTO"
              [] h \in {"ssl_s", "ssl_i"} -> "HTTP_X_FORWARDED_SSL"
              [] h \in {"sn", "sn_h"} -> "HTTP_SCRIPT_NAME" [] h = "pi" -> "HTTP_PATH_INFO"
              [] h \in {"cu", "ch"} -> "HTTP_X_CUSTOM" [] h = "cdot" -> "HTTP_X.CUSTOM" [] OTHER -> "HTTP_ACCEPT"

Allowed(peer, setting) == setting = "star" \/ peer = "unix" \/ (peer = "listed" /\ setting = "listed")
TrustedPP(c) == Allowed(c.peer, c.pa)
(* deviation TrustDeclaredAddr: the allow list is looked up with the address the PROXY line declares *)
PeerTrustedFwd(c) == Allowed(c.peer, c.fa)        \* C08's rule: the connection's peer, nothing else
TrustedFwd(c) == PeerTrustedFwd(c) \/ ("TrustDeclaredAddr" \in Dev /\ c.pp /\ c.pline /\ c.idx = 1 /\ TrustedPP(c) /\ c.decl)
InFwdHeaders(c, h) == c.fh = "star" \/ (c.fh = "default" /\ h \in {"sn", "pi"})

-----------------------------------------------------------------------------
(* the code's decision *)
RECURSIVE Walk(_, _, _, _, _)
(* hs: remaining headers; sch: "none"|"http"|"https" decided so far; kept: headers kept so far *)
Walk(c, hs, sch, kept, ok) ==
  IF ~ok \/ hs = <<>> THEN [ok |-> ok, sch |-> sch, kept |-> kept]
  ELSE LET h == Head(hs)
           isScheme == TrustedFwd(c) /\ c.ssh = "default" /\ h \in SchemeKinds
           this == IF Secure(h) THEN "https" ELSE "http"
           conflict == isScheme /\ sch # "none" /\ this # sch
           nsch == IF isScheme /\ sch = "none" THEN this ELSE sch
       IN IF conflict THEN [ok |-> FALSE, sch |-> sch, kept |-> kept]
          ELSE IF Underscore(h)
               THEN (IF TrustedFwd(c) /\ InFwdHeaders(c, h) THEN Walk(c, Tail(hs), nsch, Append(kept, h), TRUE)
                     ELSE IF c.hm = "dangerous" THEN Walk(c, Tail(hs), nsch, Append(kept, h), TRUE)
                     ELSE IF c.hm = "drop" THEN Walk(c, Tail(hs), nsch, kept, TRUE)
                     ELSE [ok |-> FALSE, sch |-> sch, kept |-> kept])
               ELSE Walk(c, Tail(hs), nsch, Append(kept, h), TRUE)

Ambiguous(c, kept) ==
  \E i, j \in DOMAIN kept : /\ KeyOf(kept[i]) = KeyOf(kept[j]) /\ NameOf(kept[i]) # NameOf(kept[j])
                             /\ ~(Underscore(kept[i]) /\ PeerTrustedFwd(c) /\ InFwdHeaders(c, kept[i]))
                             /\ ~(Underscore(kept[j]) /\ PeerTrustedFwd(c) /\ InFwdHeaders(c, kept[j]))

(* is the PROXY information in force for this request? *)
ProxyInForce(c) ==
  \/ (c.pp /\ c.pline2 /\ c.idx = 2 /\ "LatePlineAccepted" \in Dev)
  \/ /\ c.pp /\ c.pline /\ TrustedPP(c)
     /\ \/ c.idx = 1
        \/ c.wk = "async"
        \/ (c.wk = "gthread" /\ "NoProxyCarryGthread" \notin Dev)

BaseScheme(c) == IF c.tls THEN "https" ELSE "http"
Model(c) ==
  LET w == Walk(c, c.hs, "none", <<>>, TRUE)
      \* request 1 with a PROXY line: refused if proxy protocol is on and the peer is not allowed;
      \* if proxy protocol is off the line is just a malformed request line
      plineReject == c.pline /\ (~c.pp \/ ~TrustedPP(c))
      \* sync workers serve one request per connection: idx 2 does not exist; a PROXY line in front of request 2 is
      \* read as a request line and refused ("LatePlineAccepted": Request.proxy_protocol() also runs for later requests,
      \* without the allow-list check)
      noSuch == c.idx = 2 /\ (c.wk = "sync" \/ plineReject \/ (c.pline2 /\ ~(c.pp /\ "LatePlineAccepted" \in Dev)))
  IN IF noSuch \/ (c.idx = 1 /\ plineReject) \/ ~w.ok
     THEN [out |-> "reject", scheme |-> "http", sn |-> FALSE, addr |-> "peer", amb |-> FALSE]
     ELSE [out |-> "app",
           scheme |-> IF w.sch = "none" THEN BaseScheme(c) ELSE w.sch,
           sn |-> \E i \in DOMAIN w.kept : w.kept[i] = "sn",
           addr |-> IF ProxyInForce(c) THEN "declared" ELSE "peer",
           amb |-> Ambiguous(c, w.kept)]

-----------------------------------------------------------------------------
(* C08: the trust rules, and nothing else *)
HasSecure(c) == \E i \in DOMAIN c.hs : Secure(c.hs[i])
SomeHeaderSays(c, sch) == \E i \in DOMAIN c.hs : c.hs[i] \in SchemeKinds /\ (Secure(c.hs[i]) <=> sch = "https")
HasSN(c) == \E i \in DOMAIN c.hs : c.hs[i] = "sn"
ConflictingScheme(c) == \E i, j \in DOMAIN c.hs : c.hs[i] \in SchemeKinds /\ c.hs[j] \in SchemeKinds /\ Secure(c.hs[i]) # Secure(c.hs[j])
PlineAcceptable(c) == c.pp /\ c.pline /\ TrustedPP(c)

Envelope(c, o) ==
  IF o.out = "reject" THEN "ok"                               \* refusing is always safe
  ELSE IF c.hm \in {"drop", "refuse"} /\ o.amb THEN "AmbiguousMapping"
  ELSE IF c.idx = 2 /\ c.wk = "sync" THEN "ok"                 \* (no second request on a sync connection)
  ELSE IF o.scheme # BaseScheme(c) /\ ~(PeerTrustedFwd(c) /\ c.ssh = "default" /\ SomeHeaderSays(c, o.scheme)) THEN "SchemeFromUntrustedPeer"
  ELSE IF PeerTrustedFwd(c) /\ c.ssh = "default" /\ ConflictingScheme(c) THEN "ConflictingSchemeAccepted"
  ELSE IF o.sn /\ c.hm # "dangerous" /\ ~(PeerTrustedFwd(c) /\ HasSN(c) /\ InFwdHeaders(c, "sn")) THEN "ScriptNameFromUntrustedPeer"
  ELSE IF o.addr = "declared" /\ ~PlineAcceptable(c) THEN "RemoteAddrFromUntrustedPeer"
  ELSE IF c.idx = 1 /\ c.pline /\ ~PlineAcceptable(c) THEN "ProxyLineAcceptedFromUntrustedPeer"
  ELSE IF PlineAcceptable(c) /\ o.addr # "declared" THEN "ProxyAddressNotAppliedToEveryRequest"
  ELSE "ok"

-----------------------------------------------------------------------------
Seqs(K, n) == UNION {[1..k -> K] : k \in 0..n}
Peers == {"listed", "unlisted", "unix"}
Allow == {"none", "listed", "star"}
Base == [peer |-> "listed", fa |-> "listed", fh |-> "default", hm |-> "drop", ssh |-> "default", pp |-> FALSE,
         pa |-> "listed", pline |-> FALSE, idx |-> 1, wk |-> "sync", hs |-> <<>>, decl |-> FALSE, pline2 |-> FALSE,
         tls |-> FALSE]
(* proxy-protocol product (headers <= 1) *)
CasesA == {[Base EXCEPT !.peer = p, !.pp = pp, !.pa = pa, !.pline = pl, !.idx = i, !.wk = w, !.hs = hs, !.fa = fa, !.decl = d] :
             p \in Peers, pp \in BOOLEAN, pa \in Allow, pl \in BOOLEAN, i \in {1, 2},
             w \in {"sync", "gthread", "async"}, hs \in Seqs({"proto_s", "sn", "cu", "plain"}, 1), fa \in Allow,
             d \in BOOLEAN}
          \cup {[Base EXCEPT !.peer = p, !.pp = pp, !.pa = pa, !.pline = pl, !.idx = 2, !.wk = w, !.hs = hs, !.fa = "star", !.pline2 = TRUE] :
             p \in Peers, pp \in BOOLEAN, pa \in Allow, pl \in BOOLEAN,
             w \in {"gthread", "async"}, hs \in Seqs({"plain"}, 1)}
(* header product (proxy protocol off) *)
CasesB == {[Base EXCEPT !.peer = p, !.fa = fa, !.fh = fh, !.hm = hm, !.ssh = ssh, !.wk = w, !.hs = hs] :
             p \in Peers, fa \in Allow, fh \in {"default", "empty", "star"}, hm \in {"drop", "refuse", "dangerous"},
             ssh \in {"default", "empty"}, w \in {"sync", "gthread", "async"}, hs \in Seqs(HdrKinds, 2)}
CasesB3 == {[Base EXCEPT !.peer = p, !.fa = fa, !.fh = fh, !.hm = hm, !.hs = hs] :
             p \in {"listed", "unlisted"}, fa \in {"none", "listed"}, fh \in {"default", "star"}, hm \in {"drop", "refuse"},
             hs \in [1..3 -> HdrKinds]}
(* TLS terminated by gunicorn itself: scheme headers of every kind from every peer *)
CasesT == {[Base EXCEPT !.tls = TRUE, !.peer = p, !.fa = fa, !.ssh = ssh, !.wk = w, !.hs = hs] :
             p \in Peers, fa \in Allow, ssh \in {"default", "empty"}, w \in {"sync", "gthread", "async"},
             hs \in Seqs(SchemeKinds \cup {"proto_us", "plain"}, 2)}
CONSTANT Product
Cases == CASE Product = "A" -> CasesA [] Product = "B" -> CasesB [] Product = "B3" -> CasesB3 [] Product = "T" -> CasesT
           [] OTHER -> CasesA \cup CasesB

(* observation of the real code: merged = pairs of indices into c.hs that landed in one variable *)
AmbObs(c, merged) ==
  \E k \in DOMAIN merged :
     LET a == c.hs[merged[k][1]]
         b == c.hs[merged[k][2]]
     IN /\ NameOf(a) # NameOf(b)
        /\ ~(Underscore(a) /\ PeerTrustedFwd(c) /\ InFwdHeaders(c, a))
        /\ ~(Underscore(b) /\ PeerTrustedFwd(c) /\ InFwdHeaders(c, b))

VARIABLE case
Init == case \in Cases
Next == UNCHANGED case
Spec == Init /\ [][Next]_case
DesignSatisfiesEnvelope == Envelope(case, Model(case)) = "ok"
=============================================================================
