SPECIFICATION TSpec
CONSTANTS
  Dev = {"InitSkipsSetgid", "UsernameUnbound", "ZeroUnset"}
CONSTRAINT Record
POSTCONDITION Post
CHECK_DEADLOCK FALSE
