-------------------------- MODULE ConfigMergeCases --------------------------
(* Emits the complete product of ConfigMerge as NDJSON, one abstract case    *)
(* per line with the outcome the model predicts, for the conformance driver. *)
EXTENDS ConfigMerge, Json, IOUtils, FiniteSetsExt, SequencesExt
VARIABLE done
Row(c) == LET o == Outcome(c) IN
          [kind |-> c.kind, fw |-> c.fw, file |-> c.file, env |-> c.env, cli |-> c.cli,
           files |-> SetToSeq(c.files), chosen |-> Chosen(c), top |-> Top(c),
           end |-> o.status, eff |-> o.eff]
Cs == SetToSeq({Row(c) : c \in {x \in Cases : x.fb = "no"}})
CInit == done = FALSE /\ s = S0(CHOOSE c \in Cases : TRUE)
CNext == done = FALSE /\ done' = ndJsonSerialize(IOEnv.CASES_OUT, Cs) /\ UNCHANGED s
CSpec == CInit /\ [][CNext]_<<done, s>>
=============================================================================
