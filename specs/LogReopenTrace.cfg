SPECIFICATION TSpec
CONSTANTS
  NRec = 1
  NRot = 1
  Mode = "thread"
  Dev = {}
CONSTRAINT Record
POSTCONDITION Post
CHECK_DEADLOCK FALSE
