---------------------------- MODULE HttpStream ----------------------------
(***************************************************************************)
(* Abstract request streams and the strict RFC 9112 reading of them.       *)
(*                                                                         *)
(* A stream is built from MESSAGE DESCRIPTORS (request-line kind, header   *)
(* line kinds, body layout) by Flatten, which yields a sequence of         *)
(* SYMBOLS: one symbol per line content, explicit "CR" and "LF" symbols,   *)
(* one "x" per body data byte.  Because the stream is generated from an    *)
(* unambiguous grammar, the strict reading is known by construction: it is *)
(* a function of the descriptors (Strict), written from RFC 9112 2.2, 3,   *)
(* 5, 6.1-6.3, 7.1 and RFC 9110 5.5-5.6, not from the code.                *)
(* Used as the oracle by HttpParse (design model) and HttpTrace (traces    *)
(* recorded from gunicorn.http).                                           *)
(***************************************************************************)
EXTENDS Naturals, Sequences, FiniteSets, TLC

CR == "CR"
LF == "LF"
X  == "x"

-----------------------------------------------------------------------------
(* Request-line kinds.                                                     *)
RLOk  == {"RL11", "RL10"}
RLAll == RLOk \cup {"RLbad"}

(* Header-line kinds.  CLn declares Content-Length n.                      *)
CLKinds == {"CL0", "CL1", "CL2", "CL3", "CL5"}
CLVal(h) == CASE h = "CL0" -> 0 [] h = "CL1" -> 1 [] h = "CL2" -> 2 [] h = "CL3" -> 3 [] h = "CL5" -> 5 [] OTHER -> 0

(* Lines a strict recipient must refuse (RFC 9112 5, 5.2, 6.1; 9110 5.5, 5.6.2). *)
HRejectKinds == {"CLbad",          \* non 1*DIGIT value: +1, 1_0, 0x1, "1 2", 1,1, empty, -1
                 "TEchunkedgzip",  \* chunked not the final coding
                 "TEchunked2",     \* chunked applied twice
                 "TEunknown",      \* unknown coding
                 "TEnontoken",     \* coding that is not a token
                 "TEpyws",         \* \v \f \x1c-\x1f \x85 \xa0 around a coding: not OWS, not a token
                 "ObsFold",        \* continuation line
                 "WsColon",        \* whitespace between name and colon
                 "BadName",        \* name not a token
                 "NulVal",         \* NUL / bare CR / bare LF inside a value
                 "NoColon"}        \* no colon at all
TEChunkedKinds == {"TEchunked", "TEgzipchunked"}   \* chunked is final: framed as chunked
TECloseOnly    == {"TEgzip"}      \* coding without chunked: RFC says 400; accepting is harmless
                                  \* only if nothing further is read from the connection
TEDontCare     == {"TEempty"}     \* "chunked," empty list element: may be ignored or refused
TENoop         == {"TEidentity"}  \* obsolete no-op coding; natural framing or refusal
TEKinds == TEChunkedKinds \cup TECloseOnly \cup TEDontCare \cup TENoop
            \cup {"TEchunkedgzip", "TEchunked2", "TEunknown", "TEnontoken", "TEpyws"}
OtherKinds == {"ConnClose", "ConnKeep", "Plain", "Under"}
HdrKinds == CLKinds \cup HRejectKinds \cup TEKinds \cup OtherKinds

(* Chunk-size line kinds: symbol -> size, or refusal.                      *)
SizeOk == {"S1", "S2", "S1ext", "S1lz", "S1bws", "S3"}
SizeVal(s) == CASE s \in {"S1", "S1ext", "S1lz", "S1bws", "S1extlf"} -> 1 [] s = "S2" -> 2 [] s = "S3" -> 3 [] OTHER -> 0
LastOk == {"Z0", "Z0ext", "Z00"}
SizeBad == {"Sbad",     \* 1x, -1, 1_0, g, ... : not HEXDIG
            "Sbad1",    \* +1, 0x1, " 1", "1 ", "1\t": not HEXDIG either, but int(x, 16) = 1
            "Sempty"}   \* empty size (";ext" or nothing)
SizeDontCare == {"S1extlf"}  \* bare LF / CR inside a chunk extension
SizeKinds == SizeOk \cup LastOk \cup SizeBad \cup SizeDontCare

PxKinds == {"PX", "PXbad"}
LineSyms == RLAll \cup HdrKinds \cup SizeKinds \cup PxKinds
PAD == "P"     \* one more byte of line content (longer target / value / chunk extension)
JUNK == "J"    \* a byte that is neither CR nor LF where the CRLF after chunk data should be

-----------------------------------------------------------------------------
(* Message descriptor:                                                     *)
(*   [px: "none" | "on_ok" | "on_bad" | "off_ok"  (a PROXY protocol v1 line  *)
(*        before the request line; "on_*": proxy_protocol is enabled for    *)
(*        the connection - decided by the first message - "off_ok": it is   *)
(*        not; "*_bad": malformed PROXY line; "blank1" | "blank2": one / two *)
(*        empty lines (CRLF) before the request line, RFC 9112 2.2),        *)
(*    rl, hdrs: Seq(HdrKinds), fr: "none"|"len"|"chunked",                 *)
(*    n: data bytes present for fr="len",                                  *)
(*    chunks: Seq([sz: size symbol, n: data bytes present, term: BOOLEAN,  *)
(*                 junk: JUNK bytes in place of a missing CRLF]),          *)
(*    last: last-chunk symbol or "none", trl: Seq(HdrKinds),               *)
(*    pad: [rl, h, c, t] extra PAD symbols on the request line, the first  *)
(*         header line, the first chunk-size line, the first trailer line] *)
(* The body layout says what bytes FOLLOW the head; the generator keeps it *)
(* consistent with the framing the strict reading derives from the head,   *)
(* or the message is one that the strict reading refuses.                  *)

Rep(s, n) == [i \in 1..n |-> s]

RECURSIVE FlatLines(_, _)
FlatLines(hs, pad) ==
  IF hs = <<>> THEN <<>> ELSE <<Head(hs)>> \o Rep(PAD, pad) \o <<CR, LF>> \o FlatLines(Tail(hs), 0)

SizeLine(sz, pad) == (IF sz = "Sempty" THEN <<>> ELSE <<sz>>) \o Rep(PAD, pad) \o <<CR, LF>>

RECURSIVE FlatChunks(_, _)
FlatChunks(cs, pad) ==
  IF cs = <<>> THEN <<>>
  ELSE LET c == Head(cs) IN
       SizeLine(c.sz, pad) \o Rep(X, c.n)
         \o (IF c.term THEN <<CR, LF>> ELSE Rep(JUNK, c.junk)) \o FlatChunks(Tail(cs), 0)

(* fr = "embed": a Content-Length body of 5 symbols that spells a complete request (the smuggling shape: an
   application that ignores the body must not make the server read it as the next request) *)
EmbeddedRequest == <<"RL11", CR, LF, CR, LF>>
FlatBody(m) ==
  CASE m.fr = "len" -> Rep(X, m.n)
    [] m.fr = "embed" -> EmbeddedRequest
    [] m.fr = "chunked" ->
         FlatChunks(m.chunks, m.pad.c)
           \o (IF m.last = "none" THEN <<>>
               ELSE SizeLine(m.last, IF m.chunks = <<>> THEN m.pad.c ELSE 0)
                      \o FlatLines(m.trl, m.pad.t) \o <<CR, LF>>)
    [] OTHER -> <<>>

BlankPx == {"blank1", "blank2"}
PxSyms(m) == IF m.px = "none" THEN <<>>
             ELSE IF m.px = "blank1" THEN <<CR, LF>> ELSE IF m.px = "blank2" THEN <<CR, LF, CR, LF>>
             ELSE <<(IF m.px = "on_bad" THEN "PXbad" ELSE "PX"), CR, LF>>
HeadSyms(m) == PxSyms(m) \o <<m.rl>> \o Rep(PAD, m.pad.rl) \o <<CR, LF>> \o FlatLines(m.hdrs, m.pad.h) \o <<CR, LF>>
FlatMsg(m) == HeadSyms(m) \o FlatBody(m)

RECURSIVE FlatAll(_)
FlatAll(ms) == IF ms = <<>> THEN <<>> ELSE FlatMsg(Head(ms)) \o FlatAll(Tail(ms))

-----------------------------------------------------------------------------
(* Strict reading of one head.                                             *)
Count(hs, K) == Cardinality({i \in DOMAIN hs : hs[i] \in K})
Has(hs, K) == \E i \in DOMAIN hs : hs[i] \in K

(* "reject": a strict recipient refuses; the request must not reach the    *)
(*   application and nothing after it may be parsed.                       *)
(* "dc": the RFC leaves the recipient a choice (refuse, or natural framing)*)
(* "ok": must be framed as returned.                                       *)
(* a PROXY line is part of the connection preamble: acceptable only as the very first line of the
   connection and only when the protocol is enabled; anywhere else it is a malformed request line *)
PxOk(m, first, proxyOn) == m.px = "none" \/ m.px \in BlankPx \/ (m.px = "on_ok" /\ first /\ proxyOn)

HeadVerdictPx(m, first, proxyOn) == IF ~PxOk(m, first, proxyOn) THEN "reject" ELSE "ok"

HeadVerdict(m) ==
  LET hs == m.hdrs
      nCL == Count(hs, CLKinds)
      nTEc == Count(hs, TEChunkedKinds \cup TEDontCare)
      anyTE == Has(hs, TEKinds)
  IN IF m.rl \notin RLOk THEN "reject"
     ELSE IF Has(hs, HRejectKinds) THEN "reject"
     ELSE IF nCL > 1 THEN "reject"                      \* repeated Content-Length
     ELSE IF nTEc > 1 THEN "reject"                     \* chunked twice (two fields)
     ELSE IF nTEc = 1 /\ Has(hs, TECloseOnly \cup TENoop)
          THEN "dc"                                      \* order of separate TE fields not modelled
     ELSE IF nTEc = 1 /\ nCL > 0 THEN "reject"          \* Content-Length with chunked
     ELSE IF nTEc = 1 /\ m.rl = "RL10" THEN "reject"    \* chunked on HTTP/1.0
     ELSE IF Has(hs, TEDontCare) THEN "dc"
     ELSE "ok"

HeadFraming(m) ==
  IF Has(m.hdrs, TEChunkedKinds \cup TEDontCare) THEN "chunked"
  ELSE IF Has(m.hdrs, CLKinds) THEN "len" ELSE "none"

HeadCL(m) == LET i == CHOOSE i \in DOMAIN m.hdrs : m.hdrs[i] \in CLKinds IN CLVal(m.hdrs[i])

(* Must the connection be closed after this message (RFC 9112 9.3, 9.6;    *)
(* a transfer coding without chunked leaves the length unknown)?           *)
HeadClose(m) ==
  LET conn == SelectSeq(m.hdrs, LAMBDA h : h \in {"ConnClose", "ConnKeep"})
  IN \/ Has(m.hdrs, TECloseOnly \cup {"TEgzipchunked"})
     \/ IF conn # <<>> THEN conn[1] = "ConnClose" ELSE m.rl = "RL10"

(* Is the connection allowed to stay open?  (Only constrains the parser in *)
(* one direction: it must not read a further request when HeadClose.)      *)

-----------------------------------------------------------------------------
(* Strict reading of a body that follows a head with the given framing.    *)
(* Returns [data: positions of body bytes (1-based stream offsets),        *)
(*          len: symbols spanned, v: "ok" | "reject" | "dc"]               *)
(* off = number of symbols before the body.                                *)
RECURSIVE ChunksRead(_, _, _, _)
ChunksRead(cs, off, acc, pad) ==
  IF cs = <<>> THEN [data |-> acc, len |-> 0, v |-> "ok"]
  ELSE LET c == Head(cs)
           szlen == Len(SizeLine(c.sz, pad))
       IN IF c.sz \in SizeBad \/ c.sz \in LastOk
          THEN [data |-> acc, len |-> 0, v |-> "reject"]          \* (LastOk inside chunks: generator never does)
          ELSE LET d == [i \in 1..c.n |-> off + szlen + i]
                   r == ChunksRead(Tail(cs), off + szlen + c.n + 2, acc \o d, 0)
               IN IF ~c.term
                  THEN [data |-> acc \o d, len |-> 0, v |-> "reject"]   \* missing CRLF after the data
                  ELSE IF c.sz \in SizeDontCare /\ r.v = "ok"
                       THEN [data |-> r.data, len |-> r.len + szlen + c.n + 2, v |-> "dc"]
                       ELSE [data |-> r.data, len |-> r.len + szlen + c.n + 2, v |-> r.v]

BodyRead(m, off) ==
  CASE HeadFraming(m) = "none" -> [data |-> <<>>, len |-> 0, v |-> "ok", lastdone |-> 0]
    [] HeadFraming(m) = "len" ->
         LET n == HeadCL(m) IN [data |-> [i \in 1..n |-> off + i], len |-> n, v |-> "ok", lastdone |-> n]
    [] OTHER ->
         LET r == ChunksRead(m.chunks, off, <<>>, m.pad.c)
             lastlen == Len(SizeLine(m.last, IF m.chunks = <<>> THEN m.pad.c ELSE 0))
         IN IF r.v = "reject" THEN [data |-> r.data, len |-> 0, v |-> "reject", lastdone |-> 0]
            ELSE IF Has(m.trl, HRejectKinds) THEN [data |-> r.data, len |-> 0, v |-> "reject", lastdone |-> r.len + lastlen]
            ELSE [data |-> r.data, len |-> r.len + lastlen + Len(FlatLines(m.trl, m.pad.t)) + 2, v |-> r.v,
                  lastdone |-> r.len + lastlen]

(* Strict(ms): per message [hv, bv, start, lead, hend, data, end, close]   *)
(* (lead: empty-line symbols before the request line; a recipient that     *)
(* skips them starts the request at start + lead).                         *)
(* Messages after the first one that is refused or closes are not read.    *)
RECURSIVE StrictFrom(_, _, _, _)
StrictFrom(ms, off, first, proxyOn) ==
  IF ms = <<>> THEN <<>>
  ELSE LET m == Head(ms)
           \* RFC 9112 2.2: a server SHOULD ignore at least one empty line received before the request line:
           \* it may skip them or refuse the request, so the head is the recipient's choice ("dc")
           hv == IF HeadVerdictPx(m, first, proxyOn) = "reject" THEN "reject"
                 ELSE IF m.px \in BlankPx /\ HeadVerdict(m) # "reject" THEN "dc" ELSE HeadVerdict(m)
           lead == IF m.px \in BlankPx THEN Len(PxSyms(m)) ELSE 0
           hend == off + Len(HeadSyms(m))
       IN IF hv = "reject"
          THEN << [hv |-> "reject", bv |-> "ok", start |-> off, lead |-> lead, hend |-> hend, data |-> <<>>,
                   end |-> hend, close |-> TRUE, lastdone |-> hend, chunked |-> FALSE] >>
          ELSE LET b == BodyRead(m, hend)
                   rec == [hv |-> hv, bv |-> b.v, start |-> off, lead |-> lead, hend |-> hend, data |-> b.data,
                           end |-> hend + b.len, close |-> HeadClose(m),
                           \* lastdone: offset at which the terminating chunk's size line is complete
                           lastdone |-> hend + b.lastdone, chunked |-> HeadFraming(m) = "chunked"]
               IN IF b.v = "reject" \/ HeadClose(m) THEN <<rec>>
                  ELSE <<rec>> \o StrictFrom(Tail(ms), hend + b.len, FALSE, proxyOn)

ProxyOn(ms) == ms # <<>> /\ ms[1].px \in {"on_ok", "on_bad"}
Strict(ms) == StrictFrom(ms, 0, TRUE, ProxyOn(ms))

(* Generator discipline: the bytes after a head are laid out according to  *)
(* the framing the strict reading derives (so that the stream has exactly  *)
(* one strict reading).                                                    *)
WellLaidOut(m) ==
  IF HeadVerdict(m) = "reject" THEN m.fr = "none"
  ELSE /\ m.fr = HeadFraming(m) \/ (m.fr = "embed" /\ HeadFraming(m) = "len" /\ HeadCL(m) = 5)
       /\ m.fr = "len" => m.n = HeadCL(m)
       /\ m.fr = "chunked" =>
            /\ m.last \in LastOk \/ (m.last = "none" /\ ChunksRead(m.chunks, 0, <<>>, 0).v = "reject")
            /\ \A i \in DOMAIN m.chunks :
                 LET c == m.chunks[i] IN
                 IF c.sz \in SizeOk \cup SizeDontCare THEN c.n = SizeVal(c.sz)
                 ELSE TRUE

=============================================================================
