-------------------------- MODULE HttpLimitsTrace --------------------------
(***************************************************************************)
(* Property monitor (P) for C12 on records produced by the real parser.    *)
(*  e = "limit": one request with measured sizes (bytes) under configured  *)
(*      limits cfg = [line, fields, fsize] (0 = unlimited for line/fsize): *)
(*      rllen (request line without CRLF), nfields (field lines as sent),  *)
(*      maxfield (longest field line without CRLF), wellformed (the head   *)
(*      is otherwise valid), handed (reached the application).             *)
(*  e = "endless": a client that never sends the delimiter the parser      *)
(*      waits for in phase ph; fed = bytes handed to the parser in that    *)
(*      phase before it refused (or before the driver gave up: refused =   *)
(*      FALSE), recv = read size.                                          *)
(* "Exceeds" / "within" are taken with a margin of the 2 CRLF bytes so     *)
(* that either way of counting the line terminator is accepted.            *)
(***************************************************************************)
EXTENDS Naturals, Sequences, TLC, Json, IOUtils, TLCExt

Traces == ndJsonDeserialize(IOEnv.TRACE_FILE)
NT == Len(Traces)
VARIABLES tid, l, verdict
vars == <<tid, l, verdict>>
T == Traces[tid]

MaxLine == 8190
MaxFields == 32768
DefaultFS == 8190
EffLine(c) == c.line                       \* already clamped by the driver as documented
EffFields(c) == c.fields
EffFS(c) == c.fsize
Max(a, b) == IF a > b THEN a ELSE b

(* what the configuration bounds the head buffer to *)
HeadBound(c) == EffFields(c) * ((IF EffFS(c) > 0 THEN EffFS(c) ELSE DefaultFS) + 2) + 4
Bound(c, recv) == Max(IF EffLine(c) > 0 THEN EffLine(c) + 2 ELSE MaxLine + 2, HeadBound(c)) + recv + 4

Over(e) ==
  \/ EffLine(e.cfg) > 0 /\ e.rllen > EffLine(e.cfg) + 2
  \/ e.nfields > EffFields(e.cfg)
  \/ EffFS(e.cfg) > 0 /\ e.maxfield > EffFS(e.cfg)
(* (the request line is measured without its CRLF: a line of exactly limit_request_line bytes is within the limit) *)
Within(e) ==
  /\ EffLine(e.cfg) > 0 => e.rllen <= EffLine(e.cfg)
  /\ e.nfields <= EffFields(e.cfg)
  /\ EffFS(e.cfg) > 0 => e.maxfield + 2 <= EffFS(e.cfg)

LimitVerdict(e) ==
  IF Over(e) /\ e.handed THEN "OverLimitReachedApp"
  ELSE IF Within(e) /\ e.wellformed /\ ~e.handed THEN "WithinLimitsRejected"
  ELSE "ok"

EndlessVerdict(e) ==
  IF ~e.refused THEN "BufferedWithoutLimit"
  ELSE IF e.fed > Bound(e.cfg, e.recv) THEN "BufferBoundExceeded"
  ELSE "ok"

Init == tid \in 1..NT /\ l = 1 /\ verdict = "ok"
Step ==
  /\ verdict = "ok" /\ l <= Len(T.ev)
  /\ LET e == T.ev[l] IN
       verdict' = (IF e.e = "limit" THEN LimitVerdict(e) ELSE EndlessVerdict(e))
  /\ l' = l + 1 /\ UNCHANGED tid
Spec == Init /\ [][Step]_vars
Record == TLCSet(tid, <<verdict, l - 1>>)
Post == \A t \in 1..NT : PrintT(<<"VERDICT", t, TLCGet(t)>>)
=============================================================================
