-------------------------- MODULE ConfigMergeTrace --------------------------
(***************************************************************************)
(* Trace validation for C16.  One trace = the cases of one concrete        *)
(* setting; one event = one load of the real application:                  *)
(*   [kind, fw, file, env, cli, files : <<namings>>,   abstract case       *)
(*    fail : BOOLEAN,           startup stopped (SystemExit / exception)   *)
(*    fb, fbdep : "no"|"set", BOOLEAN   the setting's stand-in variable is *)
(*                              present; the value in force changes with   *)
(*                              the variable's value (two loads compared)  *)
(*    obs  : <<labels>>]        labels among "A", "B", "D" whose           *)
(*                              normalised value equals the effective one  *)
(*                              (<<>>: some other value)                   *)
(* (P) verdict: C16 and nothing else --                                    *)
(*   UnmentionedUntouched  no source mentions it: the default, no failure  *)
(*   InvalidStopsStartup   the most authoritative mention is invalid:      *)
(*                         startup must stop                               *)
(*   ValidStarts           no invalid mention: startup must not stop       *)
(*   FallbackOnlyWhenUnmentioned  some source mentions it validly, yet the  *)
(*                         value in force follows the stand-in variable    *)
(*   MostAuthoritativeWins otherwise the value of the most authoritative   *)
(*                         mention (an invalid mention by a less           *)
(*                         authoritative source may stop startup or not)   *)
(* (C) cv: outcome predicted by ConfigMerge.tla (the code's four steps).   *)
(***************************************************************************)
EXTENDS ConfigMerge, Json, IOUtils, TLCExt

Traces == ndJsonDeserialize(IOEnv.TRACE_FILE)
NT == Len(Traces)

VARIABLES tid, l, verdict, cv, cstep
tvars == <<tid, l, verdict, cv, cstep>>
T == Traces[tid]
Range(q) == {q[j] : j \in DOMAIN q}

CaseOf(e) == [kind |-> e.kind, fw |-> e.fw, file |-> e.file, env |-> e.env, cli |-> e.cli,
              files |-> Range(e.files), fb |-> e.fb]

TInit == s = S0(CHOOSE c \in Cases : TRUE) /\ tid \in 1..NT /\ l = 1 /\ verdict = "ok" /\ cv = "ok" /\ cstep = 0

PTop(c) == Top(c)
PAnyBad(c) == AnyBad(c)

PVerdict(e) ==
  LET c == CaseOf(e)
      top == PTop(c)
      m == IF top = "none" THEN "no" ELSE PMent(c, top)
      want == ValueOf(m)
  IN
  IF top = "none"
  THEN (IF e.fail THEN "ValidStarts" ELSE IF "D" \notin Range(e.obs) THEN "UnmentionedUntouched" ELSE "ok")
  ELSE IF m = "bad" THEN (IF e.fail THEN "ok" ELSE "InvalidStopsStartup")
  ELSE IF e.fail THEN (IF PAnyBad(c) THEN "ok" ELSE "ValidStarts")
  ELSE IF e.fb = "set" /\ e.fbdep THEN "FallbackOnlyWhenUnmentioned"
  ELSE IF want \notin Range(e.obs) THEN "MostAuthoritativeWins"
  ELSE "ok"

CVerdict(e) ==
  LET o == Outcome(CaseOf(e)) IN
  IF (o.status = "failed") # e.fail THEN "drift:startup-" \o o.status
  ELSE IF ~e.fail /\ o.eff \notin Range(e.obs) THEN "drift:value-" \o o.eff
  ELSE IF ~e.fail /\ e.fb = "set" /\ o.fbused # e.fbdep THEN "drift:fallback"
  ELSE "ok"

TStep ==
  /\ verdict = "ok" /\ l <= Len(T.ev)
  /\ LET e == T.ev[l] IN
     /\ verdict' = PVerdict(e)
     /\ cv' = IF cv # "ok" THEN cv ELSE CVerdict(e)
     /\ cstep' = IF cv # "ok" THEN cstep ELSE l
  /\ l' = l + 1 /\ UNCHANGED <<tid, s>>

TSpec == TInit /\ [][TStep]_<<s, tvars>>

Record == TLCSet(tid, IF verdict # "ok" THEN <<verdict, l - 1>>
                      ELSE IF cv # "ok" THEN <<cv, cstep>> ELSE <<"ok", l - 1>>)
Post == \A t \in 1..NT : PrintT(<<"VERDICT", t, TLCGet(t)>>)
=============================================================================
