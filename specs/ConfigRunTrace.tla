--------------------------- MODULE ConfigRunTrace ---------------------------
(***************************************************************************)
(* Property monitor (P) for C16 on REAL servers: the value a setting has   *)
(* after the sources were merged (judged by ConfigMergeTrace) is the value *)
(* the running master and its workers actually use -- nothing between the  *)
(* merge and the fork (Arbiter.setup / start, the worker class's           *)
(* check_config, hooks) replaces a value given by a source.                *)
(*  ev: {e:"setting", name, merged_ok: the merged value is what the        *)
(*        documented rule says for the sources of this run (only for the   *)
(*        settings the run mentions explicitly), master_same, worker_same: *)
(*        repr() of the value seen in when_ready / post_worker_init equals *)
(*        repr() of the merged value}                                      *)
(***************************************************************************)
EXTENDS Integers, Sequences, TLC, Json, IOUtils, TLCExt
Traces == ndJsonDeserialize(IOEnv.TRACE_FILE)
NT == Len(Traces)
VARIABLES tid, l, verdict
vars == <<tid, l, verdict>>
T == Traces[tid]
V(e) ==
  IF ~e.merged_ok THEN "MostAuthoritativeWins"
  ELSE IF ~e.master_same THEN "ValueReplacedAfterMerge"
  ELSE IF ~e.worker_same THEN "ValueReplacedAfterMerge"
  ELSE "ok"
Init == tid \in 1..NT /\ l = 1 /\ verdict = "ok"
Step == /\ verdict = "ok" /\ l <= Len(T.ev) /\ verdict' = V(T.ev[l]) /\ l' = l + 1 /\ UNCHANGED tid
Spec == Init /\ [][Step]_vars
Record == TLCSet(tid, <<verdict, l - 1>>)
Post == \A t \in 1..NT : PrintT(<<"VERDICT", t, TLCGet(t)>>)
=============================================================================
