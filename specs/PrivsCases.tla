----------------------------- MODULE PrivsCases -----------------------------
(* Emits the complete product of Privs (one case per line, NDJSON) with the  *)
(* terminal outcome the machine with the given Dev predicts, for the         *)
(* conformance driver.                                                       *)
EXTENDS Privs, Json, IOUtils, FiniteSetsExt, SequencesExt
VARIABLE done
Row(c) == LET o == Outcome(c) IN
          [case |-> c, uid |-> CfgU(c), gid |-> CfgG(c), known |-> Known(c), m |-> MasterCreds(c.master),
           ug |-> UG(CfgU(c)), end |-> o.end, w |-> o.w, atload |-> o.atload, loaded |-> o.loaded,
           calls |-> o.calls, beat |-> o.beat, tmpOwner |-> o.tmpOwner]
Cs == SetToSeq({Row(c) : c \in Cases})
CInit == done = FALSE /\ s = S0(CHOOSE c \in Cases : TRUE)
CNext == done = FALSE /\ done' = ndJsonSerialize(IOEnv.CASES_OUT, Cs) /\ UNCHANGED s
CSpec == CInit /\ [][CNext]_<<done, s>>
=============================================================================
