---------------------------- MODULE ResponseTrace ----------------------------
(***************************************************************************)
(* Property monitor (P) for C02 on exchanges served by the REAL handle()   *)
(* of a gunicorn worker class.  One trace = one request on a scripted      *)
(* connection:                                                             *)
(*   rq  = [ver, head, conn]            what the client sent               *)
(*   app = [status, cl, total, wb]      what the application produced      *)
(*         (cl = -1: no Content-Length; total = body bytes it yielded      *)
(*          after a file offset; wb: the driver built a well-behaved app)  *)
(*   ev  = [ {e:"resp", ...}, {e:"after", open} ]                          *)
(* The "resp" event is what an independent strict response reader          *)
(* (harness/oracle_wire.py) extracted from the bytes the client received:  *)
(* wellformed, nresp (responses found), junk (bytes that belong to no      *)
(* response), status, conn, te, cl, mode, chunks (data chunk sizes),       *)
(* body (decoded length), bodymatch (decoded bytes = the application's     *)
(* bytes cut to cl), complete.                                             *)
(***************************************************************************)
EXTENDS Integers, Sequences, FiniteSets, TLC, Json, IOUtils, TLCExt

Traces == ndJsonDeserialize(IOEnv.TRACE_FILE)
NT == Len(Traces)
VARIABLES tid, l, seen, verdict
vars == <<tid, l, seen, verdict>>
T == Traces[tid]

Min(a, b) == IF a < b THEN a ELSE b
NoBody == T.rq.head \/ T.app.status \in {204, 304}
ReqAskedClose == T.rq.conn = "close" \/ (T.rq.conn = "none" /\ T.rq.ver = 10)
Expected == IF NoBody THEN 0 ELSE IF T.app.cl >= 0 THEN Min(T.app.total, T.app.cl) ELSE T.app.total
WB == T.app.wb

(* the application raised: the client gets either one complete error reply (nothing of the application's
   response had been sent) or a visibly cut-off response followed by close - never anything after it *)
FailVerdict(e) ==
  IF ~e.wellformed \/ e.junk > 0 \/ e.nresp > 1 THEN "AbortedResponseFollowedByGarbage"
  ELSE IF ~T.app.started /\ (e.status < 500 \/ e.conn # "close") THEN "FailureBeforeOutputNotAnErrorReply"
  ELSE IF T.app.started /\ e.status # T.app.status THEN "AbortedResponseFollowedByGarbage"
  ELSE IF T.app.started /\ e.te /\ e.complete /\ ~NoBody THEN "AbortedResponseLooksComplete"
  ELSE "ok"

RespVerdict(e) ==
  IF T.app.fail # "none" THEN FailVerdict(e)
  ELSE IF ~WB THEN (IF e.wellformed /\ e.cl >= 0 /\ ~NoBody /\ e.body + e.junk > e.cl /\ e.mode = "cl"
               THEN "ExceedsContentLength" ELSE "ok")
  ELSE IF ~e.wellformed \/ e.nresp # 1 \/ e.junk > 0 THEN "NotExactlyOneResponse"
  ELSE IF e.status # T.app.status THEN "StatusMismatch"
  ELSE IF e.te /\ (T.rq.ver = 10 \/ NoBody \/ e.cl >= 0) THEN "ChunkedNotAllowed"
  ELSE IF T.app.cl >= 0 /\ e.cl # T.app.cl THEN "ContentLengthHeaderLost"
  ELSE IF e.body # Expected \/ ~e.bodymatch THEN "BodyMismatch"
  ELSE IF e.te /\ (~e.complete \/ \E k \in DOMAIN e.chunks : e.chunks[k] = 0) THEN "ChunkedStreamBroken"
  ELSE IF e.cl >= 0 /\ ~NoBody /\ e.body # e.cl THEN "ShortOfContentLength"
  ELSE "ok"

AfterVerdict(e) ==
  LET r == seen IN
  IF T.app.fail # "none" THEN (IF e.open THEN "KeptOpenAfterApplicationFailure" ELSE "ok")
  ELSE IF ~e.open \/ ~WB THEN "ok"
  ELSE IF r.cl < 0 /\ ~r.te /\ ~NoBody THEN "KeptOpenWithoutDelimiter"
  ELSE IF ReqAskedClose THEN "KeptOpenAgainstClient"
  ELSE IF r.conn # "keep-alive" THEN "KeptOpenButAnnouncedClose"
  ELSE "ok"

Init == tid \in 1..NT /\ l = 1 /\ seen = [cl |-> -1, te |-> FALSE, conn |-> "none"] /\ verdict = "ok"
Step ==
  /\ verdict = "ok" /\ l <= Len(T.ev)
  /\ LET e == T.ev[l] IN
     IF e.e = "resp"
     THEN /\ verdict' = RespVerdict(e)
          /\ seen' = (IF e.wellformed THEN [cl |-> e.cl, te |-> e.te, conn |-> e.conn] ELSE seen)
     ELSE verdict' = AfterVerdict(e) /\ UNCHANGED seen
  /\ l' = l + 1 /\ UNCHANGED tid
Spec == Init /\ [][Step]_vars
Record == TLCSet(tid, <<verdict, l - 1>>)
Post == \A t \in 1..NT : PrintT(<<"VERDICT", t, TLCGet(t)>>)
=============================================================================
