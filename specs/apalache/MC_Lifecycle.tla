---------------------------- MODULE MC_Lifecycle ----------------------------
(* Apalache wrapper for Lifecycle.tla: the safety properties as an inductive invariant, for constants beyond what TLC
   enumerates (MaxAge = 6 workers over the life of a master, 4 configured, 3 threads).
     apalache-mc check --init=IndInit --inv=IndInv --length=1 MC_Lifecycle.tla     (consecution)
     apalache-mc check --init=Init --inv=IndInv --length=0 MC_Lifecycle.tla        (initiation)                         *)
EXTENDS Integers, Sequences, FiniteSets

MaxAge == 6
MaxN == 4
Threads == 3
Dev == {}

VARIABLE
  \* @type: { m: Str, n: Int, age: Int, w: Int -> Str, req: Int -> Int, sig: Int -> Str, exec: Bool };
  s


INSTANCE Lifecycle

Phases == {"none", "pre", "forked", "init", "wexit", "gone", "reaped"}
Types ==
  /\ s.m \in {"new", "configured", "starting", "ready", "reloading", "halting", "exited"}
  /\ s.n \in (-1)..MaxN
  /\ s.age \in 0..MaxAge
  /\ s.exec \in BOOLEAN
  /\ DOMAIN s.w = Ages /\ DOMAIN s.req = Ages /\ DOMAIN s.sig = Ages
  /\ \A a \in Ages : s.w[a] \in Phases /\ s.req[a] \in 0..Threads /\ s.sig[a] \in {"none", "int", "abort"}
IndInv ==
  /\ Types
  /\ NoWorkerBeforeReady
  /\ RequestsOnlyAfterInit
  \* ages are handed out in order: what has not been forked yet is "none"
  /\ \A a \in Ages : a > s.age => s.w[a] = "none" /\ s.req[a] = 0 /\ s.sig[a] = "none"
  /\ \A a \in Ages : s.sig[a] # "none" => s.w[a] # "none" /\ s.w[a] # "pre"
IndInit ==
  /\ s \in [m: {"new", "configured", "starting", "ready", "reloading", "halting", "exited"}, n: (-1)..MaxN, age: 0..MaxAge,
            w: [Ages -> Phases], req: [Ages -> 0..Threads], sig: [Ages -> {"none", "int", "abort"}], exec: BOOLEAN]
  /\ IndInv
=============================================================================
