-------------------------------- MODULE Conn --------------------------------
(***************************************************************************)
(* One request on one connection through a worker's handle(): the          *)
(* try / except / finally ladders of sync.handle + handle_request,         *)
(* gthread.handle + handle_request + finish_request, base_async.handle +   *)
(* handle_request, and Worker.handle_error.                                *)
(* Init ranges over worker class x parse outcome x application outcome;    *)
(* each behaviour is the path the code takes.  Observables: application    *)
(* calls, error pages written, access records, socket closed, exception    *)
(* escaping handle().                                                      *)
(***************************************************************************)
EXTENDS Naturals, Sequences, FiniteSets, TLC

CONSTANT Dev

Classes == {"sync", "gthread", "async"}
(* what next(parser) does *)
ParseOutcomes == {"ok",
                  "reject_listed",     \* ParseException listed in handle_error: 400/403/431/501 page
                  "reject_withreq",    \* InvalidHeader(req=...) from set_body_reader: page + access record
                  "reject_unlisted",   \* any other exception class: 500 page
                  "nomore", "stop",    \* NoMoreData / StopIteration: silent
                  "os_quiet",          \* OSError EPIPE / ECONNRESET / ENOTCONN
                  "os_other", "ssl_eof", "ssl_other",
                  "base_exc"}          \* BaseException that is not an Exception (SystemExit from a signal handler...)
(* what the application / response writing does, given parse = ok *)
AppOutcomes == {"complete",
                "raise_in_call",       \* raises before returning its iterable, nothing sent
                "raise_iter_unsent",   \* iterable raises before any write
                "raise_iter_sent",     \* iterable raises after the head was sent
                "input_error_unsent",  \* wsgi.input raises a body framing error inside the application
                "client_gone",         \* sendall raises EPIPE / ECONNRESET
                "base_exc_in_app"}
PageWrite == {"ok", "fails"}           \* util.write_error may itself hit a dead socket

VARIABLES cls, parse, app, pw, pc, appCalls, pages, recs, closed, escaped, rejected
vars == <<cls, parse, app, pw, pc, appCalls, pages, recs, closed, escaped, rejected>>

Init == /\ cls \in Classes /\ parse \in ParseOutcomes /\ app \in AppOutcomes /\ pw \in PageWrite
        /\ (parse # "ok" => app = "complete")
        /\ pc = "parse" /\ appCalls = 0 /\ pages = 0 /\ recs = 0 /\ closed = FALSE /\ escaped = FALSE
        /\ rejected = FALSE

(* Worker.handle_error(req, ...): access record iff req is known; then the error page *)
HandleError(withReq) ==
  /\ recs' = recs + (IF withReq THEN 1 ELSE 0)
  /\ pages' = pages + (IF pw = "ok" THEN 1 ELSE 0)
  /\ pc' = "finally"

Parse ==
  /\ pc = "parse"
  /\ CASE parse = "ok" -> pc' = "app" /\ UNCHANGED <<pages, recs, escaped, rejected>>
       [] parse \in {"reject_listed", "reject_unlisted"} -> HandleError(FALSE) /\ rejected' = TRUE /\ UNCHANGED escaped
       [] parse = "reject_withreq" -> HandleError(TRUE) /\ rejected' = TRUE /\ UNCHANGED escaped
       [] parse \in {"nomore", "stop", "os_quiet", "os_other", "ssl_eof"} ->
            pc' = "finally" /\ UNCHANGED <<pages, recs, escaped, rejected>>
       [] parse = "ssl_other" -> HandleError(FALSE) /\ rejected' = TRUE /\ UNCHANGED escaped
       [] OTHER -> \* base_exc: sync and async catch BaseException; gthread.handle only Exception
            IF cls = "gthread" /\ "GthreadCatchesBase" \notin Dev
            THEN escaped' = TRUE /\ pc' = "finally" /\ UNCHANGED <<pages, recs, rejected>>
            ELSE HandleError(FALSE) /\ UNCHANGED <<escaped, rejected>>
  /\ UNCHANGED <<cls, parse, app, pw, appCalls, closed>>

App ==
  /\ pc = "app"
  /\ appCalls' = appCalls + 1
  /\ CASE app = "complete" -> recs' = recs + 1 /\ pc' = "finally" /\ UNCHANGED <<pages, escaped>>
       [] app = "raise_in_call" -> HandleError(TRUE) /\ UNCHANGED escaped
       [] app \in {"raise_iter_unsent", "input_error_unsent"} ->
            \* the finally of handle_request logs, then handle_error logs again and writes the page
            /\ recs' = recs + 2 /\ pages' = pages + (IF pw = "ok" THEN 1 ELSE 0) /\ pc' = "finally"
            /\ UNCHANGED escaped
       [] app = "raise_iter_sent" -> recs' = recs + 1 /\ pc' = "finally" /\ UNCHANGED <<pages, escaped>>
       [] app = "client_gone" -> recs' = recs + 1 /\ pc' = "finally" /\ UNCHANGED <<pages, escaped>>
       [] OTHER -> \* base_exc_in_app
            IF cls = "gthread" /\ "GthreadCatchesBase" \notin Dev
            THEN recs' = recs /\ escaped' = TRUE /\ pc' = "finally" /\ UNCHANGED pages
            ELSE HandleError(TRUE) /\ UNCHANGED escaped
  /\ UNCHANGED <<cls, parse, app, pw, closed, rejected>>

(* sync / async: finally util.close(client); gthread: finish_request closes (also on exception) *)
Finally ==
  /\ pc = "finally" /\ closed' = TRUE /\ pc' = "done"
  /\ UNCHANGED <<cls, parse, app, pw, appCalls, pages, recs, escaped, rejected>>

Next == Parse \/ App \/ Finally
Spec == Init /\ [][Next]_vars /\ WF_vars(Next)

-----------------------------------------------------------------------------
Done == pc = "done"
(* C05 *)
NoAppCallAfterReject == rejected => appCalls = 0
AtMostOneErrorPage == pages <= 1
ErrorPageOnlyWithoutResponse == (pages = 1) => app \notin {"complete", "raise_iter_sent", "client_gone"} \/ parse # "ok"
AlwaysClosed == <>(closed)
(* the worker survives: nothing escapes handle() for any input / socket outcome.  BaseException *)
(* (SystemExit raised by a signal handler) is outside the input quantifier of C05.               *)
HandleNeverRaises == (escaped => (parse = "base_exc" \/ app = "base_exc_in_app"))
(* C19 *)
ExactlyOneRecordPerCompletedApp == (Done /\ parse = "ok" /\ app = "complete") => recs = 1
AtMostOneRecordPerRejected == (Done /\ rejected) => recs <= 1
=============================================================================
