------------------------------- MODULE Upgrade -------------------------------
(***************************************************************************)
(* Binary upgrade (USR2): two generations of master over one set of        *)
(* listening descriptors, the pid files and a unix socket's file.          *)
(* Actions follow arbiter.py: reexec (fork + exec with GUNICORN_PID /      *)
(* GUNICORN_FD), start (adopt descriptors, pid file under ".2"),           *)
(* handle_chld/reap_workers (reexec_pid := 0), maybe_promote_master        *)
(* (getppid changed: rename the pid file), stop (close listeners, unlink   *)
(* the socket file iff reexec_pid = master_pid = 0), halt (unlink own pid  *)
(* file).  Masters: "a" (original) and "b" (started by a's USR2); a third  *)
(* generation "c" may be started by b after its promotion.                 *)
(***************************************************************************)
EXTENDS Naturals, Sequences, FiniteSets, TLC

CONSTANTS Unix,        \* bind is a unix socket (a file to unlink) or tcp
          MaxSignals,  \* budget of operator signals
          Dev

Daemon == "NotDaemon" \notin Dev      \* WINCH only acts on a daemonized master

M == {"a", "b", "c"}
Parent(m) == IF m = "b" THEN "a" ELSE IF m = "c" THEN "b" ELSE "none"
Child(m) == IF m = "a" THEN "b" ELSE IF m = "b" THEN "c" ELSE "none"

VARIABLES st,         \* st[m]: "none" | "booting" (exec'ed, not yet listening) | "up" | "stopping" | "dead"
          reexec,     \* reexec[m]: the child master m believes it has ("none" or a master)
          mpid,       \* mpid[m]: parent master m believes it has ("none" = promoted / original)
          holds,      \* set of masters holding the listening descriptors open
          zombie,     \* masters that exited and were not yet reaped by their parent
          pidfile,    \* [base |-> content, two |-> content]: "none" or a master's name
          sockfile,   \* the unix socket's file exists
          nsig, usr2Ignored,
          workers,    \* workers[m]: number of workers master m runs (configured: 1)
          wantServe,  \* history: the operator's last word on m's workers (WINCH: FALSE, HUP / start: TRUE)
          cause,      \* history: cause[m] why m is dead: "op" (stop signal) | "boot" (failed to boot) | "none"
          lastExit    \* history: the master that exited last
vars == <<st, reexec, mpid, holds, zombie, pidfile, sockfile, nsig, usr2Ignored, workers, wantServe, cause, lastExit>>
svars == <<workers, wantServe, cause, lastExit>>

Init == /\ st = [m \in M |-> IF m = "a" THEN "up" ELSE "none"]
        /\ reexec = [m \in M |-> "none"] /\ mpid = [m \in M |-> "none"]
        /\ holds = {"a"} /\ zombie = {} /\ pidfile = [base |-> "a", two |-> "none"] /\ sockfile = Unix
        /\ nsig = 0 /\ usr2Ignored = FALSE
        /\ workers = [m \in M |-> IF m = "a" THEN 1 ELSE 0] /\ wantServe = [m \in M |-> m = "a"]
        /\ cause = [m \in M |-> "none"] /\ lastExit = "none"

Alive(m) == st[m] \in {"booting", "up", "stopping"}

(* operator sends USR2 to an "up" master *)
USR2(m) ==
  /\ st[m] = "up" /\ nsig < MaxSignals /\ nsig' = nsig + 1
  /\ IF reexec[m] # "none" \/ mpid[m] # "none" \/ Child(m) = "none"
        \/ st[Child(m)] \notin {"none", "dead"} \/ Child(m) \in zombie
     THEN usr2Ignored' = TRUE /\ UNCHANGED <<st, reexec, mpid, holds, zombie, pidfile, sockfile, svars>>
     ELSE LET c == Child(m) IN
          /\ st' = [st EXCEPT ![c] = "booting"]
          /\ reexec' = [reexec EXCEPT ![m] = c]
          /\ mpid' = [mpid EXCEPT ![c] = m]
          /\ holds' = holds \cup {c}            \* descriptors are inherited through fork + exec
          /\ cause' = [cause EXCEPT ![c] = "none"]
          /\ UNCHANGED <<zombie, pidfile, sockfile, usr2Ignored, workers, wantServe, lastExit>>

(* the new master finishes Arbiter.start: pid file under ".2" *)
Boot(m) ==
  /\ st[m] = "booting"
  /\ st' = [st EXCEPT ![m] = "up"]
  /\ pidfile' = [pidfile EXCEPT !.two = m]
  /\ workers' = [workers EXCEPT ![m] = 1] /\ wantServe' = [wantServe EXCEPT ![m] = TRUE]
  /\ UNCHANGED <<reexec, mpid, holds, zombie, sockfile, nsig, usr2Ignored, cause, lastExit>>

(* the new master cannot boot (its application does not load: exit status 3 / 4) and exits by itself *)
BootFail(m) ==
  /\ st[m] = "booting"
  /\ st' = [st EXCEPT ![m] = "dead"] /\ cause' = [cause EXCEPT ![m] = "boot"] /\ lastExit' = m
  /\ holds' = holds \ {m}
  /\ zombie' = IF Parent(m) # "none" /\ Alive(Parent(m)) THEN zombie \cup {m} ELSE zombie
  /\ UNCHANGED <<reexec, mpid, pidfile, sockfile, nsig, usr2Ignored, workers, wantServe>>

(* WINCH: a daemonized master stops its workers (and keeps listening); otherwise ignored *)
Winch(m) ==
  /\ st[m] = "up" /\ nsig < MaxSignals /\ nsig' = nsig + 1
  /\ IF Daemon THEN workers' = [workers EXCEPT ![m] = 0] /\ wantServe' = [wantServe EXCEPT ![m] = FALSE]
     ELSE UNCHANGED <<workers, wantServe>>
  /\ UNCHANGED <<st, reexec, mpid, holds, zombie, pidfile, sockfile, usr2Ignored, cause, lastExit>>

(* HUP: reload; the master runs the configured number of workers again *)
(* deviation "HupForgetsUpgrade": the reload re-initialises the upgrade bookkeeping (reexec_pid := 0): the master no
   longer knows the master it started *)
Hup(m) ==
  /\ st[m] = "up" /\ nsig < MaxSignals /\ nsig' = nsig + 1
  /\ workers' = [workers EXCEPT ![m] = IF "HupKeepsScale" \in Dev THEN @ ELSE 1]
  /\ wantServe' = [wantServe EXCEPT ![m] = TRUE]
  /\ reexec' = [reexec EXCEPT ![m] = IF "HupForgetsUpgrade" \in Dev THEN "none" ELSE @]
  /\ UNCHANGED <<st, mpid, holds, zombie, pidfile, sockfile, usr2Ignored, cause, lastExit>>

(* a worker of m leaves (max_requests, a crash, a timeout) and manage_workers() starts another one: no operator signal.
   deviation "NoRespawnWhilePending": while the master it started is alive, m does not replace its workers *)
Turnover(m) ==
  /\ st[m] = "up" /\ workers[m] > 0
  /\ workers' = [workers EXCEPT ![m] = IF "NoRespawnWhilePending" \in Dev /\ reexec[m] # "none" THEN 0 ELSE @]
  /\ UNCHANGED <<st, reexec, mpid, holds, zombie, pidfile, sockfile, nsig, usr2Ignored, wantServe, cause, lastExit>>

(* operator sends TERM / QUIT to a master: stop() + halt() *)
Stop(m) ==
  /\ st[m] = "up" /\ nsig < MaxSignals /\ nsig' = nsig + 1
  \* the main loop calls maybe_promote_master() before it takes the next signal from its queue; the
  \* window "parent dies after that call, signal already queued" is the named deviation
  /\ (mpid[m] # "none" /\ ~Alive(mpid[m])) => "StopBeforePromote" \in Dev
  /\ LET unlink == reexec[m] = "none" /\ mpid[m] = "none"
     IN /\ sockfile' = (IF Unix /\ (unlink \/ "AlwaysUnlink" \in Dev) THEN FALSE ELSE sockfile)
        /\ holds' = holds \ {m}
  /\ pidfile' = [base |-> IF pidfile.base = m /\ mpid[m] = "none" THEN "none" ELSE pidfile.base,
                 two |-> IF pidfile.two = m /\ mpid[m] # "none" THEN "none" ELSE pidfile.two]
  /\ st' = [st EXCEPT ![m] = "dead"] /\ cause' = [cause EXCEPT ![m] = "op"] /\ lastExit' = m
  /\ workers' = [workers EXCEPT ![m] = 0]
  /\ zombie' = IF Parent(m) # "none" /\ Alive(Parent(m)) THEN zombie \cup {m} ELSE zombie
  /\ UNCHANGED <<reexec, mpid, usr2Ignored, wantServe>>

(* SIGCHLD handler of the parent master reaps the exec'ed child *)
Reap(m) ==
  /\ Alive(m) /\ Child(m) \in zombie /\ reexec[m] = Child(m)
  /\ reexec' = [reexec EXCEPT ![m] = IF "NoReexecReset" \in Dev THEN @ ELSE "none"]
  /\ zombie' = zombie \ {Child(m)}
  \* deviation: the exit status of the exec'ed master (3 / 4) is taken for a worker's boot failure: HaltServer
  /\ IF "ChildBootFailureHaltsParent" \in Dev /\ cause[Child(m)] = "boot"
     THEN /\ st' = [st EXCEPT ![m] = "dead"] /\ holds' = holds \ {m} /\ workers' = [workers EXCEPT ![m] = 0]
          /\ pidfile' = [pidfile EXCEPT !.base = IF @ = m THEN "none" ELSE @]
          /\ sockfile' = (IF Unix THEN FALSE ELSE sockfile)
          /\ lastExit' = m /\ UNCHANGED <<mpid, nsig, usr2Ignored, wantServe, cause>>
     ELSE UNCHANGED <<st, mpid, holds, pidfile, sockfile, nsig, usr2Ignored, svars>>

(* main loop of the child master: its parent is gone -> promoted; pid file renamed *)
Promote(m) ==
  /\ st[m] = "up" /\ mpid[m] # "none" /\ ~Alive(mpid[m])
  /\ mpid' = [mpid EXCEPT ![m] = "none"]
  /\ pidfile' = [base |-> m, two |-> IF pidfile.two = m THEN "none" ELSE pidfile.two]
  /\ UNCHANGED <<st, reexec, holds, zombie, sockfile, nsig, usr2Ignored, svars>>

Next == \E m \in M : USR2(m) \/ Boot(m) \/ BootFail(m) \/ Stop(m) \/ Reap(m) \/ Promote(m) \/ Winch(m) \/ Hup(m) \/ Turnover(m)
Spec == Init /\ [][Next]_vars /\ \A m \in M : WF_vars(Boot(m) \/ BootFail(m)) /\ WF_vars(Reap(m)) /\ WF_vars(Promote(m))

-----------------------------------------------------------------------------
AnyAlive == \E m \in M : Alive(m)
(* C14 *)
ListenRefcountPositive == AnyAlive => holds # {}
SocketFileUsable == (Unix /\ AnyAlive) => sockfile
(* (a new master that dies of its own boot failure does not know it is the last one: if the old one was stopped
   while it booted, the file stays behind - the code's behaviour, outside C14's "removed only when") *)
SocketFileRemovedAtLast == (Unix /\ ~AnyAlive /\ zombie = {} /\ (lastExit = "none" \/ cause[lastExit] # "boot")) => ~sockfile
(* while two generations live, the old one is under the configured name and the new one under ".2" *)
Pid2ThenRename ==
  \A m \in M : (st[m] = "up" /\ mpid[m] # "none" /\ Alive(mpid[m]) /\ st[mpid[m]] = "up" /\ mpid[mpid[m]] = "none")
                 => (pidfile.two = m /\ pidfile.base = mpid[m])
PromotedOwnsConfiguredName == <>[](\A m \in M : (st[m] = "up" /\ mpid[m] = "none") => pidfile.base = m)
(* a further USR2 while an upgrade is pending starts nothing *)
AtMostTwoGenerationsAlive == Cardinality({m \in M : Alive(m)}) <= 2
(* stopping the new master restores the single-master state: the old one can upgrade again later,
   and when it finally stops it removes the socket file *)
(* a master runs its workers unless the operator's last word to it was WINCH: in particular HUP after WINCH
   restores them, so a rollback finds the old master serving *)
ServesUnlessWinched == \A m \in M : (st[m] = "up" /\ wantServe[m]) => workers[m] > 0
(* a master only dies of a stop signal or of its own failure to boot: a failed upgrade leaves the old one running *)
DiesOnlyWhenToldTo == \A m \in M : st[m] = "dead" => cause[m] \in {"op", "boot"}
RollbackRestores == \A m \in M : (Alive(m) /\ Child(m) # "none" /\ st[Child(m)] = "dead" /\ Child(m) \notin zombie)
                                    => reexec[m] = "none"
=============================================================================
