--------------------------- MODULE ConcHeadTrace ---------------------------
(***************************************************************************)
(* Property monitor (P) for C09 on a REAL threaded server under concurrent *)
(* clients: "the head consists of exactly the server's own lines plus one  *)
(* line per accepted header" also holds for responses that are produced at *)
(* the same time by different handler threads.  Every request carries an   *)
(* id; the application's status reason and all its header names and values *)
(* carry that id.                                                          *)
(*  ev: {e:"resp", same: the status line carries the request's id,         *)
(*       foreign: header lines that carry another request's id,            *)
(*       missing: header lines of this response that are not in the head,  *)
(*       body_same: the body is this request's body}                       *)
(***************************************************************************)
EXTENDS Integers, Sequences, TLC, Json, IOUtils, TLCExt
Traces == ndJsonDeserialize(IOEnv.TRACE_FILE)
NT == Len(Traces)
VARIABLES tid, l, verdict
vars == <<tid, l, verdict>>
T == Traces[tid]
V(e) == IF ~e.same THEN "StatusLineOfAnotherResponse"
        ELSE IF e.foreign > 0 THEN "HeaderLinesOfAnotherResponse"
        ELSE IF e.missing > 0 THEN "AcceptedHeaderLineMissing"
        ELSE IF ~e.body_same THEN "BodyOfAnotherResponse"
        ELSE "ok"
Init == tid \in 1..NT /\ l = 1 /\ verdict = "ok"
Step == /\ verdict = "ok" /\ l <= Len(T.ev) /\ verdict' = V(T.ev[l]) /\ l' = l + 1 /\ UNCHANGED tid
Spec == Init /\ [][Step]_vars
Record == TLCSet(tid, <<verdict, l - 1>>)
Post == \A t \in 1..NT : PrintT(<<"VERDICT", t, TLCGet(t)>>)
=============================================================================
