----------------------------- MODULE TimeoutTrace -----------------------------
(***************************************************************************)
(* Property monitor (P) for C11 on real-process runs with --timeout T.     *)
(*  scenario "hang" (blocked application) | "stop" (SIGSTOP) |             *)
(*           "ignore" (blocks and ignores SIGABRT) | "healthy"             *)
(*  ev: {e:"gone", after_ms}: the hung worker's pid disappeared (or -1:    *)
(*        still there when the observation window closed)                  *)
(*      {e:"pool", nworkers, want}: pool size at the end                   *)
(*      {e:"others", ok, failed}: requests to the rest of the server while *)
(*        the worker hung                                                  *)
(*      {e:"healthy", killed: workers of the healthy pool that vanished}   *)
(* bound_ms = timeout + master period + escalation period + slack, chosen  *)
(* by the driver and recorded in the trace; min_ms = the earliest moment   *)
(* the kill may come (timeout after a known sign of life: the start of the *)
(* blocking request; 0 when the last heartbeat before a SIGSTOP is not     *)
(* known).                                                                 *)
(***************************************************************************)
EXTENDS Integers, Sequences, TLC, Json, IOUtils, TLCExt
Traces == ndJsonDeserialize(IOEnv.TRACE_FILE)
NT == Len(Traces)
VARIABLES tid, l, verdict
vars == <<tid, l, verdict>>
T == Traces[tid]
V(e) ==
  IF e.e = "gone" THEN
     (IF e.after_ms < 0 \/ e.after_ms > T.bound_ms THEN "HungWorkerNotKilledInTime"
      ELSE IF e.after_ms < T.min_ms THEN "KilledBeforeTimeout" ELSE "ok")
  ELSE IF e.e = "pool" THEN (IF e.nworkers # e.want THEN "HungWorkerNotReplaced" ELSE "ok")
  ELSE IF e.e = "others" THEN (IF e.failed > 0 THEN "RestOfServerStoppedServing" ELSE "ok")
  ELSE (IF e.killed > 0 THEN "HealthyWorkerKilled" ELSE "ok")
Init == tid \in 1..NT /\ l = 1 /\ verdict = "ok"
Step == /\ verdict = "ok" /\ l <= Len(T.ev) /\ verdict' = V(T.ev[l]) /\ l' = l + 1 /\ UNCHANGED tid
Spec == Init /\ [][Step]_vars
Record == TLCSet(tid, <<verdict, l - 1>>)
Post == \A t \in 1..NT : PrintT(<<"VERDICT", t, TLCGet(t)>>)
=============================================================================
