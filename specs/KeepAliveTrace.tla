--------------------------- MODULE KeepAliveTrace ---------------------------
(***************************************************************************)
(* Property monitor (P) and model follower for connections served by the   *)
(* REAL handle() of the three worker kinds from a scripted socket that     *)
(* also scripts the passing of the keep-alive time (the async timer fires  *)
(* inside next(parser); gthread's real murder_keepalived() runs).          *)
(*  trace: cls, script (KeepAlive.tla items), ev:                          *)
(*    <<"serve", n>>   the application was called with request number n    *)
(*                     (n = the item's position; 999: a request the client *)
(*                     never sent, made of the tail of an interrupted head)*)
(*    <<"term_app", 0>>  the stop request arrived while the application ran *)
(*    <<"term_wait", 0>> ... while the worker waited for the next item      *)
(*    <<"timer", 0>> <<"reap", 0>> <<"close", 0>> <<"escaped", 0>>          *)
(* Verdicts: a clause name (violation), "drift:..." (the run does not      *)
(* follow KeepAlive.tla), "ok".                                            *)
(***************************************************************************)
EXTENDS KeepAlive, Json, IOUtils, TLCExt
Traces == ndJsonDeserialize(IOEnv.TRACE_FILE)
NT == Len(Traces)
VARIABLES tid, l, verdict, nafter, stopped, lastn
tvars == <<tid, l, verdict, s, nafter, stopped, lastn>>
T == Traces[tid]

(* silent steps of the model up to the next observable one *)
RECURSIVE Ready(_, _)
Ready(x, fuel) ==
  IF fuel = 0 THEN x
  ELSE IF x.pc = "app" THEN Ready(AppDone(x), fuel - 1)
  ELSE IF x.pc = "parked" /\ Item(x) # "pause" THEN Ready(Dispatch(x), fuel - 1)
  ELSE IF x.pc = "wait" /\ ~(x.cls = "async" /\ Item(x) \in {"pause", "slowreq"}) THEN Ready(Recv(x), fuel - 1)
  ELSE x
Fuel == 3 * (Len(T.script) + 2)

TInit == /\ tid \in 1..NT /\ l = 1 /\ verdict = "ok" /\ nafter = 0 /\ stopped = FALSE /\ lastn = 0
         /\ s = S0(Traces[tid].cls, Traces[tid].script)
TStep ==
  /\ verdict = "ok" /\ l <= Len(T.ev) + 1
  /\ l' = l + 1 /\ UNCHANGED tid
  /\ IF l = Len(T.ev) + 1
     THEN \* end of the run: the connection must have been closed
          /\ verdict' = (IF Len(T.ev) = 0 \/ T.ev[Len(T.ev)][1] \notin {"close", "escaped"} THEN "ConnectionLeftOpen"
                          ELSE IF s.pc # "closed" THEN "drift:model-not-closed-at-end" ELSE "ok")
          /\ UNCHANGED <<s, nafter, stopped, lastn>>
     ELSE LET e == T.ev[l]  k == e[1]  n == e[2]  y == Ready(s, Fuel) IN
       CASE k = "escaped" -> verdict' = "ExceptionEscapedHandle" /\ UNCHANGED <<s, nafter, stopped, lastn>>
         [] k = "serve" ->
              /\ nafter' = nafter + (IF stopped THEN 1 ELSE 0) /\ lastn' = n /\ UNCHANGED stopped
              /\ IF n \notin 1..Len(T.script) \/ T.script[IF n \in 1..Len(T.script) THEN n ELSE 1] \notin Requests \/ n <= lastn
                 THEN verdict' = "PhantomRequest" /\ UNCHANGED s
                 ELSE IF stopped /\ nafter >= 1 THEN verdict' = "ServedAfterStop" /\ UNCHANGED s
                 ELSE IF y.pc = "handle" /\ y.cur = n THEN verdict' = "ok" /\ s' = Handle(y)
                 ELSE verdict' = "drift:serve" /\ UNCHANGED s
         [] k = "term_app" ->
              /\ stopped' = TRUE /\ UNCHANGED <<nafter, lastn>>
              /\ IF s.pc = "app" THEN verdict' = "ok" /\ s' = [s EXCEPT !.alive = FALSE]
                 ELSE verdict' = "drift:term_app" /\ UNCHANGED s
         [] k = "term_wait" ->
              /\ stopped' = TRUE /\ UNCHANGED <<nafter, lastn>>
              /\ LET z == IF s.pc = "app" THEN AppDone(s) ELSE s IN
                 IF z.pc = "closed" THEN verdict' = "drift:term_wait" /\ UNCHANGED s
                 ELSE verdict' = "ok" /\ s' = [z EXCEPT !.alive = FALSE]
         [] k = "timer" ->
              /\ UNCHANGED <<nafter, stopped, lastn>>
              /\ IF y.cls = "async" /\ y.pc = "wait" /\ Item(y) \in {"pause", "slowreq"}
                 THEN verdict' = "ok" /\ s' = Recv(y)
                 ELSE verdict' = "drift:timer" /\ UNCHANGED s
         [] k = "reap" ->
              /\ UNCHANGED <<nafter, stopped, lastn>>
              /\ IF y.pc = "parked" /\ Item(y) = "pause" THEN verdict' = "ok" /\ s' = Reap(y)
                 ELSE verdict' = "drift:reap" /\ UNCHANGED s
         [] OTHER -> \* "close"
              /\ UNCHANGED <<nafter, stopped, lastn>>
              /\ IF y.pc = "closed" THEN verdict' = "ok" /\ s' = y
                 ELSE verdict' = "drift:close" /\ UNCHANGED s
TSpec == TInit /\ [][TStep]_tvars
Record == TLCSet(tid, <<verdict, l - 1>>)
Post == \A t \in 1..NT : PrintT(<<"VERDICT", t, TLCGet(t)>>)
=============================================================================
