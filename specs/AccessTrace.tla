----------------------------- MODULE AccessTrace -----------------------------
(***************************************************************************)
(* Property monitor (P) for C19: access records captured from the real     *)
(* gunicorn.access logger against what the client received.                *)
(*  kind      "completed" (application call completed, client stayed),     *)
(*            "rejected" (the server refused the request itself), "other"  *)
(*  nrec      records produced for this request                            *)
(*  status, bytes   as logged (-1 if unparsable); wstatus, wbody as read   *)
(*            from the wire by the strict response reader                  *)
(*  maxlines  largest number of lines any record of this request spans     *)
(***************************************************************************)
EXTENDS Integers, Sequences, TLC, Json, IOUtils, TLCExt
Traces == ndJsonDeserialize(IOEnv.TRACE_FILE)
NT == Len(Traces)
VARIABLES tid, l, verdict
vars == <<tid, l, verdict>>
T == Traces[tid]
V(e) ==
  IF e.maxlines > 1 THEN "RecordSpansSeveralLines"
  ELSE IF e.kind = "completed" /\ e.nrec # 1 THEN "NotExactlyOneRecord"
  ELSE IF e.kind = "completed" /\ e.status # e.wstatus THEN "RecordStatusNotWhatClientReceived"
  ELSE IF e.kind = "completed" /\ e.bytes # e.wbody THEN "RecordBytesNotWhatWasSent"
  ELSE IF e.kind = "rejected" /\ e.nrec > 1 THEN "RejectedRequestLoggedTwice"
  ELSE "ok"
Init == tid \in 1..NT /\ l = 1 /\ verdict = "ok"
Step == /\ verdict = "ok" /\ l <= Len(T.ev) /\ verdict' = V(T.ev[l]) /\ l' = l + 1 /\ UNCHANGED tid
Spec == Init /\ [][Step]_vars
Record == TLCSet(tid, <<verdict, l - 1>>)
Post == \A t \in 1..NT : PrintT(<<"VERDICT", t, TLCGet(t)>>)
=============================================================================
