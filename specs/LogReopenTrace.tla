--------------------------- MODULE LogReopenTrace ---------------------------
(***************************************************************************)
(* C19 under log rotation, on the REAL Logger.access() / reopen_files()    *)
(* with a FileHandler on gunicorn.access:                                  *)
(*  mode "thread": one record; at one source-line boundary of the emitting *)
(*     path the file is renamed away and reopen_files() called from        *)
(*     ANOTHER thread (threads are pre-empted anywhere);                   *)
(*       pc : "before" | "locked" | "checked" | "fetched" | "written" |    *)
(*            "flushed" | "after"      emitter position (LogReopen.tla)    *)
(*       nold, nnew : records in the renamed / the new file afterwards     *)
(*  mode "signal": n records written by the main thread while another      *)
(*     PROCESS sends SIGUSR1 at random instants; the handler renames the   *)
(*     file away and calls reopen_files() wherever this interpreter runs   *)
(*     signal handlers; total = records found in all files                 *)
(* (P) NotExactlyOneRecord: nold + nnew # 1, resp. total # n.              *)
(* (C) thread mode: the placement LogReopen.tla predicts; drift otherwise. *)
(***************************************************************************)
EXTENDS LogReopen, Json, IOUtils, TLCExt

Traces == ndJsonDeserialize(IOEnv.TRACE_FILE)
NT == Len(Traces)
VARIABLES tid, l, verdict, cv
tvars == <<tid, l, verdict, cv>>
T == Traces[tid]

RECURSIVE RunTo(_, _)
RunTo(x, pc) == IF x.epc = pc THEN x ELSE RunTo(EStep(x), pc)
RECURSIVE Finish(_)
Finish(x) == IF x.emitted = 1 THEN x ELSE Finish(EStep(x))
Whole == Finish(EStep(S0))

Predicted(e) ==
  IF e.pc = "before" THEN Finish(ReopenBody(Rotate(S0)))
  ELSE IF e.pc = "after" THEN ReopenBody(Rotate(Whole))
  ELSE ReopenBody(Rotate(Whole))          \* the lock makes the other thread wait for the end of the record

PV(e) == IF e.mode = "signal" THEN (IF e.total # e.n THEN "NotExactlyOneRecord" ELSE "ok")
         ELSE IF e.nold + e.nnew # 1 THEN "NotExactlyOneRecord" ELSE "ok"
(* "before": the other thread may be held up by logging's module lock, either file is a faithful outcome *)
CV(e) == IF e.mode = "signal" \/ e.pc = "before" THEN "ok"
         ELSE LET p == Predicted(e) IN
              IF p.landed[1] # e.nold \/ p.landed[2] # e.nnew THEN "drift:placement" ELSE "ok"

TInit == s = S0 /\ tid \in 1..NT /\ l = 1 /\ verdict = "ok" /\ cv = "ok"
TStep == /\ verdict = "ok" /\ l <= Len(T.ev)
         /\ verdict' = PV(T.ev[l])
         /\ cv' = IF cv # "ok" THEN cv ELSE CV(T.ev[l])
         /\ l' = l + 1 /\ UNCHANGED <<tid, s>>
TSpec == TInit /\ [][TStep]_<<s, tvars>>
Record == TLCSet(tid, IF verdict # "ok" THEN <<verdict, l - 1>> ELSE IF cv # "ok" THEN <<cv, l - 1>> ELSE <<"ok", l - 1>>)
Post == \A t \in 1..NT : PrintT(<<"VERDICT", t, TLCGet(t)>>)
=============================================================================
