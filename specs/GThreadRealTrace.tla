------------------------- MODULE GThreadRealTrace -------------------------
(***************************************************************************)
(* Property monitor (P) for C13 on REAL gthread processes (real sockets,   *)
(* real clock): what the virtual-time runs of GThreadTrace cannot show --  *)
(* requests that arrive in several TCP segments on fresh and on kept-alive *)
(* connections, and the keep-alive time on the wall clock.                 *)
(*  cfg: threads, ka_ms (keep-alive), slack_ms                             *)
(*  ev: {e:"req", c, nseg: segments the request was sent in, nth: 1.. the  *)
(*        request's number on its connection, inflight: slow requests the  *)
(*        driver had in flight on OTHER connections when it sent it,       *)
(*        answered: a complete 200 response came back}                     *)
(*      {e:"idle", c, after_ms: time from the last response to the         *)
(*        server's close (-1: not closed when the window ended)}           *)
(***************************************************************************)
EXTENDS Integers, Sequences, TLC, Json, IOUtils, TLCExt
Traces == ndJsonDeserialize(IOEnv.TRACE_FILE)
NT == Len(Traces)
VARIABLES tid, l, verdict
vars == <<tid, l, verdict>>
T == Traces[tid]
\* main loop period 1 s: murder_keepalived runs at least once a second
Period == 1000
V(e) ==
  IF e.e = "req" THEN
     (IF ~e.answered /\ e.inflight < T.threads THEN "ServedIfThreadFree" ELSE "ok")
  ELSE (IF e.after_ms >= 0 /\ e.after_ms < T.ka_ms - 100 THEN "KeepAliveNotBefore"
        ELSE IF e.after_ms < 0 \/ e.after_ms > T.ka_ms + Period + T.slack_ms THEN "KeepAliveNotMuchAfter"
        ELSE "ok")
Init == tid \in 1..NT /\ l = 1 /\ verdict = "ok"
Step == /\ verdict = "ok" /\ l <= Len(T.ev) /\ verdict' = V(T.ev[l]) /\ l' = l + 1 /\ UNCHANGED tid
Spec == Init /\ [][Step]_vars
Record == TLCSet(tid, <<verdict, l - 1>>)
Post == \A t \in 1..NT : PrintT(<<"VERDICT", t, TLCGet(t)>>)
=============================================================================
