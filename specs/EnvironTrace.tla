---------------------------- MODULE EnvironTrace ----------------------------
(* Judges the environ the application received from the real code against Environ.tla.
   obs.path / obs.query are the observed PATH_INFO / QUERY_STRING abstracted to byte tokens /
   target symbols by the driver; obs.vars = [[name id, [value ids]] ...] for the HTTP_* variables. *)
EXTENDS Environ, Json, IOUtils, TLCExt
Traces == ndJsonDeserialize(IOEnv.TRACE_FILE)
NT == Len(Traces)
VARIABLES tid, l, verdict
tvars == <<tid, l, verdict, tgt>>
T == Traces[tid]
Names == {T.hdrs[i][1] : i \in DOMAIN T.hdrs}
VarOf(n) == LET I == {i \in DOMAIN T.obs.vars : T.obs.vars[i][1] = n} IN
            IF I = {} THEN <<>> ELSE T.obs.vars[CHOOSE i \in I : TRUE][2]
Verdict ==
  IF ~T.obs.raw_ok THEN "RawUriNotAsSent"
  ELSE IF ~T.obs.method_ok THEN "RequestMethodWrong"
  ELSE IF ~T.obs.proto_ok THEN "ServerProtocolWrong"
  ELSE IF T.obs.script # ScriptLen(T.form) THEN "ScriptNameNotAsConfigured"
  ELSE IF T.obs.path # ExpectedPath(T.form, T.t) THEN "PathInfoNotDecodedPath"
  ELSE IF T.obs.query # ExpectedQuery(T.form, T.t) THEN "QueryStringNotAsSent"
  ELSE IF \E n \in Names : VarOf(n) # ExpectedVar(T.hdrs, n) THEN "HeaderVariableWrong"
  ELSE IF T.obs.invented > 0 THEN "VariableForFieldNotSent"
  ELSE IF ~T.obs.ct_ok THEN "ContentTypeOrLengthWrong"
  ELSE "ok"
TInit == tid \in 1..NT /\ l = 1 /\ verdict = "ok" /\ tgt = [form |-> "star", t |-> <<>>]
TStep == verdict = "ok" /\ l = 1 /\ l' = 2 /\ verdict' = Verdict /\ UNCHANGED <<tid, tgt>>
TSpec == TInit /\ [][TStep]_tvars
Record == TLCSet(tid, <<verdict, l - 1>>)
Post == \A t \in 1..NT : PrintT(<<"VERDICT", t, TLCGet(t)>>)
=============================================================================
