------------------------------- MODULE Recycle -------------------------------
(***************************************************************************)
(* max_requests: one worker process of a given family serving a stream of  *)
(* client connections, its request counter, and the moment it leaves its   *)
(* loop; the master replaces it.  Families:                                *)
(*  sync    accept -> handle one request -> close, strictly sequential;    *)
(*          run_for_one re-checks alive before every accept                *)
(*  gthread accept loop + pool of T handler threads; keep-alive            *)
(*  async   one greenlet per connection; a 1-second supervisor loop        *)
(*          notices alive = FALSE and only then closes the listener        *)
(* Dev (current tree): "AsyncAcceptsUntilPoll": the async accept loop      *)
(* keeps accepting until the supervisor's next wake-up;                    *)
(* "GthreadDropsUndispatched": connections accepted (registered in the     *)
(* poller) but not yet dispatched when the loop exits are abandoned.       *)
(* Keep-alive (gthread, async): a client may send up to Reqs requests on   *)
(* one connection; between two of them the connection is "parked" in the   *)
(* worker.  Once the limit is reached every response says Connection:      *)
(* close, so a parked connection gets at most one more request answered    *)
(* (it was in the worker already); deviation "KeepAliveAfterLimit": the    *)
(* close is only put on the response that reached the limit.               *)
(***************************************************************************)
EXTENDS Naturals, Sequences, FiniteSets, TLC

CONSTANTS Family, Max, Conns, Threads, Dev, Reqs
\* Max = 0: max_requests unset.  Conns: set of client connections, each sends up to Reqs requests.

VARIABLES nr, alive, st, exited, pollPending, replaced,
          left,      \* left[c]: requests the client still wants to send on c
          after,     \* history: requests started after the limit was reached
          openAt     \* history: connections this worker held (accepted / running / parked) when it reached the limit
vars == <<nr, alive, st, exited, pollPending, replaced, left, after, openAt>>
hvars == <<left, after, openAt>>
\* st[c]: "waiting" (in the listen backlog) | "accepted" (request not yet dispatched) | "running" |
\*        "parked" (kept alive between two requests) | "answered" (closed after its last answer) |
\*        "dropped" (accepted by this worker, closed without an answer) | "next" (left for the next worker)

Init == /\ nr = 0 /\ alive = TRUE /\ st = [c \in Conns |-> "waiting"] /\ exited = FALSE
        /\ pollPending = FALSE /\ replaced = FALSE
        /\ left = [c \in Conns |-> Reqs] /\ after = 0 /\ openAt = 0

Running == {c \in Conns : st[c] = "running"}
Capacity == IF Family = "sync" THEN 1 ELSE Threads

(* the listener is still being served by this worker *)
Accepting ==
  /\ ~exited
  /\ \/ alive
     \/ (Family = "async" /\ "AsyncAcceptsUntilPoll" \in Dev /\ pollPending)

Accept(c) ==
  /\ st[c] = "waiting" /\ Accepting
  /\ Family = "sync" => Running = {} /\ \A d \in Conns : st[d] # "accepted"
  /\ st' = [st EXCEPT ![c] = "accepted"]
  /\ UNCHANGED <<nr, alive, exited, pollPending, replaced, hvars>>

(* the client sends its next request on a parked connection: the worker that holds it reads it *)
Again(c) ==
  /\ st[c] = "parked" /\ ~exited
  /\ st' = [st EXCEPT ![c] = "accepted"]
  /\ UNCHANGED <<nr, alive, exited, pollPending, replaced, hvars>>

(* handle_request: the counter is incremented when the request starts *)
Start(c) ==
  /\ st[c] = "accepted" /\ ~exited /\ Cardinality(Running) < Capacity
  /\ (Family = "gthread" => alive \/ "GthreadDropsUndispatched" \notin Dev)
  /\ nr' = nr + 1
  /\ alive' = (alive /\ ~(Max > 0 /\ nr + 1 >= Max))
  /\ pollPending' = (pollPending \/ (alive /\ ~alive'))
  /\ st' = [st EXCEPT ![c] = "running"]
  /\ after' = (IF ~alive THEN after + 1 ELSE after)
  /\ openAt' = (IF alive /\ ~alive' THEN Cardinality({d \in Conns \ {c} : st[d] \in {"accepted", "running", "parked"}}) ELSE openAt)
  /\ UNCHANGED <<exited, replaced, left>>

KeepsAlive == Family # "sync" /\ (alive \/ "KeepAliveAfterLimit" \in Dev)
Finish(c) ==
  /\ st[c] = "running"
  /\ left' = [left EXCEPT ![c] = @ - 1]
  /\ st' = [st EXCEPT ![c] = IF left[c] > 1 /\ KeepsAlive THEN "parked" ELSE "answered"]
  /\ UNCHANGED <<nr, alive, exited, pollPending, replaced, after, openAt>>

(* async supervisor wakes up (at most 1 s later) *)
Poll == /\ pollPending /\ pollPending' = FALSE /\ UNCHANGED <<nr, alive, st, exited, replaced, hvars>>

(* the worker leaves its loop: in-flight requests are finished first (graceful); what was accepted *)
(* but not dispatched is served (design) or abandoned (gthread deviation)                          *)
Exit ==
  /\ ~alive /\ ~exited /\ Running = {}
  /\ (Family = "async" => ~pollPending)
  /\ IF Family = "gthread" /\ "GthreadDropsUndispatched" \in Dev
     THEN st' = [c \in Conns |-> IF st[c] = "accepted" THEN "dropped" ELSE IF st[c] = "parked" THEN "answered" ELSE st[c]]
     ELSE /\ \A c \in Conns : st[c] # "accepted"
          \* idle keep-alive connections are closed: the client's further requests go to another worker
          /\ st' = [c \in Conns |-> IF st[c] = "parked" THEN "answered" ELSE st[c]]
  /\ exited' = TRUE /\ UNCHANGED <<nr, alive, pollPending, replaced, hvars>>

(* the master reaps it and forks a replacement, which serves what is still waiting *)
Replace ==
  /\ exited /\ ~replaced /\ replaced' = TRUE
  /\ st' = [c \in Conns |-> IF st[c] = "waiting" THEN "next" ELSE st[c]]
  /\ UNCHANGED <<nr, alive, exited, pollPending, hvars>>

Next == (\E c \in Conns : Accept(c) \/ Again(c) \/ Start(c) \/ Finish(c)) \/ Poll \/ Exit \/ Replace
Spec == /\ Init /\ [][Next]_vars
        /\ \A c \in Conns : WF_vars(Accept(c)) /\ WF_vars(Again(c)) /\ WF_vars(Start(c)) /\ WF_vars(Finish(c))
        /\ WF_vars(Poll) /\ WF_vars(Exit) /\ WF_vars(Replace)

-----------------------------------------------------------------------------
(* C18 *)
StopsAcceptingAfterLimit ==
  \* once the limit is reached no further connection is accepted (those accepted before are served)
  [][(\E c \in Conns : st[c] = "waiting" /\ st'[c] = "accepted") => alive]_vars
CountBounded == (Family = "sync" /\ Max > 0) => nr <= Max
(* after the limit only what the worker already held is still served: at most one request per such connection *)
WorkAfterLimitBounded == (Max > 0) => after <= openAt
NoClientVisibleDrop == \A c \in Conns : st[c] # "dropped"
LimitAndInflightAnswered == [](exited => \A c \in Conns : st[c] \notin {"running", "accepted"})
ExitsAndReplaced == (Max > 0 /\ Cardinality(Conns) >= Max) => <>replaced
NeverRecycledWhenUnset == (Max = 0) => [](alive /\ ~exited)
EverybodyServed == <>(\A c \in Conns : st[c] \in {"answered", "next"})
=============================================================================
