SPECIFICATION TSpec
CONSTANTS
  Atomic = FALSE
  MaxOps = 1000
  MaxCrash = 1000
  Dev = {}
  OwnStale = TRUE
  HistMode = "none"
  CrashIn = "any"
CONSTRAINT Record
POSTCONDITION Post
CHECK_DEADLOCK FALSE
