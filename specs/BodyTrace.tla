------------------------------ MODULE BodyTrace ------------------------------
(***************************************************************************)
(* Property monitor (P) for C07 on call sequences recorded from the real   *)
(* req.body (wsgi.input) of gunicorn.  Real-scale bodies are abstracted    *)
(* arithmetically: blen = body length, nls = sorted 0-based offsets of LF  *)
(* bytes.  Each call event carries the returned length, and contig = the   *)
(* returned bytes are exactly body[pos : pos+len] at the running position  *)
(* (checked bytewise by the driver, bodies have position-dependent         *)
(* content).  Reference semantics: io.BytesIO (PEP 3333 lets readlines     *)
(* ignore its hint).  n = -1 stands for None / negative.                   *)
(***************************************************************************)
EXTENDS Integers, Sequences, FiniteSets, TLC, Json, IOUtils, TLCExt

Traces == ndJsonDeserialize(IOEnv.TRACE_FILE)
NT == Len(Traces)
VARIABLES tid, l, pos, verdict
vars == <<tid, l, pos, verdict>>
T == Traces[tid]

Min(a, b) == IF a < b THEN a ELSE b
NLs == {T.nls[i] : i \in DOMAIN T.nls}
(* end (exclusive) of the line that starts at p *)
LineEnd(p) == LET I == {o \in NLs : o >= p} IN
              IF I = {} THEN T.blen ELSE (CHOOSE o \in I : \A q \in I : o <= q) + 1
Lim(k, n) == IF n < 0 THEN k ELSE Min(k, n)

RECURSIVE LinesOk(_, _, _, _)
(* lens: returned line lengths; p: position; tot: bytes so far; hint *)
LinesOk(lens, p, tot, hint) ==
  IF lens = <<>> THEN p = T.blen \/ (hint > 0 /\ tot >= hint)
  ELSE /\ p < T.blen
       /\ Head(lens) = LineEnd(p) - p
       /\ LinesOk(Tail(lens), p + Head(lens), tot + Head(lens), hint)

CallVerdict(e) ==
  IF ~e.contig THEN "NotConsecutivePiece"
  ELSE IF e.op = "read" THEN (IF e.len = Lim(T.blen - pos, e.n) THEN "ok" ELSE "ReadLength")
  ELSE IF e.op = "readline" THEN (IF e.len = Lim(LineEnd(pos) - pos, e.n) THEN "ok" ELSE "ReadlineLength")
  ELSE IF e.op = "next" THEN (IF e.len = LineEnd(pos) - pos THEN "ok" ELSE "IterLength")
  ELSE IF e.op = "readlines" THEN (IF LinesOk(e.lines, pos, 0, e.n) THEN "ok" ELSE "ReadlinesLines")
  ELSE "UnknownOp"

StopVerdict(e) ==
  IF e.next_start # e.expect_next THEN "NextRequestMisplaced" ELSE "ok"

Init == tid \in 1..NT /\ l = 1 /\ pos = 0 /\ verdict = "ok"
Step ==
  /\ verdict = "ok" /\ l <= Len(T.ev)
  /\ LET e == T.ev[l] IN
     IF e.e = "call"
     THEN /\ verdict' = (IF pos + e.len > T.blen THEN "ReadPastBody" ELSE CallVerdict(e))
          /\ pos' = pos + e.len
     ELSE verdict' = StopVerdict(e) /\ UNCHANGED pos
  /\ l' = l + 1 /\ UNCHANGED tid
Spec == Init /\ [][Step]_vars
Record == TLCSet(tid, <<verdict, l - 1>>)
Post == \A t \in 1..NT : PrintT(<<"VERDICT", t, TLCGet(t)>>)
=============================================================================
