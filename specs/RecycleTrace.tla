----------------------------- MODULE RecycleTrace -----------------------------
(***************************************************************************)
(* Property monitor (P) for C18 on real-process runs (and in-process       *)
(* worker-loop runs): a client sends requests to a gunicorn started with   *)
(* max_requests = max (0: unset) and max_requests_jitter = jit; every      *)
(* response names the serving process.                                     *)
(*   allow: how many requests beyond max + jit one process may still serve *)
(*          (requests already in flight: 0 for a sequential client)        *)
(*   ev: {e:"resp", ok, pid} one per request, in order of completion       *)
(*       {e:"end", alive: [pids alive after the quiescent tail],           *)
(*        initial: [pids of the first generation]}                         *)
(* pids are renumbered 1..n by the driver.                                 *)
(***************************************************************************)
EXTENDS Integers, Sequences, FiniteSets, TLC, Json, IOUtils, TLCExt
Traces == ndJsonDeserialize(IOEnv.TRACE_FILE)
NT == Len(Traces)
VARIABLES tid, l, cnt, verdict
vars == <<tid, l, cnt, verdict>>
T == Traces[tid]
Pids == 1..T.npids
ToSet(s) == {s[i] : i \in DOMAIN s}

RespVerdict(e) ==
  IF ~e.ok THEN "RequestDroppedOrRefused"
  ELSE IF T.max > 0 /\ cnt[e.pid] + 1 > T.max + T.jit + T.allow THEN "ServedBeyondLimit"
  ELSE IF T.max = 0 /\ e.pid \notin ToSet(T.initial) THEN "RecycledAlthoughUnset"
  ELSE "ok"

EndVerdict(e) ==
  IF T.max > 0 /\ \E p \in Pids : cnt[p] >= T.max + T.jit /\ p \in ToSet(e.alive) THEN "LimitReachedButStillRunning"
  ELSE IF T.max > 0 /\ Cardinality(ToSet(e.alive)) # T.workers THEN "NotReplaced"
  ELSE IF T.max = 0 /\ ToSet(e.alive) # ToSet(T.initial) THEN "RecycledAlthoughUnset"
  ELSE "ok"

Init == tid \in 1..NT /\ l = 1 /\ cnt = [p \in 1..64 |-> 0] /\ verdict = "ok"
Step ==
  /\ verdict = "ok" /\ l <= Len(T.ev)
  /\ LET e == T.ev[l] IN
     IF e.e = "resp"
     THEN /\ verdict' = RespVerdict(e)
          /\ cnt' = (IF e.ok THEN [cnt EXCEPT ![e.pid] = @ + 1] ELSE cnt)
     ELSE verdict' = EndVerdict(e) /\ UNCHANGED cnt
  /\ l' = l + 1 /\ UNCHANGED tid
Spec == Init /\ [][Step]_vars
Record == TLCSet(tid, <<verdict, l - 1>>)
Post == \A t \in 1..NT : PrintT(<<"VERDICT", t, TLCGet(t)>>)
=============================================================================
