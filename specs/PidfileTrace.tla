---------------------------- MODULE PidfileTrace ----------------------------
(***************************************************************************)
(* Trace validation for C17 on histories recorded from the real            *)
(* gunicorn.pidfile.Pidfile (harness/drivers/pidfile.py).                  *)
(*                                                                         *)
(* One trace = one history; one event per system call of the real code     *)
(* (mapped to the step names of Pidfile.tla by the driver) plus start /    *)
(* crash / foreign / die events:                                           *)
(*   [e, i, k, from, to, s, fin, rt, x, c,                                 *)
(*    pre  : [p, q]              contents just before this call,           *)
(*    mid  : [p, q]              contents right after it returned,         *)
(*    st   : [p, q, l, al, fn, mp] projection just after it,               *)
(*    opre : [p, q], al0         contents / alive set when the operation   *)
(*                               started]                                  *)
(*                                                                         *)
(* Two judgements per event:                                               *)
(*  (P) verdict: the clauses of C17 and nothing else, evaluated on the     *)
(*      observed contents only (stateless: any implementation that keeps   *)
(*      the property passes, whatever system calls it uses);               *)
(*  (C) cv: the event is the next step of Pidfile.tla and the projected    *)
(*      state agrees (code -> spec conformance; a mismatch is drift and    *)
(*      freezes the model, (P) goes on).                                   *)
(* Register tid holds <<verdict, step>>: the (P) clause if one failed,     *)
(* else "drift:<what>" if (C) failed, else "ok".                           *)
(***************************************************************************)
EXTENDS Pidfile, Json, IOUtils, TLCExt

Traces == ndJsonDeserialize(IOEnv.TRACE_FILE)
NT == Len(Traces)

VARIABLES tid, l, verdict, cv, cstep
tvars == <<tid, l, verdict, cv, cstep>>
allvars == <<vars, tvars>>

T == Traces[tid]
Range(s) == {s[j] : j \in DOMAIN s}

TInit == Init /\ tid \in 1..NT /\ l = 1 /\ verdict = "ok" /\ cv = "ok" /\ cstep = 0

(* ------------------------------- (P) ---------------------------------- *)
Live(c, me, al) == Names(c) # 0 /\ Names(c) # me /\ Names(c) \in al
DeadPid(c, al) == Names(c) # 0 /\ Names(c) \notin al
Get(r, x) == IF x = "p" THEN r.p ELSE r.q

(* clauses about one observed instant s (contents of the two names) against the contents pre  *)
(* just before the call: s ranges over the instant right after the call returned (mid) and the *)
(* instant just before the next call / the end of the operation (st).                          *)
Instant(e, s) ==
  LET me == e.i
      al == Range(e.st.al)                 \* processes alive at this instant
      createlike == e.k \in {"create", "rename", "reload"}
  IN
  IF \E x \in Paths : Live(Get(e.pre, x), me, al) /\ Get(s, x) # Get(e.pre, x)
  THEN (IF createlike /\ e.s \notin {"uopen", "uunlink"} THEN "RefusesLiveForeign" ELSE "NeverDeletesForeign")
  ELSE IF \E x \in Paths : Get(s, x) \notin {Get(e.pre, x), 0, me}
  THEN "NeverPartialContent"
  ELSE IF e.k = "unlink" /\ \E x \in Paths : Get(e.pre, x) # 0 /\ Get(s, x) = 0 /\ Get(e.pre, x) # me
  THEN "UnlinkOnlyOwn"
  ELSE IF e.k \in {"rename", "reload"} /\ e.from # e.to
          /\ Get(s, e.from) # Get(e.pre, e.from) /\ Get(e.pre, e.from) # me
  THEN "RenameOnlyOwn"
  ELSE "ok"

PVerdict(e) ==
  LET me == e.i
      al0 == Range(e.al0)
      tgt == IF e.k \in {"rename", "reload"} THEN e.to ELSE e.from
      createlike == e.k \in {"create", "rename", "reload"}
  IN
  IF e.e \notin {"sys", "crash"} THEN "ok"
  ELSE IF Instant(e, e.mid) # "ok" THEN Instant(e, e.mid)
  ELSE IF Instant(e, e.st) # "ok" THEN Instant(e, e.st)
  ELSE IF e.fin = "ok" /\ createlike /\ Live(Get(e.opre, tgt), me, al0)
       THEN "RefusesLiveForeign"
  ELSE IF e.fin \notin {"", "ok", "crash"} /\ createlike /\ DeadPid(Get(e.opre, tgt), al0)
       THEN "TakesOverStale"
  ELSE IF e.fin = "ok" /\ createlike /\ DeadPid(Get(e.opre, tgt), al0) /\ Get(e.st, tgt) # me
       THEN "TakesOverStale"
  ELSE IF e.fin = "ok" /\ e.k \in {"rename", "reload"} /\ e.from # e.to
          /\ Get(e.opre, e.from) = me /\ Get(e.st, e.from) = me
       THEN "RenameMoves"
  ELSE "ok"

(* ------------------------------- (C) ---------------------------------- *)
(* the projection of the NEXT model state agrees with what the event recorded *)
ProjAgreesNext(e) ==
  /\ file'["p"] = e.st.p /\ file'["q"] = e.st.q /\ Extra' = e.st.l
  /\ alive' = Range(e.st.al)
  /\ <<fname'[1], fname'[2]>> = e.st.fn /\ <<mpid'[1], mpid'[2]>> = e.st.mp

Frozen == UNCHANGED vars
After(e, what) == /\ cv' = IF ProjAgreesNext(e) THEN "ok" ELSE "drift:" \o what
                  /\ cstep' = l
Drift(what) == Frozen /\ cv' = "drift:" \o what /\ cstep' = l

(* explicit enabling conditions (ENABLED is avoided: TLC evaluates it in a context without tid) *)
CanStart(i, k, to) ==
  /\ i \in Inst /\ pc[i] = "idle"
  /\ (IF stat[i] = "failed" THEN k = "unlink" ELSE TRUE)
  /\ (IF k = "rename" THEN stat[i] = "held" ELSE TRUE)
  /\ (IF k \in {"rename", "reload"} THEN to \in Paths ELSE to = fname[i])
  /\ k \in {"create", "unlink", "validate", "rename", "reload"}
CanCrash(i) == i \in Inst /\ pc[i] \in CrashPcs
CanDie(p) == p \in alive /\ (IF p \in Inst THEN pc[p] = "idle" ELSE TRUE)

Model(e) ==
  IF cv # "ok" THEN Frozen /\ UNCHANGED <<cv, cstep>>
  ELSE IF e.e = "start"
  THEN IF CanStart(e.i, e.k, e.to) THEN Start(e.i, e.k, e.to) /\ After(e, "start-state")
       ELSE Drift("start-not-enabled")
  ELSE IF e.e = "sys"
  THEN IF pc[e.i] = e.s
       THEN /\ SysStep(e.i)
            /\ cv' = IF ~ProjAgreesNext(e) THEN "drift:state-after-" \o e.s
                     ELSE IF last'.fin # e.fin THEN "drift:result-" \o e.s \o "-" \o e.fin
                     ELSE IF last'.rt # e.rt THEN "drift:return-" \o e.s
                     ELSE "ok"
            /\ cstep' = l
       ELSE Drift("call-" \o e.s \o "-at-" \o pc[e.i])
  ELSE IF e.e = "crash"
  THEN IF CanCrash(e.i) THEN Crash(e.i) /\ After(e, "crash-state") ELSE Drift("crash-not-enabled")
  ELSE IF e.e = "foreign"
  THEN IF file[e.x] # e.c THEN Foreign(e.x, e.c) /\ After(e, "foreign-state")
       ELSE Frozen /\ UNCHANGED <<cv, cstep>>                  \* rewriting the same content: no model step
  ELSE IF e.e = "die"
  THEN IF CanDie(e.c) THEN Die(e.c) /\ After(e, "die-state") ELSE Drift("die-not-enabled")
  ELSE Drift("unknown-event")

TStep ==
  /\ verdict = "ok" /\ l <= Len(T.ev)
  /\ LET e == T.ev[l] IN
     /\ verdict' = PVerdict(e)
     /\ Model(e)
  /\ l' = l + 1 /\ UNCHANGED tid

TSpec == TInit /\ [][TStep]_allvars

Record == TLCSet(tid, IF verdict # "ok" THEN <<verdict, l - 1>>
                      ELSE IF cv # "ok" THEN <<cv, cstep>> ELSE <<"ok", l - 1>>)
Post == \A t \in 1..NT : PrintT(<<"VERDICT", t, TLCGet(t)>>)
=============================================================================
