SPECIFICATION Spec
CONSTANTS
  MaxRecv = 3
  Block = 2
  LimitLine = 0
  LimitFields = 100
  LimitFieldSize = 0
  DefaultFS = 20
  Family = "heads1"
  Dev = {}
INVARIANT FramingExact
INVARIANT RejectsListed
INVARIANT CompleteOkDelivered
INVARIANT FinDetermined
INVARIANT InOrderNoLossNoDup
INVARIANT OverLimitRejected
PROPERTY Terminates
CONSTRAINT LevelBound
CHECK_DEADLOCK FALSE
