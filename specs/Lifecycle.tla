------------------------------ MODULE Lifecycle ------------------------------
(***************************************************************************)
(* The server hooks a configuration file can define, as a state machine:   *)
(* which hook runs in which state of the master and of a worker, i.e. the  *)
(* order an operator's hook code can rely on.  One action per call site:   *)
(*   arbiter.py  _set_num_workers 85 (nworkers_changed), start 138         *)
(*     (on_starting) / 168 (when_ready), halt 352 (on_exit), reexec 418    *)
(*     (pre_exec), reload 469 (on_reload), reap_workers 561 (child_exit),  *)
(*     spawn_worker 593 (pre_fork) / 611 (post_fork) / 631 (worker_exit)   *)
(*   workers/base.py init_process 139 (post_worker_init), handle_quit 197  *)
(*     (worker_int), handle_abort 203 (worker_abort)                       *)
(*   workers/sync.py 173 / 215, gthread.py 325 / 377, base_async.py 94 /   *)
(*     144 (pre_request / post_request)                                    *)
(* Workers are named by their age (the arbiter's spawn counter).           *)
(*   master m: "new" -> "configured" (Arbiter.__init__ -> setup: the       *)
(*     first nworkers_changed, old = None = -1) -> "starting" -> "ready"   *)
(*     <-> "reloading" (HUP: setup() has run - nworkers_changed -, the     *)
(*     on_reload hook has not yet) ; "ready" -> "halting" -> "exited"      *)
(*   worker w[a]: "none" -> "pre" (pre_fork ran, the fork follows) ->      *)
(*     "forked" (post_fork ran in the child) -> "init" (post_worker_init)  *)
(*     -> "wexit" (worker_exit ran in the child) | "gone" (killed: no      *)
(*     Python code ran) -> "reaped" (child_exit ran in the master)         *)
(* Dev: "ForkBeforeReady" workers are forked before when_ready;            *)
(*      "ChildExitForLiving" child_exit for a worker that is still alive   *)
(***************************************************************************)
EXTENDS Integers, Sequences, FiniteSets, TLC

CONSTANTS MaxAge, MaxN, Threads, Dev

Ages == 1..MaxAge
(* type annotations are for Apalache (specs/apalache/MC_Lifecycle.tla); TLC ignores them
   @typeAlias: state = { m: Str, n: Int, age: Int, w: Int -> Str, req: Int -> Int, sig: Int -> Str, exec: Bool }; *)
LifecycleAliases == TRUE
VARIABLE
  \* @type: $state;
  s
S0 == [m |-> "new", n |-> -1, age |-> 0, w |-> [a \in Ages |-> "none"], req |-> [a \in Ages |-> 0],
       sig |-> [a \in Ages |-> "none"], exec |-> FALSE]

\* @type: ($state) => Set(Int);
Unreaped(x) == {a \in Ages : x.w[a] \in {"pre", "forked", "init", "wexit", "gone"}}
\* @type: ($state) => Set(Int);
Alive(x) == {a \in Ages : x.w[a] \in {"pre", "forked", "init"}}
\* @type: ($state) => Bool;
Serving(x) == x.m \in {"ready", "reloading"}

(* ---- master ---- *)
\* @type: ($state, Int) => $state;
Setup(x, k) == [x EXCEPT !.m = "configured", !.n = k]                 \* nworkers_changed(k, None)
\* @type: ($state) => $state;
OnStarting(x) == [x EXCEPT !.m = "starting"]
\* @type: ($state) => $state;
WhenReady(x) == [x EXCEPT !.m = "ready"]
\* @type: ($state) => $state;
PreFork(x) == [x EXCEPT !.age = @ + 1, !.w[x.age + 1] = "pre"]
\* @type: ($state, Int) => $state;
Resize(x, k) == [x EXCEPT !.n = k]                                    \* TTIN / TTOU: nworkers_changed(k, n)
\* @type: ($state, Int) => $state;
Reconfigured(x, k) == [x EXCEPT !.m = "reloading", !.n = k]           \* HUP: reload -> setup: nworkers_changed(k, n), also when k = n
\* @type: ($state) => $state;
OnReload(x) == [x EXCEPT !.m = "ready"]                               \* ... then on_reload, then the new workers
\* @type: ($state) => $state;
PreExec(x) == [x EXCEPT !.exec = TRUE]
\* @type: ($state, Int) => $state;
ChildExit(x, a) == [x EXCEPT !.w[a] = "reaped"]
\* @type: ($state) => $state;
Halt(x) == [x EXCEPT !.m = "halting"]                                 \* TERM / INT / QUIT (no hook)
\* @type: ($state) => $state;
OnExit(x) == [x EXCEPT !.m = "exited"]
(* ---- worker a ---- *)
\* @type: ($state, Int) => $state;
PostFork(x, a) == [x EXCEPT !.w[a] = "forked"]
\* @type: ($state, Int) => $state;
PostInit(x, a) == [x EXCEPT !.w[a] = "init"]
\* @type: ($state, Int) => $state;
PreRequest(x, a) == [x EXCEPT !.req[a] = @ + 1]
\* @type: ($state, Int) => $state;
PostRequest(x, a) == [x EXCEPT !.req[a] = @ - 1]
\* @type: ($state, Int, Str) => $state;
Signalled(x, a, g) == [x EXCEPT !.sig[a] = g]                         \* worker_int (INT / QUIT) / worker_abort (ABRT)
\* @type: ($state, Int) => $state;
WorkerExit(x, a) == [x EXCEPT !.w[a] = "wexit"]
\* @type: ($state, Int) => $state;
Killed(x, a) == [x EXCEPT !.w[a] = "gone"]                            \* SIGKILL, or a crash below Python: no hook

\* @type: ($state) => Bool;
CanFork(x) == /\ (x.m = "ready" \/ ("ForkBeforeReady" \in Dev /\ x.m = "starting"))
              /\ x.age < MaxAge
              \* manage_workers spawns while fewer than n are registered; a reload spawns n more before it retires the old
              /\ Cardinality(Unreaped(x)) < 2 * MaxN
\* @type: ($state, Int) => Bool;
CanChildExit(x, a) == /\ x.m \in {"ready", "reloading", "halting"}
                      /\ (x.w[a] \in {"wexit", "gone"} \/ ("ChildExitForLiving" \in Dev /\ x.w[a] = "init"))

Next ==
  \/ s.m = "new" /\ \E k \in 1..MaxN : s' = Setup(s, k)
  \/ s.m = "configured" /\ s' = OnStarting(s)
  \/ s.m = "starting" /\ s' = WhenReady(s)
  \/ CanFork(s) /\ s' = PreFork(s)
  \/ s.m = "ready" /\ \E k \in 1..MaxN : k # s.n /\ s' = Resize(s, k)
  \/ s.m = "ready" /\ \E k \in 1..MaxN : s' = Reconfigured(s, k)
  \/ s.m = "reloading" /\ s' = OnReload(s)
  \/ s.m = "ready" /\ ~s.exec /\ s' = PreExec(s)
  \/ \E a \in Ages : CanChildExit(s, a) /\ s' = ChildExit(s, a)
  \/ Serving(s) /\ s.m = "ready" /\ s' = Halt(s)
  \/ s.m = "halting" /\ s' = OnExit(s)
  \/ \E a \in Ages :
       \/ s.w[a] = "pre" /\ s' = PostFork(s, a)
       \/ s.w[a] = "forked" /\ s' = PostInit(s, a)
       \/ s.w[a] = "init" /\ s.req[a] < Threads /\ s' = PreRequest(s, a)
       \/ s.w[a] \in {"init", "wexit"} /\ s.req[a] > 0 /\ s' = PostRequest(s, a)
       \* (a worker that is signalled again before it has left runs the hook again)
       \/ s.w[a] \in {"forked", "init"} /\ \E g \in {"int", "abort"} : s' = Signalled(s, a, g)
       \/ s.w[a] \in {"forked", "init"} /\ s' = WorkerExit(s, a)
       \/ s.w[a] \in {"pre", "forked", "init"} /\ s' = Killed(s, a)
Init == s = S0
Spec == Init /\ [][Next]_s /\ WF_s(\E a \in Ages : CanChildExit(s, a) /\ s' = ChildExit(s, a))

(***************************************************************************)
(* What hook code can rely on                                              *)
(***************************************************************************)
TypeOK == s.m \in {"new", "configured", "starting", "ready", "reloading", "halting", "exited"} /\ s.age \in 0..MaxAge
(* no worker exists before when_ready ran *)
NoWorkerBeforeReady == s.m \in {"new", "configured", "starting"} => \A a \in Ages : s.w[a] = "none"
(* requests are handled only by workers whose post_worker_init ran *)
RequestsOnlyAfterInit == \A a \in Ages : s.req[a] > 0 => s.w[a] \in {"init", "wexit", "gone", "reaped"}
(* child_exit is for workers that have left *)
ChildExitOnlyForTheDead == [][\A a \in Ages : (s.w[a] # "reaped" /\ s'.w[a] = "reaped") => s.w[a] \in {"wexit", "gone"}]_s
(* no fork once the master is on its way out; on_exit is its last hook *)
NoForkWhileHalting == [][s.m \in {"halting", "exited"} => s'.age = s.age]_s
NothingAfterOnExit == [][s.m = "exited" => (s'.m = "exited" /\ \A a \in Ages : (s'.w[a] = "reaped") = (s.w[a] = "reaped"))]_s
(* a worker that has left is reaped (child_exit) as long as the master runs *)
DeadAreReaped == \A a \in Ages : (s.w[a] \in {"wexit", "gone"}) ~> (s.w[a] = "reaped" \/ s.m = "exited")
=============================================================================
