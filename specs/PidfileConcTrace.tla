------------------------- MODULE PidfileConcTrace -------------------------
(***************************************************************************)
(* Property monitor (P) for C17 on two instances running the REAL          *)
(* Pidfile.create() on one path CONCURRENTLY: their system calls are       *)
(* interleaved in every order, and one of them may die before any of its   *)
(* calls (harness/drivers/pidfile_conc.py).                                *)
(*  ev: {e:"sys", who: 1|2, s: call name, p: abstract content of the path  *)
(*        right after the call: 0 absent, 1..5 exactly "<pid of n>\n",     *)
(*        -1 empty, -3 anything else, 11..15 another spelling}             *)
(*      {e:"ret", who, ok}  create returned / raised                       *)
(*      {e:"crash", who, p}  the instance died before its next call        *)
(* Clauses (and nothing about who wins the race - the check-then-publish   *)
(* window of create() is outside C17's words):                             *)
(*  OnlyCompleteContent  the path never shows anything but a complete      *)
(*                       "<pid>\n" of one of the instances, or nothing     *)
(*  PublishesOwnPid      the rename of an instance makes the path name     *)
(*                       that instance                                     *)
(***************************************************************************)
EXTENDS Integers, Sequences, TLC, Json, IOUtils, TLCExt
Traces == ndJsonDeserialize(IOEnv.TRACE_FILE)
NT == Len(Traces)
VARIABLES tid, l, verdict
vars == <<tid, l, verdict>>
T == Traces[tid]
V(e) ==
  IF e.e \in {"sys", "crash"} /\ e.p \notin {0, 1, 2} THEN "OnlyCompleteContent"
  ELSE IF e.e = "sys" /\ e.s = "rename" /\ e.p # e.who THEN "PublishesOwnPid"
  ELSE "ok"
Init == tid \in 1..NT /\ l = 1 /\ verdict = "ok"
Step == /\ verdict = "ok" /\ l <= Len(T.ev) /\ verdict' = V(T.ev[l]) /\ l' = l + 1 /\ UNCHANGED tid
Spec == Init /\ [][Step]_vars
Record == TLCSet(tid, <<verdict, l - 1>>)
Post == \A t \in 1..NT : PrintT(<<"VERDICT", t, TLCGet(t)>>)
=============================================================================
