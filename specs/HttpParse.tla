----------------------------- MODULE HttpParse -----------------------------
(***************************************************************************)
(* Implementation-shaped model of gunicorn.http: Unreader (push-back       *)
(* buffer), Request.parse (read_line, header scan, parse_headers),         *)
(* Message.set_body_reader, LengthReader, ChunkedReader (parse_chunk_size, *)
(* parse_chunked, parse_trailers) and Parser.__next__ (discard the rest of *)
(* the previous body, stop when the message says close).                   *)
(*                                                                         *)
(* One action = the code between two calls of unreader.read(); every call  *)
(* of unreader.read() on an empty push-back buffer is a nondeterministic   *)
(* network read of 1..MaxRecv symbols, so TLC visits every segmentation of *)
(* every stream.  Buffers hold stream POSITIONS, so order, loss and        *)
(* duplication of bytes are visible.                                       *)
(*                                                                         *)
(* Dev is the set of named deviations of the current tree from the         *)
(* intended design (DESIGN.md 3.2).                                        *)
(***************************************************************************)
EXTENDS HttpStream, HttpGen

CONSTANTS MaxRecv,       \* largest network read, in symbols
          Block,         \* Body.read block size (1024 in the code)
          LimitLine,     \* limit_request_line (0 = unlimited)
          LimitFields,   \* limit_request_fields
          LimitFieldSize,\* limit_request_field_size (0 = unlimited)
          DefaultFS,     \* DEFAULT_MAX_HEADERFIELD_SIZE (8190 in the code)
          Family,        \* which stream family Init ranges over (HttpGen)
          Dev            \* deviations switched on

VARIABLES ms, S, net, ubuf, pc, buf, rest, acc, rem, csize, mstart, hdrs, ver, out, fin

vars == <<ms, S, net, ubuf, pc, buf, rest, acc, rem, csize, mstart, hdrs, ver, out, fin>>

N == Len(S)
(* max_buffer_headers as Message.__init__ derives it *)
MaxBuf == LimitFields * ((IF LimitFieldSize > 0 THEN LimitFieldSize ELSE DefaultFS) + 2) + 4
Min(a, b) == IF a < b THEN a ELSE b
Range(a, b) == [i \in 1..(b - a + 1) |-> a + i - 1]
From(b, i) == IF i > Len(b) THEN <<>> ELSE SubSeq(b, i, Len(b))
Upto(b, i) == IF i < 1 THEN <<>> ELSE SubSeq(b, 1, Min(i, Len(b)))
SetMin(I) == CHOOSE i \in I : \A j \in I : i <= j

(* what unreader.read() can return *)
ReadSet == IF ubuf # <<>> THEN {ubuf}
           ELSE IF net >= N THEN {<<>>}
           ELSE {Range(net + 1, net + k) : k \in 1..Min(MaxRecv, N - net)}
NetAfter(d) == IF ubuf # <<>> THEN net ELSE net + Len(d)

FindCRLF(b) == LET I == {i \in 1..(Len(b) - 1) : S[b[i]] = CR /\ S[b[i + 1]] = LF}
               IN IF I = {} THEN 0 ELSE SetMin(I)
FindEOH(b) == LET I == {i \in 1..(Len(b) - 3) : /\ S[b[i]] = CR /\ S[b[i + 1]] = LF
                                                 /\ S[b[i + 2]] = CR /\ S[b[i + 3]] = LF}
              IN IF I = {} THEN 0 ELSE SetMin(I)
StartsCRLF(b) == Len(b) >= 2 /\ S[b[1]] = CR /\ S[b[2]] = LF

RECURSIVE SplitLines(_)
SplitLines(b) == LET i == FindCRLF(b)
                 IN IF i = 0 THEN <<b>> ELSE <<Upto(b, i - 1)>> \o SplitLines(From(b, i + 2))

-----------------------------------------------------------------------------
(* parse_headers on a header (or trailer) block: <<ok, kinds>>             *)
ParseRejectKinds == {"ObsFold", "WsColon", "BadName", "NulVal", "NoColon"}
PadsOnly(l, i) == \A j \in i..Len(l) : S[l[j]] = PAD
LineIs(l, K) == Len(l) >= 1 /\ S[l[1]] \in K /\ PadsOnly(l, 2)
LineKind(l) == IF LineIs(l, HdrKinds) THEN S[l[1]] ELSE "NoColon"

ParseBlock(b) ==
  LET ls == SplitLines(b)
      ks == [i \in DOMAIN ls |-> LineKind(ls[i])]
      kept(j) == Cardinality({i \in 1..j : ks[i] # "Under" \/ "DroppedNotCounted" \notin Dev})
      over == \E j \in DOMAIN ks : kept(j - 1) >= LimitFields
      bad == \E j \in DOMAIN ks : \/ ks[j] \in ParseRejectKinds
                                   \/ (LimitFieldSize > 0 /\ Len(ls[j]) + 2 > LimitFieldSize)
  IN [ok |-> ~over /\ ~bad, kinds |-> SelectSeq(ks, LAMBDA k : k # "Under")]

(* set_body_reader *)
Codings(h) == CASE h = "TEchunked" -> <<"chunked">>
                [] h = "TEgzipchunked" -> <<"gzip", "chunked">>
                [] h = "TEchunkedgzip" -> <<"chunked", "gzip">>
                [] h = "TEchunked2" -> <<"chunked", "chunked">>
                [] h = "TEidentity" -> <<"identity">>
                [] h = "TEgzip" -> <<"gzip">>
                [] h = "TEempty" -> <<"chunked", "">>
                [] h = "TEpyws" -> IF "StripPyWs" \in Dev THEN <<"chunked">> ELSE <<"\\vchunked">>
                [] h = "TEunknown" -> <<"foo">>
                [] h = "TEnontoken" -> <<"chu nked">>
                [] OTHER -> <<>>

RECURSIVE AllCodings(_)
AllCodings(hs) == IF hs = <<>> THEN <<>> ELSE Codings(Head(hs)) \o AllCodings(Tail(hs))

RECURSIVE TEWalk(_, _, _)
TEWalk(cs, chunked, close) ==
  IF cs = <<>> THEN [ok |-> TRUE, chunked |-> chunked, close |-> close]
  ELSE LET c == Head(cs) IN
       IF c = "chunked" THEN (IF chunked THEN [ok |-> FALSE, chunked |-> chunked, close |-> close]
                              ELSE TEWalk(Tail(cs), TRUE, close))
       ELSE IF c = "identity" THEN (IF chunked THEN [ok |-> FALSE, chunked |-> chunked, close |-> close]
                                    ELSE TEWalk(Tail(cs), chunked, close))
       ELSE IF c = "gzip" THEN (IF chunked THEN [ok |-> FALSE, chunked |-> chunked, close |-> close]
                                ELSE TEWalk(Tail(cs), chunked, TRUE))
       ELSE [ok |-> FALSE, chunked |-> chunked, close |-> close]

Decision(hs, v) ==
  LET cls == SelectSeq(hs, LAMBDA h : h \in CLKinds \cup {"CLbad"})
      te == TEWalk(AllCodings(hs), FALSE, FALSE)
  IN IF Len(cls) > 1 \/ ~te.ok THEN [ok |-> FALSE, fr |-> "none", n |-> 0, close |-> FALSE]
     ELSE IF te.chunked
          THEN [ok |-> v = 11 /\ cls = <<>>, fr |-> "chunked", n |-> 0, close |-> te.close]
     ELSE IF cls # <<>>
          THEN [ok |-> cls[1] # "CLbad", fr |-> "len", n |-> CLVal(cls[1]), close |-> te.close]
     ELSE [ok |-> TRUE, fr |-> "none", n |-> 0, close |-> te.close]

ShouldClose(hs, v, mustclose) ==
  LET conn == SelectSeq(hs, LAMBDA h : h \in {"ConnClose", "ConnKeep"})
  IN mustclose \/ (IF conn # <<>> THEN conn[1] = "ConnClose" ELSE v = 10)

-----------------------------------------------------------------------------
Init ==
  /\ \E c \in Cases(Family) : ms = c.ms /\ S = Upto(FlatAll(c.ms), c.cut)
  /\ net = 0 /\ ubuf = <<>> /\ pc = "Start" /\ buf = <<>> /\ rest = <<>> /\ acc = <<>>
  /\ rem = 0 /\ csize = 0 /\ mstart = 0 /\ hdrs = <<>> /\ ver = 0 /\ out = <<>> /\ fin = "run"

Finish(f) == /\ fin' = f /\ pc' = "Done"

AddData(d) == [out EXCEPT ![Len(out)].data = @ \o d]

(* Request.parse: first get_data(stop=True) *)
Start ==
  /\ pc = "Start"
  /\ \E d \in ReadSet :
       /\ net' = NetAfter(d) /\ ubuf' = <<>>
       /\ IF d = <<>>
          THEN Finish("stop") /\ UNCHANGED <<buf, mstart>>
          ELSE buf' = d /\ mstart' = d[1] - 1 /\ pc' = "ReqLine" /\ UNCHANGED fin
  /\ UNCHANGED <<ms, S, rest, acc, rem, csize, hdrs, ver, out>>

(* read_line: delimiter present *)
(* Request.proxy_protocol: only with the setting on, only on the first request of the connection, only for a
   line that starts with "PROXY"; a malformed one is refused; then the request line is read under the same limit
   ("ProxyLineNoLimit": the second read_line forgets the limit) *)
IsProxyLine(line) == ProxyOn(ms) /\ out = <<>> /\ hdrs # <<"px-seen">> /\ LineIs(line, PxKinds)
ReqLineFound ==
  /\ pc = "ReqLine" /\ FindCRLF(buf) > 0
  /\ LET i == FindCRLF(buf)
         line == Upto(buf, i - 1)
         okline == LineIs(line, RLOk)
         second == hdrs = <<"px-seen">>
         limited == LimitLine > 0 /\ i - 1 > LimitLine /\ ~(second /\ "ProxyLineNoLimit" \in Dev)
     IN IF limited THEN Finish("reject") /\ UNCHANGED <<buf, ver, hdrs>>
        ELSE IF IsProxyLine(line)
        THEN (IF S[line[1]] = "PX"
              THEN buf' = From(buf, i + 2) /\ hdrs' = <<"px-seen">> /\ UNCHANGED <<pc, fin, ver>>
              ELSE Finish("reject") /\ UNCHANGED <<buf, ver, hdrs>>)
        ELSE IF ~okline THEN Finish("reject") /\ UNCHANGED <<buf, ver, hdrs>>
        ELSE /\ buf' = From(buf, i + 2) /\ ver' = (IF S[line[1]] = "RL11" THEN 11 ELSE 10)
             /\ pc' = "Headers" /\ hdrs' = <<>> /\ UNCHANGED fin
  /\ UNCHANGED <<ms, S, net, ubuf, rest, acc, rem, csize, mstart, out>>

(* read_line: need more data *)
ReqLineMore ==
  /\ pc = "ReqLine" /\ FindCRLF(buf) = 0
  /\ IF LimitLine > 0 /\ Len(buf) > LimitLine + 2 /\ ~(hdrs = <<"px-seen">> /\ "ProxyLineNoLimit" \in Dev)
     THEN Finish("reject") /\ UNCHANGED <<buf, net, ubuf>>
     ELSE \E d \in ReadSet :
            /\ net' = NetAfter(d) /\ ubuf' = <<>>
            /\ IF d = <<>> THEN Finish("nomore") /\ UNCHANGED buf
               ELSE buf' = buf \o d /\ UNCHANGED <<pc, fin>>
  /\ UNCHANGED <<ms, S, rest, acc, rem, csize, mstart, hdrs, ver, out>>

(* header scan: end of head present *)
HeadersFound ==
  /\ pc = "Headers" /\ (StartsCRLF(buf) \/ FindEOH(buf) > 0)
  /\ IF StartsCRLF(buf)
     THEN /\ ubuf' = ubuf \o From(buf, 3) /\ hdrs' = <<>> /\ pc' = "Decide" /\ UNCHANGED fin
     ELSE LET i == FindEOH(buf)
              p == ParseBlock(Upto(buf, i - 1))
              capped == "CapWholeBlock" \notin Dev /\ "NoHeaderCap" \notin Dev /\ i - 1 > MaxBuf
          IN IF ~p.ok \/ capped
             THEN Finish("reject") /\ UNCHANGED <<ubuf, hdrs>>
             ELSE /\ ubuf' = ubuf \o From(buf, i + 4) /\ hdrs' = p.kinds /\ pc' = "Decide"
                  /\ UNCHANGED fin
  /\ buf' = <<>>
  /\ UNCHANGED <<ms, S, net, rest, acc, rem, csize, mstart, ver, out>>

(* header scan: need more data.  The current tree ("CapWholeBlock") applies  *)
(* max_buffer_headers to everything buffered after a further read, bytes    *)
(* after the head included; the intended design caps the head only.        *)
HeadersMore ==
  /\ pc = "Headers" /\ ~StartsCRLF(buf) /\ FindEOH(buf) = 0
  /\ \E d \in ReadSet :
       /\ net' = NetAfter(d) /\ ubuf' = <<>>
       /\ IF d = <<>> THEN Finish("nomore") /\ UNCHANGED buf
          ELSE LET nb == buf \o d
                   e == FindEOH(nb)
                   headlen == IF StartsCRLF(nb) THEN 0 ELSE IF e > 0 THEN e - 1 ELSE Len(nb)
                   over == IF "CapWholeBlock" \in Dev THEN Len(nb) > MaxBuf
                           ELSE IF "NoHeaderCap" \in Dev THEN FALSE ELSE headlen > MaxBuf
               IN IF over THEN Finish("reject") /\ UNCHANGED buf
                  ELSE buf' = nb /\ UNCHANGED <<pc, fin>>
  /\ UNCHANGED <<ms, S, rest, acc, rem, csize, mstart, hdrs, ver, out>>

(* set_body_reader, then the request is handed to the application *)
Decide ==
  /\ pc = "Decide"
  /\ LET d == Decision(hdrs, ver)
     IN IF ~d.ok THEN Finish("reject") /\ UNCHANGED <<out, rem, buf, hdrs>>
        ELSE /\ out' = Append(out, [start |-> mstart, data |-> <<>>])
             /\ hdrs' = IF d.close THEN Append(hdrs, "MustClose") ELSE hdrs
             /\ rem' = d.n
             /\ buf' = <<>>
             /\ pc' = (IF d.fr = "chunked" THEN "CSize" ELSE IF d.n > 0 THEN "LenRead" ELSE "NextMsg")
             /\ UNCHANGED fin
  /\ UNCHANGED <<ms, S, net, ubuf, rest, acc, csize, mstart, ver>>

(* LengthReader.read(min(length, Block)) driven by Body.read / the discard loop *)
LenRead ==
  /\ pc = "LenRead"
  /\ LET size == Min(rem, Block) IN
     \E d \in ReadSet :
       /\ net' = NetAfter(d)
       /\ LET a == acc \o d IN
          IF d # <<>> /\ Len(a) < size
          THEN /\ acc' = a /\ ubuf' = <<>> /\ UNCHANGED <<out, rem, pc>>
          ELSE LET ret == Upto(a, size) IN
               /\ acc' = <<>> /\ ubuf' = From(a, size + 1)
               /\ out' = AddData(ret)
               /\ rem' = rem - size
               /\ pc' = (IF ret = <<>> \/ rem - size = 0 THEN "NextMsg" ELSE "LenRead")
  /\ UNCHANGED <<ms, S, buf, rest, csize, mstart, hdrs, ver, fin>>

(* parse_chunk_size *)
CSizeFound ==
  /\ pc = "CSize" /\ FindCRLF(buf) > 0
  /\ LET i == FindCRLF(buf)
         line == Upto(buf, i - 1)
         sym == IF LineIs(line, SizeKinds) THEN S[line[1]] ELSE "Sbad"
         okk == sym \in SizeOk \cup LastOk \cup SizeDontCare
         sz == IF sym \in SizeDontCare THEN 1 ELSE SizeVal(sym)
     IN IF ~okk THEN Finish("bodyreject") /\ UNCHANGED <<buf, rest, csize>>
        ELSE IF sym \in LastOk
             THEN buf' = From(buf, i + 2) /\ pc' = "Trailers" /\ UNCHANGED <<rest, csize, fin>>
             ELSE rest' = From(buf, i + 2) /\ csize' = sz /\ buf' = <<>> /\ pc' = "CData" /\ UNCHANGED fin
  /\ UNCHANGED <<ms, S, net, ubuf, acc, rem, mstart, hdrs, ver, out>>

CSizeMore ==
  /\ pc = "CSize" /\ FindCRLF(buf) = 0
  /\ IF "UnboundedChunkLine" \notin Dev /\ Len(buf) > LimitLine + 2 /\ LimitLine > 0
     THEN Finish("bodyreject") /\ UNCHANGED <<buf, net, ubuf>>
     ELSE \E d \in ReadSet :
            /\ net' = NetAfter(d) /\ ubuf' = <<>>
            /\ IF d = <<>> THEN Finish("bodyeof") /\ UNCHANGED buf
               ELSE buf' = buf \o d /\ UNCHANGED <<pc, fin>>
  /\ UNCHANGED <<ms, S, rest, acc, rem, csize, mstart, hdrs, ver, out>>

(* parse_chunked: data of one chunk *)
CData ==
  /\ pc = "CData"
  /\ IF csize > Len(rest)
     THEN /\ out' = AddData(rest) /\ csize' = csize - Len(rest)
          /\ \E d \in ReadSet :
               /\ net' = NetAfter(d) /\ ubuf' = <<>>
               /\ IF d = <<>> THEN Finish("bodyeof") /\ UNCHANGED rest
                  ELSE rest' = d /\ UNCHANGED <<pc, fin>>
     ELSE /\ out' = AddData(Upto(rest, csize)) /\ rest' = From(rest, csize + 1) /\ csize' = 0
          /\ pc' = "CTerm" /\ UNCHANGED <<net, ubuf, fin>>
  /\ UNCHANGED <<ms, S, buf, acc, rem, mstart, hdrs, ver>>

(* parse_chunked: CRLF after the data *)
CTerm ==
  /\ pc = "CTerm"
  /\ IF Len(rest) < 2
     THEN \E d \in ReadSet :
            /\ net' = NetAfter(d) /\ ubuf' = <<>>
            /\ IF d = <<>> THEN Finish("bodyreject") /\ UNCHANGED <<rest, buf>>
               ELSE rest' = rest \o d /\ UNCHANGED <<pc, fin, buf>>
     ELSE /\ IF StartsCRLF(rest)
             THEN buf' = From(rest, 3) /\ rest' = <<>> /\ pc' = "CSize" /\ UNCHANGED fin
             ELSE Finish("bodyreject") /\ UNCHANGED <<rest, buf>>
          /\ UNCHANGED <<net, ubuf>>
  /\ UNCHANGED <<ms, S, acc, rem, csize, mstart, hdrs, ver, out>>

(* parse_trailers (NoMoreData is swallowed by parse_chunk_size) *)
Trailers ==
  /\ pc = "Trailers"
  /\ IF StartsCRLF(buf)
     THEN /\ ubuf' = ubuf \o From(buf, 3) /\ buf' = <<>> /\ pc' = "NextMsg" /\ UNCHANGED <<net, fin>>
     ELSE IF FindEOH(buf) > 0
     THEN LET i == FindEOH(buf)
              p == ParseBlock(Upto(buf, i - 1))
          IN /\ IF p.ok THEN ubuf' = ubuf \o From(buf, i + 4) /\ pc' = "NextMsg" /\ UNCHANGED fin
                ELSE Finish("bodyreject") /\ UNCHANGED ubuf
             /\ buf' = <<>> /\ UNCHANGED net
     ELSE IF "UnboundedTrailers" \notin Dev /\ Len(buf) > MaxBuf
     THEN Finish("bodyreject") /\ UNCHANGED <<buf, net, ubuf>>
     ELSE \E d \in ReadSet :
            /\ net' = NetAfter(d) /\ ubuf' = <<>>
            /\ IF d = <<>> THEN buf' = <<>> /\ pc' = "NextMsg" /\ UNCHANGED fin
               ELSE buf' = buf \o d /\ UNCHANGED <<pc, fin>>
  /\ UNCHANGED <<ms, S, rest, acc, rem, csize, mstart, hdrs, ver, out>>

(* Parser.__next__: stop if the message says close, else parse the next one *)
NextMsg ==
  /\ pc = "NextMsg"
  /\ IF ShouldClose(hdrs, ver, \E i \in DOMAIN hdrs : hdrs[i] = "MustClose")
     THEN Finish("stop")
     ELSE pc' = "Start" /\ UNCHANGED fin
  /\ UNCHANGED <<ms, S, net, ubuf, buf, rest, acc, rem, csize, mstart, hdrs, ver, out>>

Next == Start \/ ReqLineFound \/ ReqLineMore \/ HeadersFound \/ HeadersMore \/ Decide \/ LenRead
        \/ CSizeFound \/ CSizeMore \/ CData \/ CTerm \/ Trailers \/ NextMsg

Spec == Init /\ [][Next]_vars /\ WF_vars(Next)

-----------------------------------------------------------------------------
(* Properties.  st is the strict reading of the uncut stream; a message is *)
(* "complete" when all of it lies within the cut.                          *)
st == Strict(ms)
IsPrefix(a, b) == Len(a) <= Len(b) /\ a = Upto(b, Len(a))
Complete(i) == st[i].end <= N

(* C01 FramingExact: every request handed over starts where the strict     *)
(* reading starts it and gets exactly the strict body bytes.               *)
FramingExact ==
  \A i \in DOMAIN out :
    /\ i <= Len(st)
    /\ out[i].start = st[i].start
    /\ st[i].hv # "reject"
    /\ st[i].hend <= N
    /\ IsPrefix(out[i].data, st[i].data)
    /\ (pc = "Done" /\ Complete(i) /\ st[i].bv # "reject" /\ (i < Len(out) \/ fin = "stop"))
          => out[i].data = st[i].data
    /\ \A k \in DOMAIN out[i].data : out[i].data[k] <= N

(* C01 RejectsListed / nothing after a refused or closing message.         *)
RejectsListed == Len(out) <= Len(st)

(* Accepts what must be accepted (also C06: independent of segmentation,   *)
(* C12: within limits => not rejected for size): a stream whose strict     *)
(* reading is entirely "ok" and complete is delivered entirely.            *)
AllOk == \A i \in DOMAIN st : st[i].hv = "ok" /\ st[i].bv = "ok" /\ Complete(i)
FieldLen(i, j, isTrl) == 3 + (IF j = 1 THEN (IF isTrl THEN ms[i].pad.t ELSE ms[i].pad.h) ELSE 0)
WithinLimits ==
  \A i \in DOMAIN ms :
    /\ Len(ms[i].hdrs) <= LimitFields /\ Len(ms[i].trl) <= LimitFields
    /\ LimitLine > 0 => 1 + ms[i].pad.rl <= LimitLine
    /\ LimitFieldSize > 0 => /\ \A j \in DOMAIN ms[i].hdrs : FieldLen(i, j, FALSE) <= LimitFieldSize
                             /\ \A j \in DOMAIN ms[i].trl : FieldLen(i, j, TRUE) <= LimitFieldSize
    /\ Len(FlatLines(ms[i].hdrs, ms[i].pad.h)) <= MaxBuf
    /\ LimitLine > 0 => 1 + ms[i].pad.c <= LimitLine
    /\ Len(FlatLines(ms[i].trl, ms[i].pad.t)) <= MaxBuf

(* C12 OverLimitRejected: a request whose line / field count / field size  *)
(* exceeds the limits is never handed over.                                *)
OverLimit(i) ==
  \/ LimitLine > 0 /\ 1 + ms[i].pad.rl > LimitLine
  \/ Len(ms[i].hdrs) > LimitFields
  \/ LimitFieldSize > 0 /\ \E j \in DOMAIN ms[i].hdrs : FieldLen(i, j, FALSE) > LimitFieldSize
OverLimitRejected == \A i \in DOMAIN out : i <= Len(ms) => ~OverLimit(i)
CompleteOkDelivered ==
  (pc = "Done" /\ AllOk /\ WithinLimits /\ N = Len(FlatAll(ms))) => (Len(out) = Len(st) /\ fin = "stop")

(* C06 as a state invariant: the terminal observation is a function of the *)
(* stream alone (the three clauses above pin down out; this pins fin).     *)
FinDetermined ==
  pc = "Done" =>
    LET k == Len(out) IN
    /\ (fin = "reject") => (k < Len(st) /\ (st[k + 1].hv \in {"reject", "dc"} \/ ~WithinLimits))
    /\ (fin = "bodyreject") => (k >= 1 /\ (st[k].bv \in {"reject", "dc"} \/ ~Complete(k) \/ ~WithinLimits))
    /\ (fin \in {"nomore", "bodyeof"}) => N < Len(FlatAll(ms))

(* Push-back discipline: the not yet consumed bytes are a contiguous,      *)
(* ordered run of stream positions.                                        *)
Contig(b) == \A i \in 1..(Len(b) - 1) : b[i + 1] = b[i] + 1
Pending == (IF pc \in {"CData", "CTerm"} THEN rest ELSE buf \o acc) \o ubuf
InOrderNoLossNoDup ==
  pc # "Done" => /\ Contig(Pending)
                 /\ (Pending # <<>> => Pending[Len(Pending)] = net)

(* C12: data held while waiting for a delimiter is bounded by the limits.  *)
Held == Len(buf) + Len(rest) + Len(acc) + Len(ubuf)
BufferBounded ==
  /\ pc = "ReqLine" /\ LimitLine > 0 => Len(buf) <= LimitLine + 2 + MaxRecv
  /\ pc = "Headers" => Len(buf) <= MaxBuf + 4 + MaxRecv
  /\ pc = "CSize" /\ LimitLine > 0 => Len(buf) <= LimitLine + 2 + MaxRecv
  /\ pc = "Trailers" => Len(buf) <= MaxBuf + 4 + MaxRecv

Terminates == <>(pc = "Done")

LevelBound == TLCGet("level") <= 200
=============================================================================
