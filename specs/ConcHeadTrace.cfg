SPECIFICATION Spec
CONSTRAINT Record
POSTCONDITION Post
CHECK_DEADLOCK FALSE
