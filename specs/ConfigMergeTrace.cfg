SPECIFICATION TSpec
CONSTANTS
  Dev = {}
CONSTRAINT Record
POSTCONDITION Post
CHECK_DEADLOCK FALSE
