---------------------------- MODULE BindAddrCases ----------------------------
(* Every bind string of at most MaxLen pieces with what parse_address must  *)
(* return for it, written as NDJSON for the spec -> code replayer.          *)
EXTENDS BindAddr, Json, IOUtils
VARIABLE done
AllN == UNION {[1..k -> 1..NP] : k \in 0..MaxLen}
Case(x) == [pieces |-> x, s |-> Flat(x), r |-> Parse(Flat(x)), rc |-> ParseSetting(Flat(x))]
CInit == done = FALSE /\ n = <<>>
CNext == done = FALSE /\ done' = ndJsonSerialize(IOEnv.CASES_OUT, SetToSeq({Case(x) : x \in AllN})) /\ UNCHANGED n
CSpec == CInit /\ [][CNext]_<<done, n>>
=============================================================================
