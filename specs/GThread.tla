------------------------------ MODULE GThread ------------------------------
(***************************************************************************)
(* Implementation-shaped model (D) of gunicorn/workers/gthread.py          *)
(* (ThreadWorker.run / accept / on_client_socket_readable / enqueue_req /  *)
(* murder_keepalived / finish_request / handle).  One action per code      *)
(* segment between two visible operations (poller / lock / executor /      *)
(* socket / futures.wait calls) of the main thread; pool-thread steps and  *)
(* the environment (clients, clock, TERM) are separate actions that can    *)
(* fall between any two of them.  finish_request is a done-callback: it    *)
(* runs in the pool thread (Finish...), or in the submitting thread when  *)
(* future is already done at add_done_callback time (AddCallback).         *)
(*                                                                         *)
(* Dev = behaviour of the current tree that departs from the intended      *)
(* design:                                                                 *)
(*  "GateStopsPolling"       when nr_conns >= worker_connections the loop  *)
(*                           does not call poller.select at all; it only   *)
(*                           waits on the futures (run(), 208-221)         *)
(*  "DropUndispatchedOnExit" at loop exit registered connections (new or   *)
(*                           keep-alive, with or without a request         *)
(*                           arriving) are abandoned to process exit       *)
(* and one switch for a defect the current tree does NOT have (used to show  *)
(* that the model and the fine-grained harness see the window):            *)
(*  "RegisterBeforeAppendUnlocked" finish_request registers the socket     *)
(*                           first and outside the lock, then appends to   *)
(*                           _keep: a readable event in between takes the  *)
(*                           "race condition" return and is lost           *)
(* Fine = TRUE splits the keep-alive completion into FinishKeepA/B (the    *)
(* pool thread holds the lock across both in the design).                  *)
(* Intended design (Dev = {}): a full worker keeps polling its accepted    *)
(* connections and only stops accepting; on stop it first dispatches what  *)
(* has arrived and closes what is idle.                                    *)
(*                                                                         *)
(* Time: ttl[c] = ticks left until the keep-alive deadline of c (relative  *)
(* clock, so no absolute bound is needed); murder_keepalived is taken to   *)
(* run in zero time (Tick is disabled inside it: a stale `now` only makes  *)
(* the reaper later, never earlier).                                       *)
(***************************************************************************)
EXTENDS Integers, Sequences, FiniteSets, TLC

CONSTANTS Threads, WC, KA, NConn, MaxReq, Faults, AllowTerm, Fine, Dev, Obs, MaxLevel

Conns == 1..NConn
MaxKeepalived == WC - Threads

VARIABLES
  mpc,      \* main-thread label
  nrConns,  \* worker.nr_conns
  keep,     \* worker._keep: sequence of connection ids
  ttl,      \* c -> ticks until conn.timeout
  futs,     \* worker.futures: sequence of [c, d(one)]
  reg,      \* client sockets registered in the poller
  accepted, closed, inited,    \* per connection flags
  job,      \* c -> "none" | "queued" | "running" | "handled" | "done" (finished, callback not attached yet)
  jres,     \* c -> "keep" | "close" | "exc" | "cancel"
  cb,       \* c -> done-callback attached
  queue,    \* executor queue
  client,   \* c -> "fresh" | "conn" | "left"
  pend,     \* c -> a complete request sits unread in the socket
  sent,     \* c -> requests sent so far
  wantKeep, \* c -> the last request asked for keep-alive
  backlog,  \* listener backlog
  ready, acceptOK, cur, mcur,
  alive, termed, parentDead, faults, dbl,
  lock,     \* worker._lock: 0 = free, c = held by the pool thread finishing connection c
            \* (the main thread takes it only inside single atomic actions)
  last      \* observation only (Obs = TRUE): <<action, c, arg>>

vars == <<mpc, nrConns, keep, ttl, futs, reg, accepted, closed, inited, job, jres, cb, queue, client,
          pend, sent, wantKeep, backlog, ready, acceptOK, cur, mcur, alive, termed, parentDead,
          faults, dbl, lock, last>>

Note(a, c, x) == last' = IF Obs THEN <<a, c, x>> ELSE <<>>

OpenSet == {c \in Conns : accepted[c] /\ ~closed[c]}
InPool == {c \in Conns : job[c] \in {"running", "handled", "finishing"}}
Unfinished == {c \in Conns : job[c] \in {"queued", "running", "handled", "finishing"}}
LockFree == lock = 0
RegFirst == "RegisterBeforeAppendUnlocked" \in Dev
ThreadFree == Cardinality(Unfinished) < Threads
InKeep(c) == \E i \in DOMAIN keep : keep[i] = c
Remove(s, c) == SelectSeq(s, LAMBDA x : x # c)
MurderLabels == {"m_pop", "m_back", "m_unreg", "m_close"}
PollerClosed == mpc \in {"lclose", "grace", "exited", "gone"}
IsReady(c) == pend[c] \/ client[c] = "left"
Orders(S) == {s \in [1..Cardinality(S) -> S] : \A i, j \in 1..Cardinality(S) : i # j => s[i] # s[j]}

Init ==
  /\ mpc = "top" /\ nrConns = 0 /\ keep = <<>> /\ ttl = [c \in Conns |-> 0] /\ futs = <<>> /\ reg = {}
  /\ accepted = [c \in Conns |-> FALSE] /\ closed = [c \in Conns |-> FALSE]
  /\ inited = [c \in Conns |-> FALSE] /\ job = [c \in Conns |-> "none"]
  /\ jres = [c \in Conns |-> "close"] /\ cb = [c \in Conns |-> FALSE] /\ queue = <<>>
  /\ client = [c \in Conns |-> "fresh"] /\ pend = [c \in Conns |-> FALSE]
  /\ sent = [c \in Conns |-> 0] /\ wantKeep = [c \in Conns |-> FALSE] /\ backlog = <<>>
  /\ ready = <<>> /\ acceptOK = TRUE /\ cur = 0 /\ mcur = 0
  /\ alive = TRUE /\ termed = FALSE /\ parentDead = FALSE /\ faults = 0 /\ dbl = FALSE
  /\ lock = 0 /\ last = <<>>

(* ------------------------------------------------------------------ *)
(* completion logic of finish_request (241-270), run by thread `who`  *)
(* ------------------------------------------------------------------ *)
\* effect on nrConns, keep, ttl, reg, closed, dbl for connection c with result r
FinishEffect(c, r) ==
  IF r = "keep" /\ alive /\ ~PollerClosed
  THEN /\ keep' = Append(keep, c) /\ ttl' = [ttl EXCEPT ![c] = KA] /\ reg' = reg \cup {c}
       /\ UNCHANGED <<nrConns, closed, dbl>>
  ELSE /\ nrConns' = nrConns - 1 /\ closed' = [closed EXCEPT ![c] = TRUE]
       /\ dbl' = (dbl \/ closed[c])
       \* a keep decision that meets a closed poller falls into the except branch: _keep already appended
       /\ keep' = IF r = "keep" /\ alive THEN Append(keep, c) ELSE keep
       /\ ttl' = IF r = "keep" /\ alive THEN [ttl EXCEPT ![c] = KA] ELSE ttl
       /\ UNCHANGED reg

MarkDone(c) ==
  LET i == CHOOSE k \in DOMAIN futs : futs[k].c = c /\ ~futs[k].d
  IN  futs' = [futs EXCEPT ![i] = [c |-> c, d |-> TRUE]]
HasLive(c) == \E k \in DOMAIN futs : futs[k].c = c /\ ~futs[k].d

(* ------------------------------------------------------------------ *)
(* main thread                                                         *)
(* ------------------------------------------------------------------ *)
LoopCond == alive \/ ("DropUndispatchedOnExit" \notin Dev /\ \E c \in reg : pend[c])

Notify ==
  /\ mpc = "top" /\ LoopCond /\ mpc' = "gate" /\ Note("Notify", 0, "")
  /\ UNCHANGED <<nrConns, keep, ttl, futs, reg, accepted, closed, inited, job, jres, cb, queue, client, pend,
                 sent, wantKeep, backlog, ready, acceptOK, cur, mcur, alive, termed, parentDead, faults, dbl>>

LoopExit ==
  /\ mpc = "top" /\ ~LoopCond /\ mpc' = "shutdown" /\ Note("LoopExit", 0, "")
  /\ UNCHANGED <<nrConns, keep, ttl, futs, reg, accepted, closed, inited, job, jres, cb, queue, client, pend,
                 sent, wantKeep, backlog, ready, acceptOK, cur, mcur, alive, termed, parentDead, faults, dbl>>

Gate ==
  /\ mpc = "gate"
  /\ IF nrConns < WC
     THEN mpc' = "select" /\ acceptOK' = (alive \/ "DropUndispatchedOnExit" \in Dev)
     ELSE IF "GateStopsPolling" \in Dev
          THEN mpc' = "fullwait" /\ UNCHANGED acceptOK
          ELSE mpc' = "select" /\ acceptOK' = FALSE
  /\ Note("Gate", 0, "")
  /\ UNCHANGED <<nrConns, keep, ttl, futs, reg, accepted, closed, inited, job, jres, cb, queue, client, pend,
                 sent, wantKeep, backlog, ready, cur, mcur, alive, termed, parentDead, faults, dbl>>

ReadySet == {c \in reg : IsReady(c)} \cup (IF acceptOK /\ backlog # <<>> THEN {0} ELSE {})

SelectReturn ==
  /\ mpc = "select"
  /\ \E s \in Orders(ReadySet) : ready' = s
  /\ mpc' = "dispatch" /\ acceptOK' = TRUE /\ Note("SelectReturn", 0, "")
  /\ UNCHANGED <<nrConns, keep, ttl, futs, reg, accepted, closed, inited, job, jres, cb, queue, client, pend,
                 sent, wantKeep, backlog, cur, mcur, alive, termed, parentDead, faults, dbl>>

Accept ==
  /\ mpc = "dispatch" /\ ready # <<>> /\ Head(ready) = 0 /\ LockFree
  /\ ready' = Tail(ready)
  /\ IF backlog = <<>>
     THEN UNCHANGED <<nrConns, reg, accepted, backlog>> /\ Note("Accept", 0, "eagain")
     ELSE LET c == Head(backlog) IN
          /\ backlog' = Tail(backlog) /\ accepted' = [accepted EXCEPT ![c] = TRUE]
          /\ nrConns' = nrConns + 1 /\ reg' = reg \cup {c} /\ Note("Accept", c, "")
  /\ UNCHANGED <<mpc, keep, ttl, futs, closed, inited, job, jres, cb, queue, client, pend, sent, wantKeep,
                 acceptOK, cur, mcur, alive, termed, parentDead, faults, dbl>>

Readable(c) ==
  /\ mpc = "dispatch" /\ ready # <<>> /\ Head(ready) = c /\ c # 0 /\ LockFree
  /\ ready' = Tail(ready) /\ reg' = reg \ {c}
  /\ IF inited[c] /\ ~InKeep(c)
     THEN UNCHANGED <<mpc, keep, cur>>                       \* "race condition": return
     ELSE mpc' = "submit" /\ cur' = c /\ keep' = Remove(keep, c)
  /\ ttl' = [ttl EXCEPT ![c] = 0]
  /\ Note("Readable", c, "")
  /\ UNCHANGED <<nrConns, futs, accepted, closed, inited, job, jres, cb, queue, client, pend, sent,
                 wantKeep, backlog, acceptOK, mcur, alive, termed, parentDead, faults, dbl>>

Submit(c) ==
  /\ mpc = "submit" /\ cur = c
  /\ inited' = [inited EXCEPT ![c] = TRUE] /\ job' = [job EXCEPT ![c] = "queued"]
  /\ queue' = Append(queue, c) /\ futs' = Append(futs, [c |-> c, d |-> FALSE])
  /\ cb' = [cb EXCEPT ![c] = FALSE]
  /\ mpc' = "addcb" /\ Note("Submit", c, "")
  /\ UNCHANGED <<nrConns, keep, ttl, reg, accepted, closed, jres, client, pend, sent, wantKeep, backlog,
                 ready, acceptOK, cur, mcur, alive, termed, parentDead, faults, dbl>>

AddCallback(c) ==
  /\ mpc = "addcb" /\ cur = c /\ mpc' = "dispatch" /\ cur' = 0 /\ (job[c] = "done" => LockFree)
  /\ IF job[c] = "done"
     THEN /\ FinishEffect(c, jres[c]) /\ job' = [job EXCEPT ![c] = "none"] /\ UNCHANGED cb   \* inline, main thread
     ELSE /\ cb' = [cb EXCEPT ![c] = TRUE]
          /\ UNCHANGED <<nrConns, keep, ttl, reg, closed, dbl, job>>
  /\ Note("AddCallback", c, "")
  /\ UNCHANGED <<futs, accepted, inited, jres, queue, client, pend, sent, wantKeep, backlog, ready,
                 acceptOK, mcur, alive, termed, parentDead, faults>>

Sweep == futs' = SelectSeq(futs, LAMBDA f : ~f.d)

FuturesSweep ==
  /\ mpc = "dispatch" /\ ready = <<>> /\ Sweep /\ mpc' = "parent" /\ Note("FuturesSweep", 0, "")
  /\ UNCHANGED <<nrConns, keep, ttl, reg, accepted, closed, inited, job, jres, cb, queue, client, pend, sent,
                 wantKeep, backlog, ready, acceptOK, cur, mcur, alive, termed, parentDead, faults, dbl>>

FullWait ==
  /\ mpc = "fullwait" /\ Sweep /\ mpc' = "parent" /\ Note("FullWait", 0, "")
  /\ UNCHANGED <<nrConns, keep, ttl, reg, accepted, closed, inited, job, jres, cb, queue, client, pend, sent,
                 wantKeep, backlog, ready, acceptOK, cur, mcur, alive, termed, parentDead, faults, dbl>>

ParentCheck ==
  /\ mpc = "parent" /\ mpc' = (IF parentDead THEN "shutdown" ELSE "m_pop") /\ Note("ParentCheck", 0, "")
  /\ UNCHANGED <<nrConns, keep, ttl, futs, reg, accepted, closed, inited, job, jres, cb, queue, client, pend,
                 sent, wantKeep, backlog, ready, acceptOK, cur, mcur, alive, termed, parentDead, faults, dbl>>

MurderPop ==
  /\ mpc = "m_pop" /\ LockFree
  /\ IF keep = <<>>
     THEN mpc' = "top" /\ UNCHANGED <<keep, mcur, nrConns>> /\ Note("MurderPop", 0, "empty")
     ELSE LET c == Head(keep) IN
          /\ keep' = Tail(keep) /\ mcur' = c
          /\ IF ttl[c] > 0
             THEN mpc' = "m_back" /\ UNCHANGED nrConns /\ Note("MurderPop", c, "young")
             ELSE mpc' = "m_unreg" /\ nrConns' = nrConns - 1 /\ Note("MurderPop", c, "expired")
  /\ UNCHANGED <<ttl, futs, reg, accepted, closed, inited, job, jres, cb, queue, client, pend, sent, wantKeep,
                 backlog, ready, acceptOK, cur, alive, termed, parentDead, faults, dbl>>

MurderPutBack ==
  /\ mpc = "m_back" /\ LockFree /\ keep' = <<mcur>> \o keep /\ mpc' = "top" /\ mcur' = 0 /\ Note("MurderPutBack", mcur, "")
  /\ UNCHANGED <<nrConns, ttl, futs, reg, accepted, closed, inited, job, jres, cb, queue, client, pend, sent,
                 wantKeep, backlog, ready, acceptOK, cur, alive, termed, parentDead, faults, dbl>>

MurderUnreg ==
  /\ mpc = "m_unreg" /\ LockFree /\ reg' = reg \ {mcur} /\ mpc' = "m_close" /\ Note("MurderUnreg", mcur, "")
  /\ UNCHANGED <<nrConns, keep, ttl, futs, accepted, closed, inited, job, jres, cb, queue, client, pend, sent,
                 wantKeep, backlog, ready, acceptOK, cur, mcur, alive, termed, parentDead, faults, dbl>>

MurderClose ==
  /\ mpc = "m_close" /\ closed' = [closed EXCEPT ![mcur] = TRUE] /\ dbl' = (dbl \/ closed[mcur])
  /\ mpc' = "m_pop" /\ mcur' = 0 /\ Note("MurderClose", mcur, "")
  /\ UNCHANGED <<nrConns, keep, ttl, futs, reg, accepted, inited, job, jres, cb, queue, client, pend, sent,
                 wantKeep, backlog, ready, acceptOK, cur, alive, termed, parentDead, faults>>

\* intended design: on stop, idle registered connections are closed by the worker
IdleAtExit == IF "DropUndispatchedOnExit" \in Dev THEN {} ELSE {c \in reg : ~closed[c]}

ShutdownPool ==
  /\ mpc = "shutdown" /\ mpc' = "pclose" /\ ("DropUndispatchedOnExit" \notin Dev => LockFree)
  /\ closed' = [c \in Conns |-> closed[c] \/ c \in IdleAtExit]
  /\ nrConns' = nrConns - Cardinality(IdleAtExit)
  /\ reg' = reg \ IdleAtExit /\ keep' = SelectSeq(keep, LAMBDA x : x \notin IdleAtExit)
  /\ Note("ShutdownPool", 0, "")
  /\ UNCHANGED <<ttl, futs, accepted, inited, job, jres, cb, queue, client, pend, sent, wantKeep, backlog,
                 ready, acceptOK, cur, mcur, alive, termed, parentDead, faults, dbl>>

ClosePoller ==
  /\ mpc = "pclose" /\ mpc' = "lclose" /\ reg' = {} /\ Note("ClosePoller", 0, "")
  /\ UNCHANGED <<nrConns, keep, ttl, futs, accepted, closed, inited, job, jres, cb, queue, client, pend, sent,
                 wantKeep, backlog, ready, acceptOK, cur, mcur, alive, termed, parentDead, faults, dbl>>

CloseListeners ==
  /\ mpc = "lclose" /\ mpc' = "grace" /\ Note("CloseListeners", 0, "")
  /\ UNCHANGED <<nrConns, keep, ttl, futs, reg, accepted, closed, inited, job, jres, cb, queue, client, pend,
                 sent, wantKeep, backlog, ready, acceptOK, cur, mcur, alive, termed, parentDead, faults, dbl>>

\* futures.wait(self.futures, graceful_timeout): applications are assumed to finish in time
GraceWait ==
  /\ mpc = "grace" /\ Unfinished = {} /\ mpc' = "exited" /\ Note("GraceWait", 0, "")
  /\ UNCHANGED <<nrConns, keep, ttl, futs, reg, accepted, closed, inited, job, jres, cb, queue, client, pend,
                 sent, wantKeep, backlog, ready, acceptOK, cur, mcur, alive, termed, parentDead, faults, dbl>>

MainNext0 ==
  \/ Notify \/ LoopExit \/ Gate \/ SelectReturn \/ Accept \/ (\E c \in Conns : Readable(c))
  \/ (\E c \in Conns : Submit(c)) \/ (\E c \in Conns : AddCallback(c)) \/ FuturesSweep \/ FullWait
  \/ ParentCheck \/ MurderPop \/ MurderPutBack \/ MurderUnreg \/ MurderClose
  \/ ShutdownPool \/ ClosePoller \/ CloseListeners \/ GraceWait

MainNext == MainNext0 /\ UNCHANGED lock

(* ------------------------------------------------------------------ *)
(* pool threads                                                        *)
(* ------------------------------------------------------------------ *)
Pick(c) ==
  /\ queue # <<>> /\ Head(queue) = c /\ Cardinality(InPool) < Threads
  /\ queue' = Tail(queue) /\ job' = [job EXCEPT ![c] = "running"] /\ Note("Pick", c, "")
  /\ UNCHANGED <<mpc, nrConns, keep, ttl, futs, reg, accepted, closed, inited, jres, cb, client, pend, sent,
                 wantKeep, backlog, ready, acceptOK, cur, mcur, alive, termed, parentDead, faults, dbl>>

\* handle() + handle_request(): the keep-alive decision (wsgi should_close, 328-331)
KeepDecision(c) == wantKeep[c] /\ KA > 0 /\ alive /\ Len(keep) < MaxKeepalived

HandleDone(c) ==
  /\ job[c] = "running"
  /\ job' = [job EXCEPT ![c] = "handled"]
  /\ IF pend[c]
     THEN /\ pend' = [pend EXCEPT ![c] = FALSE]
          /\ jres' = [jres EXCEPT ![c] = IF KeepDecision(c) THEN "keep" ELSE "close"]
     ELSE /\ jres' = [jres EXCEPT ![c] = "close"] /\ UNCHANGED pend         \* EOF: NoMoreData
  /\ wantKeep' = [wantKeep EXCEPT ![c] = FALSE]
  /\ Note("HandleDone", c, jres'[c])
  /\ UNCHANGED <<mpc, nrConns, keep, ttl, futs, reg, accepted, closed, inited, cb, queue, client, sent,
                 backlog, ready, acceptOK, cur, mcur, alive, termed, parentDead, faults, dbl>>

JobCrash(c) ==
  /\ job[c] = "running" /\ faults < Faults /\ faults' = faults + 1
  /\ job' = [job EXCEPT ![c] = "handled"] /\ jres' = [jres EXCEPT ![c] = "exc"] /\ Note("JobCrash", c, "")
  /\ UNCHANGED <<mpc, nrConns, keep, ttl, futs, reg, accepted, closed, inited, cb, queue, client, pend, sent,
                 wantKeep, backlog, ready, acceptOK, cur, mcur, alive, termed, parentDead, dbl>>

\* Future.set_result / set_exception: callbacks run in this pool thread if attached
Finish(c, kind) ==
  /\ job[c] = "handled" /\ MarkDone(c)
  /\ IF cb[c]
     THEN FinishEffect(c, jres[c]) /\ job' = [job EXCEPT ![c] = "none"]
     ELSE job' = [job EXCEPT ![c] = "done"] /\ UNCHANGED <<nrConns, keep, ttl, reg, closed, dbl>>
  /\ jres' = IF cb[c] THEN [jres EXCEPT ![c] = "close"] ELSE jres
  /\ Note(kind, c, "")
  /\ UNCHANGED <<mpc, accepted, inited, cb, queue, client, pend, sent, wantKeep, backlog, ready,
                 acceptOK, cur, mcur, alive, termed, parentDead, faults>>

FinishKeep(c) == jres[c] = "keep" /\ alive /\ (~Fine \/ ~cb[c]) /\ LockFree /\ Finish(c, "FinishKeep")

\* Fine = TRUE: the keep-alive branch of finish_request as two steps.
\*  design / current tree:  A = set_timeout, acquire the lock, _keep.append     B = poller.register, release
\*  RegFirst (deviation):    A = poller.register (no lock)                      B = set_timeout, locked _keep.append
\* a register() that meets a closed poller raises: except branch (nr_conns -= 1, close)
FinishKeepA(c) ==
  /\ Fine /\ cb[c] /\ job[c] = "handled" /\ jres[c] = "keep" /\ alive /\ MarkDone(c)
  /\ IF RegFirst
     THEN IF PollerClosed
          THEN /\ nrConns' = nrConns - 1 /\ closed' = [closed EXCEPT ![c] = TRUE] /\ dbl' = (dbl \/ closed[c])
               /\ job' = [job EXCEPT ![c] = "none"] /\ UNCHANGED <<reg, keep, ttl, lock>>
          ELSE /\ reg' = reg \cup {c} /\ job' = [job EXCEPT ![c] = "finishing"]
               /\ UNCHANGED <<nrConns, closed, dbl, keep, ttl, lock>>
     ELSE /\ LockFree /\ lock' = c /\ keep' = Append(keep, c) /\ ttl' = [ttl EXCEPT ![c] = KA]
          /\ job' = [job EXCEPT ![c] = "finishing"] /\ UNCHANGED <<nrConns, closed, dbl, reg>>
  /\ Note("FinishKeepA", c, "")
  /\ UNCHANGED <<mpc, accepted, inited, jres, cb, queue, client, pend, sent, wantKeep, backlog, ready,
                 acceptOK, cur, mcur, alive, termed, parentDead, faults>>

FinishKeepB(c) ==
  /\ job[c] = "finishing" /\ job' = [job EXCEPT ![c] = "none"] /\ jres' = [jres EXCEPT ![c] = "close"]
  /\ IF RegFirst
     THEN /\ LockFree /\ keep' = Append(keep, c) /\ ttl' = [ttl EXCEPT ![c] = KA]
          /\ UNCHANGED <<nrConns, closed, dbl, reg, lock>>
     ELSE /\ lock' = 0
          /\ IF PollerClosed
             THEN /\ nrConns' = nrConns - 1 /\ closed' = [closed EXCEPT ![c] = TRUE] /\ dbl' = (dbl \/ closed[c])
                  /\ UNCHANGED <<reg, keep, ttl>>
             ELSE /\ reg' = reg \cup {c} /\ UNCHANGED <<nrConns, closed, dbl, keep, ttl>>
  /\ Note("FinishKeepB", c, "")
  /\ UNCHANGED <<mpc, futs, accepted, inited, cb, queue, client, pend, sent, wantKeep, backlog, ready,
                 acceptOK, cur, mcur, alive, termed, parentDead, faults>>
FinishClose(c) == (jres[c] = "close" \/ (jres[c] = "keep" /\ ~alive)) /\ Finish(c, "FinishClose")
FinishException(c) == jres[c] = "exc" /\ Finish(c, "FinishException")

\* a queued job is cancelled (environment fault); callbacks run in the cancelling thread
Cancel(c) ==
  /\ job[c] = "queued" /\ faults < Faults /\ faults' = faults + 1
  /\ queue' = Remove(queue, c) /\ MarkDone(c)
  /\ jres' = [jres EXCEPT ![c] = "cancel"]
  /\ IF cb[c]
     THEN FinishEffect(c, "cancel") /\ job' = [job EXCEPT ![c] = "none"]
     ELSE job' = [job EXCEPT ![c] = "done"] /\ UNCHANGED <<nrConns, keep, ttl, reg, closed, dbl>>
  /\ Note("Cancel", c, "")
  /\ UNCHANGED <<mpc, accepted, inited, cb, client, pend, sent, wantKeep, backlog, ready, acceptOK, cur,
                 mcur, alive, termed, parentDead>>

PoolNext0 == \E c \in Conns : Pick(c) \/ HandleDone(c) \/ JobCrash(c) \/ FinishKeep(c) \/ FinishClose(c)
                               \/ FinishException(c) \/ Cancel(c)
PoolNext == (PoolNext0 /\ UNCHANGED lock) \/ (\E c \in Conns : FinishKeepA(c) \/ FinishKeepB(c))

(* ------------------------------------------------------------------ *)
(* environment                                                         *)
(* ------------------------------------------------------------------ *)
EnvUnch == UNCHANGED <<mpc, nrConns, keep, futs, reg, accepted, closed, inited, job, jres, cb, queue, ready,
                       acceptOK, cur, mcur, faults, dbl>>

ClientConnect(c) ==
  /\ mpc # "gone" /\ client[c] = "fresh" /\ \A d \in Conns : d < c => client[d] # "fresh"
  /\ client' = [client EXCEPT ![c] = "conn"] /\ backlog' = Append(backlog, c) /\ Note("ClientConnect", c, "")
  /\ EnvUnch /\ UNCHANGED <<ttl, pend, sent, wantKeep, alive, termed, parentDead>>

ClientSend(c, k) ==
  /\ mpc # "gone" /\ client[c] = "conn" /\ ~pend[c] /\ sent[c] < MaxReq
  /\ pend' = [pend EXCEPT ![c] = TRUE] /\ sent' = [sent EXCEPT ![c] = @ + 1]
  /\ wantKeep' = [wantKeep EXCEPT ![c] = k] /\ Note("ClientSend", c, IF k THEN "k" ELSE "c")
  /\ EnvUnch /\ UNCHANGED <<ttl, client, backlog, alive, termed, parentDead>>

ClientClose(c) ==
  /\ mpc # "gone" /\ client[c] = "conn"
  /\ client' = [client EXCEPT ![c] = "left"] /\ Note("ClientClose", c, "")
  /\ EnvUnch /\ UNCHANGED <<ttl, pend, sent, wantKeep, backlog, alive, termed, parentDead>>

Tick ==
  /\ mpc \notin MurderLabels /\ mpc # "gone" /\ \E c \in Conns : InKeep(c) /\ ttl[c] > 0
  /\ ttl' = [c \in Conns |-> IF ttl[c] > 0 THEN ttl[c] - 1 ELSE 0] /\ Note("Tick", 0, "")
  /\ EnvUnch /\ UNCHANGED <<client, pend, sent, wantKeep, backlog, alive, termed, parentDead>>

Term ==
  /\ AllowTerm /\ ~termed /\ mpc \notin {"exited", "gone"} /\ termed' = TRUE /\ alive' = FALSE /\ Note("Term", 0, "")
  /\ EnvUnch /\ UNCHANGED <<ttl, client, pend, sent, wantKeep, backlog, parentDead>>

ParentDies ==
  /\ ~parentDead /\ faults < Faults /\ mpc \notin {"exited", "gone"} /\ parentDead' = TRUE
  /\ Note("ParentDies", 0, "")
  /\ UNCHANGED <<mpc, nrConns, keep, futs, reg, accepted, closed, inited, job, jres, cb, queue, ready,
                 acceptOK, cur, mcur, dbl, ttl, client, pend, sent, wantKeep, backlog, alive, termed>>
  /\ faults' = faults + 1

\* process exit: the kernel closes whatever is left
Exit ==
  /\ mpc = "exited" /\ mpc' = "gone" /\ closed' = [c \in Conns |-> closed[c] \/ accepted[c]]
  /\ Note("Exit", 0, "")
  /\ UNCHANGED <<nrConns, keep, ttl, futs, reg, accepted, inited, job, jres, cb, queue, client, pend, sent,
                 wantKeep, backlog, ready, acceptOK, cur, mcur, alive, termed, parentDead, faults, dbl>>

EnvNext0 == (\E c \in Conns : ClientConnect(c) \/ ClientClose(c) \/ (\E k \in BOOLEAN : ClientSend(c, k)))
           \/ Tick \/ Term \/ ParentDies \/ Exit

EnvNext == EnvNext0 /\ UNCHANGED lock

Next == MainNext \/ PoolNext \/ EnvNext

Fairness ==
  /\ WF_vars(MainNext) /\ WF_vars(PoolNext) /\ WF_vars(Exit /\ UNCHANGED lock)
  /\ \A c \in Conns : WF_vars(ClientClose(c) /\ UNCHANGED lock)

Spec == Init /\ [][Next]_vars /\ Fairness
SafetySpec == Init /\ [][Next]_vars

LevelBound == TLCGet("level") <= MaxLevel

(* ------------------------------------------------------------------ *)
(* properties                                                          *)
(* ------------------------------------------------------------------ *)
TypeOK ==
  /\ nrConns \in -2..(NConn + 1) /\ reg \subseteq Conns /\ faults \in 0..Faults
  /\ \A c \in Conns : ttl[c] \in 0..KA /\ sent[c] \in 0..MaxReq

\* nr_conns is exact outside the window between `nr_conns -= 1` and `conn.close()` of the reaper
ConnAccounting ==
  (mpc \notin {"m_unreg", "m_close", "gone"}) => nrConns = Cardinality(OpenSet)
NeverExceedMax == Cardinality(OpenSet) <= WC /\ nrConns <= WC
NoDoubleClose == ~dbl
KeepAliveNotBefore == mpc \in {"m_unreg", "m_close"} => ttl[mcur] = 0
\* a connection in _keep is idle and registered, a handled one is neither
KeepIdle == \A c \in Conns : InKeep(c) /\ ~PollerClosed /\ lock # c => (c \in reg /\ job[c] \in {"none", "done"} /\ ~closed[c])

NoCloseWhileHandled ==
  [][\A c \in Conns : (closed'[c] /\ ~closed[c]) =>
        (job[c] # "running" /\ (job[c] = "queued" => jres'[c] = "cancel"))]_vars

Dispatched(c) == job[c] # "none" \/ closed[c]
ServedIfThreadFree ==
  \A c \in Conns : (accepted[c] /\ ~closed[c] /\ pend[c] /\ job[c] = "none" /\ ThreadFree) ~> Dispatched(c)
EventuallyClosed == \A c \in Conns : accepted[c] ~> closed[c]
ReturnsToZero == <>[](nrConns = 0 \/ mpc = "gone")
ReapedWhenExpired == \A c \in Conns : (InKeep(c) /\ ttl[c] = 0 /\ alive) ~> (~InKeep(c) \/ ~alive)
\* C18/C04 view: nothing that has arrived is abandoned at loop exit
NoPendingDroppedAtExit ==
  [][(mpc = "top" /\ mpc' = "shutdown") => \A c \in reg : ~pend[c]]_vars
=============================================================================
