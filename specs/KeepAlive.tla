------------------------------ MODULE KeepAlive ------------------------------
(***************************************************************************)
(* One connection over its whole life in a worker: the keep-alive loop of  *)
(* base_async.AsyncWorker.handle (32-87: `while True: req = None; with     *)
(* self.timeout_ctx(): req = next(parser); if not req: break;              *)
(* handle_request(...)`), gthread's handle / finish_request / _keep /      *)
(* murder_keepalived (one request per dispatch, parked in between), and    *)
(* sync.handle (one request, close).  Conn.tla is one request of it.       *)
(*                                                                         *)
(* The client is a script of items:                                        *)
(*   "req"      a complete request                                         *)
(*   "reqclose" a complete request that says Connection: close             *)
(*   "pause"    silence for longer than the keep-alive time                *)
(*   "slowreq"  a request whose head is interrupted by such a silence      *)
(* followed by end of file.  The environment may ask the worker to stop    *)
(* (TERM at a reload / shutdown, max_requests reached) at any moment.      *)
(*                                                                         *)
(*   pc: "wait"   next(parser) is reading (async: under the timer)         *)
(*       "parked" gthread: the connection is in _keep, registered with the *)
(*                poller                                                   *)
(*       "handle" a request was parsed; handle_request tests self.alive    *)
(*       "app"    the application runs / the response is written           *)
(*       "closed"                                                          *)
(* Dev:                                                                    *)
(*   "StaleReq"       the async loop does not reset `req` before the timed *)
(*        read: when the timer fires the previous request is still there   *)
(*   "NoCloseOnStop"  the async worker closes the connection of a request  *)
(*        handled after the stop request only when max_requests was the    *)
(*        reason (here: never)                                             *)
(*   "ParkAfterStop"  gthread's finish_request parks the connection though *)
(*        the worker was told to stop                                      *)
(***************************************************************************)
EXTENDS Integers, Sequences, FiniteSets, TLC

CONSTANTS MaxItems, Dev

Classes == {"sync", "gthread", "async"}
Items == {"req", "reqclose", "pause", "slowreq"}
Requests == {"req", "reqclose", "slowreq"}

VARIABLE s
(* s.cls, s.script, s.i (next item), s.pc, s.alive, s.cur (the request in hand: its item number), s.last (async: what  *)
(* the local variable req holds, 0 = None), s.served (item numbers handed to the application, in order), s.willclose,   *)
(* s.after (requests whose handling began after the stop request), s.fired (the keep-alive timer fired / the reaper ran) *)

S0(c, sc) == [cls |-> c, script |-> sc, i |-> 1, pc |-> "wait", alive |-> TRUE, cur |-> 0,
              last |-> 0, served |-> <<>>, willclose |-> FALSE, after |-> 0, fired |-> FALSE]

Item(x) == IF x.i <= Len(x.script) THEN x.script[x.i] ELSE "eof"

(* ---- steps of the worker ---- *)
(* gthread: the poller reports the parked connection readable (data or end of file): a pool thread runs handle(conn) *)
Dispatch(x) == [x EXCEPT !.pc = "wait"]
(* gthread: murder_keepalived finds the parked connection past its time *)
Reap(x) == [x EXCEPT !.pc = "closed", !.i = @ + 1, !.fired = TRUE]

(* next(parser) returns / raises *)
Recv(x) ==
  LET it == Item(x) IN
  IF it = "eof" THEN [x EXCEPT !.pc = "closed"]                       \* NoMoreData / StopIteration: silent
  ELSE IF it \in {"req", "reqclose"} THEN [x EXCEPT !.pc = "handle", !.cur = x.i, !.i = @ + 1]
  ELSE IF x.cls # "async"
       THEN (IF it = "pause" THEN [x EXCEPT !.i = @ + 1]              \* a blocking read waits
             ELSE [x EXCEPT !.pc = "handle", !.cur = x.i, !.i = @ + 1])
  ELSE \* async: the timer fires inside next(parser); the with block is left without an assignment to req
       IF "StaleReq" \in Dev /\ x.last # 0
       THEN [x EXCEPT !.pc = "handle", !.cur = x.last, !.i = @ + 1, !.fired = TRUE]
       ELSE [x EXCEPT !.pc = "closed", !.i = @ + 1, !.fired = TRUE]   \* if not req: break

(* handle_request up to the application call: the connection closes after this response when ... *)
Handle(x) ==
  LET stop == ~x.alive /\ ~("NoCloseOnStop" \in Dev /\ x.cls = "async")
      closing == x.cls = "sync" \/ x.script[x.cur] = "reqclose" \/ stop IN
  [x EXCEPT !.pc = "app", !.served = Append(@, x.cur), !.last = x.cur, !.willclose = closing,
            !.after = @ + (IF x.alive THEN 0 ELSE 1)]

(* the response is out *)
AppDone(x) ==
  IF x.willclose THEN [x EXCEPT !.pc = "closed"]
  ELSE IF x.cls = "async" THEN [x EXCEPT !.pc = "wait"]
  ELSE \* gthread.finish_request: `if keepalive and self.alive: park else close`
       IF x.alive \/ "ParkAfterStop" \in Dev THEN [x EXCEPT !.pc = "parked"] ELSE [x EXCEPT !.pc = "closed"]

Worker ==
  \/ s.pc = "parked" /\ Item(s) = "pause" /\ s' = Reap(s)
  \/ s.pc = "parked" /\ Item(s) # "pause" /\ s' = Dispatch(s)
  \/ s.pc = "wait" /\ s' = Recv(s)
  \/ s.pc = "handle" /\ s' = Handle(s)
  \/ s.pc = "app" /\ s' = AppDone(s)
Term == s.alive /\ s.pc # "closed" /\ s' = [s EXCEPT !.alive = FALSE]

RECURSIVE SeqsUpTo(_)
SeqsUpTo(n) == IF n = 0 THEN {<<>>} ELSE LET P == SeqsUpTo(n - 1) IN P \cup {Append(q, it) : q \in {p \in P : Len(p) = n - 1}, it \in Items}

Init == \E c \in Classes, sc \in SeqsUpTo(MaxItems) : s = S0(c, sc)
Next == Worker \/ Term
Spec == Init /\ [][Next]_s /\ WF_s(Worker)

(***************************************************************************)
(* Properties                                                              *)
(***************************************************************************)
TypeOK == s.pc \in {"wait", "parked", "handle", "app", "closed"} /\ s.i \in 1..(Len(s.script) + 1)
(* C01 at connection level: what reaches the application is, in order, requests the client sent - each once *)
NoPhantom == \A k \in DOMAIN s.served : /\ s.script[s.served[k]] \in Requests
                                        /\ (k > 1 => s.served[k] > s.served[k - 1])
(* C10 / C04 / C18: a worker that was told to stop serves at most one more request on a connection (its response says close) *)
AtMostOneAfterStop == s.after <= 1
(* once the keep-alive time ran out on a connection nothing more is served on it *)
NothingAfterTheTimer == s.fired => s.pc = "closed"
(* gthread: a worker that was told to stop does not put a connection back among the kept-alive ones *)
NoParkAfterStop == [][(s.pc = "app" /\ s'.pc = "parked") => s.alive]_s
(* every connection is closed in the end *)
Closes == <>(s.pc = "closed")
=============================================================================
