SPECIFICATION TSpec
CONSTANTS
  MaxLen = 1
CONSTRAINT Record
POSTCONDITION Post
CHECK_DEADLOCK FALSE
