--------------------------- MODULE SyncLoopTrace ---------------------------
(***************************************************************************)
(* Traces of the REAL SyncWorker.run() over scripted listeners (in-process *)
(* driver props/syncloop.py: every listener.accept(), select(), notify(),  *)
(* is_parent_alive() and the return of run() is an event; a stop request   *)
(* or the parent's death is delivered at a chosen system-call boundary).   *)
(*   cfg: nl, maxreq                                                       *)
(*   ev : <<"connect", l>> <<"term">> <<"pdead">> <<"notify">>             *)
(*        <<"accept", l, 1|0>> <<"select", <<ready listeners>>>>           *)
(*        <<"parent", 1|0>> <<"exit">>                                     *)
(* (P) on the observed events alone:                                       *)
(*   BeatBeforeEveryBlockingOp  two blocking operations (a handled         *)
(*        connection, a select) without a notify() in between              *)
(*   AtMostOneAcceptAfterStop   a second connection taken off a listen     *)
(*        queue after the stop request                                     *)
(*   StopsAtLimit               more connections handled than max_requests *)
(*   Leaves                     the run ended without run() returning      *)
(*        although the worker was told to stop / lost its parent           *)
(* (C) the events are a behaviour of SyncLoop.tla (the loop's steps driven *)
(*   by the events, internal steps composed): "drift:<event>" otherwise.   *)
(***************************************************************************)
EXTENDS SyncLoop, Json, IOUtils, TLCExt

Traces == ndJsonDeserialize(IOEnv.TRACE_FILE)
NT == Len(Traces)
VARIABLES tid, l, verdict, cv, since, late, nr, stopped, exited
tvars == <<tid, l, verdict, cv, since, late, nr, stopped, exited>>
T == Traces[tid]

(* the model follows the event; "bad" marks a step the model cannot take *)
Bad(x) == [x EXCEPT !.pc = "bad"]
Follow(x, e) ==
  LET n == e[1] IN
  IF x.pc = "bad" THEN x
  ELSE IF n = "connect" THEN [x EXCEPT !.q[e[2]] = @ + 1, !.made = @ + 1]
  ELSE IF n = "term" THEN [x EXCEPT !.alive = FALSE]
  ELSE IF n = "pdead" THEN [x EXCEPT !.pok = FALSE]
  ELSE IF n = "notify" THEN
       (IF x.pc = "sel" THEN [x EXCEPT !.since = 0]          \* the notify() at the head of wait()
        ELSE IF x.pc = "top" /\ x.alive THEN Beat(Top(x))
        ELSE IF x.pc = "loop" /\ Loop(x).pc = "lbeat" THEN LBeat(Loop(x))
        ELSE Bad(x))
  ELSE IF n = "accept" THEN
       (IF x.pc = "acc" /\ e[2] = 1 /\ (e[3] = 1) = (x.q[1] > 0) THEN Acc(x)
        ELSE IF x.pc = "lacc" /\ x.rd <= Len(x.ready) /\ x.ready[x.rd] = e[2] /\ (e[3] = 1) = (x.q[e[2]] > 0) THEN LAcc(x)
        ELSE Bad(x))
  ELSE IF n = "select" THEN
       (IF x.pc = "sel" /\ e[2] = ReadySeq(x) THEN Sel(x, e[2]) ELSE Bad(x))
  ELSE IF n = "parent" THEN
       (LET y == IF x.pc = "loop" /\ Loop(x).pc = "par" THEN Loop(x) ELSE x IN
        IF y.pc = "par" /\ (e[2] = 1) = y.pok THEN Par(y) ELSE Bad(x))
  ELSE IF n = "exit" THEN
       (IF x.pc = "done" THEN x
        ELSE IF x.pc = "top" /\ ~x.alive THEN Top(x)
        ELSE Bad(x))
  ELSE Bad(x)

PV(e) ==
  LET n == e[1] IN
  IF n \in {"accept", "select"} /\ ~(n = "accept" /\ e[3] = 0) /\ since >= 1 THEN "BeatBeforeEveryBlockingOp"
  ELSE IF n = "accept" /\ e[3] = 1 /\ stopped /\ late >= 1 THEN "AtMostOneAcceptAfterStop"
  ELSE IF n = "accept" /\ e[3] = 1 /\ T.cfg.maxreq > 0 /\ nr + 1 > T.cfg.maxreq THEN "StopsAtLimit"
  ELSE "ok"

TInit == s = S0 /\ tid \in 1..NT /\ l = 1 /\ verdict = "ok" /\ cv = "ok" /\ since = 0 /\ late = 0 /\ nr = 0
         /\ stopped = FALSE /\ exited = FALSE
TStep ==
  /\ verdict = "ok" /\ l <= Len(T.ev)
  /\ LET e == T.ev[l]  n == e[1]  took == (n = "accept" /\ e[3] = 1) IN
     /\ verdict' = PV(e)
     /\ since' = IF n = "notify" THEN 0 ELSE IF took \/ n = "select" THEN since + 1 ELSE since
     /\ late' = IF took /\ stopped THEN late + 1 ELSE late
     /\ nr' = IF took THEN nr + 1 ELSE nr
     /\ stopped' = (stopped \/ n = "term" \/ (took /\ T.cfg.maxreq > 0 /\ nr + 1 >= T.cfg.maxreq))
     /\ exited' = (exited \/ n = "exit")
     /\ s' = Follow(s, e)
     /\ cv' = IF cv # "ok" THEN cv ELSE IF Follow(s, e).pc = "bad" THEN "drift:" \o n ELSE "ok"
  /\ l' = l + 1 /\ UNCHANGED tid
(* end of the trace: a worker that was told to stop (or lost its parent) has left its loop *)
TEnd ==
  /\ verdict = "ok" /\ l = Len(T.ev) + 1
  /\ verdict' = IF (stopped \/ T.cfg.pdead) /\ ~exited THEN "Leaves" ELSE "ok"
  /\ l' = l + 1 /\ UNCHANGED <<tid, cv, since, late, nr, stopped, exited, s>>
TSpec == TInit /\ [][TStep \/ TEnd]_<<s, tvars>>
Record == TLCSet(tid, IF verdict # "ok" THEN <<verdict, l - 1>> ELSE IF cv # "ok" THEN <<cv, l - 1>> ELSE <<"ok", l - 1>>)
Post == \A t \in 1..NT : PrintT(<<"VERDICT", t, TLCGet(t)>>)
=============================================================================
