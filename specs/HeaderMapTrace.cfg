SPECIFICATION TSpec
CONSTANTS
  Dev = {"NoProxyCarryGthread"}
  Product = "A"
CONSTRAINT Record
POSTCONDITION Post
CHECK_DEADLOCK FALSE
