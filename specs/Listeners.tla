------------------------------ MODULE Listeners ------------------------------
(***************************************************************************)
(* How a starting master obtains its listening sockets: Arbiter.start      *)
(* (arbiter.py 140-155: systemd.listen_fds, GUNICORN_FD), systemd.py        *)
(* listen_fds (LISTEN_PID must name this process), sock.py create_sockets   *)
(* (descriptors win over addresses; 5 attempts one second apart per         *)
(* address; sys.exit(1)) and UnixSocket.__init__ (a socket file at the path *)
(* is removed, anything else refuses the start).                            *)
(* Init: the environment the server is started in                           *)
(*   sd     "none" | "mine" (LISTEN_PID names the master, one descriptor) | *)
(*          "other" (LISTEN_PID names another process)                      *)
(*   binds  the configured binds in order, over "tcp", "unix", "fd"         *)
(*   path   what is at the unix path: "absent" | "stale" (a socket file     *)
(*          nobody listens on) | "live" (another server listens) | "file"   *)
(*   port   "free" | "busy" (for longer than the start waits) | "freed" k   *)
(*          (released after k seconds)                                      *)
(* One action per attempt / decision.  Dev: "ClobberAnything" (the path is  *)
(* removed whatever it is), "RetryForever".                                 *)
(***************************************************************************)
EXTENDS Integers, Sequences, FiniteSets, TLC

CONSTANT Dev
Attempts == 5

VARIABLE s
BindSeqs == {<<"tcp">>, <<"unix">>, <<"tcp", "unix">>, <<"unix", "tcp">>, <<"fd">>, <<"fd", "tcp">>, <<"unix", "fd">>}
S0(sd, b, path, busyfor) ==
  [sd |-> sd, binds |-> b, path |-> path, busyfor |-> busyfor, pc |-> "fds", i |-> 1, try |-> 1, clock |-> 0,
   got |-> {}, out |-> "starting"]

(* Arbiter.start: which inherited descriptors are there? *)
Fds(x) == IF x.sd = "mine" THEN [x EXCEPT !.got = {"systemd"}, !.pc = "create"] ELSE [x EXCEPT !.pc = "create"]
(* create_sockets: descriptors (fd:// binds, inherited ones) win; the addresses are not looked at then *)
Create(x) ==
  LET fdb == {"fd"} \cap {x.binds[k] : k \in DOMAIN x.binds} IN
  IF x.got # {} \/ fdb # {} THEN [x EXCEPT !.got = @ \cup fdb, !.pc = "done", !.out = "serving"]
  ELSE [x EXCEPT !.pc = "addr"]
(* one attempt for the address binds[i] *)
Attempt(x) ==
  IF x.i > Len(x.binds) THEN [x EXCEPT !.pc = "done", !.out = "serving"]
  ELSE LET a == x.binds[x.i] IN
    IF a = "unix" THEN
       (IF x.path = "absent" THEN [x EXCEPT !.got = @ \cup {"unix"}, !.path = "ours", !.i = @ + 1, !.try = 1]
        ELSE IF x.path \in {"stale", "live"} \/ "ClobberAnything" \in Dev
             THEN [x EXCEPT !.got = @ \cup {"unix"}, !.path = "ours", !.i = @ + 1, !.try = 1]   \* os.remove, bind
        ELSE [x EXCEPT !.pc = "done", !.out = "refused"])                                            \* ValueError: not a socket
    ELSE \* tcp
       IF x.clock >= x.busyfor THEN [x EXCEPT !.got = @ \cup {"tcp"}, !.i = @ + 1, !.try = 1]
       ELSE IF x.try < Attempts \/ "RetryForever" \in Dev THEN [x EXCEPT !.try = @ + 1, !.clock = @ + 1]   \* EADDRINUSE: sleep(1)
       ELSE [x EXCEPT !.pc = "done", !.out = "exit1", !.clock = @ + 1]

Step(x) == CASE x.pc = "fds" -> Fds(x) [] x.pc = "create" -> Create(x) [] x.pc = "addr" -> Attempt(x) [] OTHER -> x

Init == \E sd \in {"none", "mine", "other"}, b \in BindSeqs, p \in {"absent", "stale", "live", "file"}, k \in {0, 2, 99} :
           s = S0(sd, b, p, k)
Next == s.pc # "done" /\ s' = Step(s)
Spec == Init /\ [][Next]_s /\ WF_s(Next)

(***************************************************************************)
(* What an operator relies on                                              *)
(***************************************************************************)
TypeOK == s.pc \in {"fds", "create", "addr", "done"} /\ s.out \in {"starting", "serving", "refused", "exit1"}
(* a start never removes something at the unix path that is not a socket *)
OnlySocketsAreReplaced == [][s.path = "file" => s'.path = "file"]_s
(* descriptors addressed to another process are not used *)
ForeignActivationIgnored == s.sd = "other" => "systemd" \notin s.got
(* the start ends: serving, refused, or given up after a bounded wait *)
StartEnds == <>(s.pc = "done")
BoundedWait == s.clock <= Attempts
ClockBound == s.clock <= 8
(* when no descriptor was handed over, a serving master listens on every configured address *)
AllAddressesBound == (s.out = "serving" /\ s.sd # "mine" /\ \A k \in DOMAIN s.binds : s.binds[k] # "fd")
                        => s.got = {s.binds[k] : k \in DOMAIN s.binds}
(* a port that is taken for the whole wait makes the start fail instead of serving without it *)
NoSilentPartialStart == (s.out = "serving" /\ s.busyfor > Attempts /\ "tcp" \in s.got) => FALSE
=============================================================================
