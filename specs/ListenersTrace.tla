--------------------------- MODULE ListenersTrace ---------------------------
(***************************************************************************)
(* Real starts of gunicorn in a prepared environment against               *)
(* Listeners.tla.  trace: sd, binds, path, busyfor (the Init parameters),   *)
(* obs: [out: "serving" | "refused" | "exit1" | "hung" | "other",           *)
(*       served: which of "tcp" "unix" "fd" "systemd" answered a request,   *)
(*       file_intact: the regular file at the unix path is as it was,       *)
(*       secs: seconds until the outcome (rounded)]                         *)
(* Verdict "ok" or "drift:<what differs from the model's run>".             *)
(***************************************************************************)
EXTENDS Listeners, Json, IOUtils, TLCExt
Traces == ndJsonDeserialize(IOEnv.TRACE_FILE)
NT == Len(Traces)
VARIABLES tid, l, verdict
tvars == <<tid, l, verdict, s>>
T == Traces[tid]
RECURSIVE Run(_, _)
Run(x, fuel) == IF fuel = 0 \/ x.pc = "done" THEN x ELSE Run(Step(x), fuel - 1)
Final == Run(S0(T.sd, T.binds, T.path, T.busyfor), 40)
ToSet(q) == {q[k] : k \in DOMAIN q}
Verdict ==
  LET f == Final  o == T.obs IN
  IF T.path = "file" /\ ~o.file_intact THEN "drift:regular-file-at-the-path-changed"
  ELSE IF o.out = "hung" THEN "drift:start-neither-serves-nor-ends"
  ELSE IF o.out # f.out THEN "drift:outcome-" \o o.out \o "-model-" \o f.out
  ELSE IF o.out = "serving" /\ ToSet(o.served) # f.got THEN "drift:listeners"
  ELSE IF o.out = "exit1" /\ (o.secs < Attempts - 1 \/ o.secs > Attempts + 3) THEN "drift:wait"
  ELSE "ok"
TInit == tid \in 1..NT /\ l = 1 /\ verdict = "ok" /\ s = S0("none", <<"tcp">>, "absent", 0)
TStep == verdict = "ok" /\ l = 1 /\ l' = 2 /\ verdict' = Verdict /\ UNCHANGED <<tid, s>>
TSpec == TInit /\ [][TStep]_tvars
Record == TLCSet(tid, <<verdict, l - 1>>)
Post == \A t \in 1..NT : PrintT(<<"VERDICT", t, TLCGet(t)>>)
=============================================================================
