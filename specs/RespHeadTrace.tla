---------------------------- MODULE RespHeadTrace ----------------------------
(***************************************************************************)
(* Property monitor (P) for C09: what an application passed to             *)
(* start_response (as string KINDS, see RespHead.tla) against the response *)
(* head the client received, served by the real handle() of a worker.      *)
(*  c1, c2 = [st, hs: [[n, v]...]]; exc in none|absent|given; between.     *)
(*  ev: {e:"call", who, raised, sent: bytes on the wire before the call}   *)
(*      {e:"head", present, who: 0 = server's own error page, 1|2 = the    *)
(*       call whose status text is on the status line, -1 = neither,       *)
(*       server_ok: the server's own lines are exactly the expected ones,  *)
(*       lines: [[who, idx]...] application header lines in order, each    *)
(*       identified with the header (of call who, index idx) it equals,    *)
(*       extra: lines that equal no application header and are not the     *)
(*       server's own}                                                     *)
(***************************************************************************)
EXTENDS Integers, Sequences, FiniteSets, TLC, Json, IOUtils, TLCExt

Traces == ndJsonDeserialize(IOEnv.TRACE_FILE)
NT == Len(Traces)
VARIABLES tid, l, r1, r2, called2, sentAt2, verdict
vars == <<tid, l, r1, r2, called2, sentAt2, verdict>>
T == Traces[tid]

StatusForbidden == {"cr", "lf", "nul", "inject"}
NameBad == {"sp_in", "colon_in", "cr_in", "lf_in", "nul_in", "empty", "obs_in", "paren"}
ValueForbidden == {"cr", "lf", "nul", "crlf_inject"}
CallForbidden(c) == c.st \in StatusForbidden \/ \E k \in DOMAIN c.hs : c.hs[k].n \in NameBad \/ c.hs[k].v \in ValueForbidden
CallOf(w) == IF w = 1 THEN T.c1 ELSE T.c2
Forwardable(h) == h.n \in {"tok", "cl"} \/ (h.n = "upgrade" /\ h.v = "plain")
Forwarded(w) == LET c == CallOf(w) IN
                SelectSeq([k \in DOMAIN c.hs |-> <<w, k>>], LAMBDA p : Forwardable(c.hs[p[2]]))

CallVerdict(e) ==
  LET c == CallOf(e.who) IN
  IF CallForbidden(c) /\ ~e.raised THEN
       (IF c.st \in StatusForbidden THEN "ForbiddenStatusNotRefused" ELSE "ForbiddenHeaderNotRefused")
  ELSE IF e.who = 2 /\ T.exc = "absent" /\ ~e.raised THEN "SecondCallWithoutExcInfoAccepted"
  ELSE IF e.who = 2 /\ T.exc = "given" /\ e.sent > 0 /\ ~e.raised THEN "LateSecondCallAccepted"
  ELSE "ok"

LastAccepted == IF called2 /\ ~r2 /\ T.exc = "given" THEN 2 ELSE 1

HeadVerdict(e) ==
  IF ~e.present THEN "ok"
  ELSE IF e.who = 0 THEN (IF e.lines # <<>> \/ e.extra > 0 \/ ~e.server_ok THEN "ErrorPageNotExact" ELSE "ok")
  ELSE IF e.who = -1 THEN "StatusLineNotTheApplications"
  ELSE IF CallOf(e.who).st \in StatusForbidden THEN "ForbiddenTextOnWire"
  ELSE IF \E k \in DOMAIN e.lines : LET h == CallOf(e.lines[k][1]).hs[e.lines[k][2]] IN h.n \in NameBad \/ h.v \in ValueForbidden
       THEN "ForbiddenTextOnWire"
  ELSE IF \E k \in DOMAIN e.lines : CallOf(e.lines[k][1]).hs[e.lines[k][2]].n = "hop" THEN "HopByHopForwarded"
  \* A second call that was refused and whose exception the application swallowed: the current code has by then
  \* partly applied it (status, reset of the earlier headers, the headers before the offending one).  C09 only
  \* demands that the forbidden text stays off the wire, so the rest of the head is not judged in that corner.
  ELSE IF called2 /\ r2 THEN "ok"
  \* the clean status text of a call that was refused because of one of its headers, when the application swallows
  \* the refusal, is tolerated: no forbidden text reaches the wire (observation in DESIGN.md 9.4)
  ELSE IF e.who # LastAccepted /\ ~(e.who = 2 /\ r2) THEN "StatusOfReplacedCall"
  ELSE IF e.extra > 0 \/ ~e.server_ok THEN "ForeignLinesInHead"
  ELSE IF e.lines # Forwarded(LastAccepted) THEN "HeadNotExactlyAcceptedHeaders"
  ELSE "ok"

Init == tid \in 1..NT /\ l = 1 /\ r1 = FALSE /\ r2 = FALSE /\ called2 = FALSE /\ sentAt2 = 0 /\ verdict = "ok"
Step ==
  /\ verdict = "ok" /\ l <= Len(T.ev)
  /\ LET e == T.ev[l] IN
     IF e.e = "call"
     THEN /\ verdict' = CallVerdict(e)
          /\ r1' = (IF e.who = 1 THEN e.raised ELSE r1)
          /\ r2' = (IF e.who = 2 THEN e.raised ELSE r2)
          /\ called2' = (called2 \/ e.who = 2)
          /\ sentAt2' = (IF e.who = 2 THEN e.sent ELSE sentAt2)
     ELSE verdict' = HeadVerdict(e) /\ UNCHANGED <<r1, r2, called2, sentAt2>>
  /\ l' = l + 1 /\ UNCHANGED tid
Spec == Init /\ [][Step]_vars
Record == TLCSet(tid, <<verdict, l - 1>>)
Post == \A t \in 1..NT : PrintT(<<"VERDICT", t, TLCGet(t)>>)
=============================================================================
