------------------------------ MODULE Response ------------------------------
(***************************************************************************)
(* gunicorn.http.wsgi.Response and the keep-alive decision of the three    *)
(* worker families, as one program per initial state:                      *)
(*   request facts x worker policy x application program                   *)
(* Actions follow the code: StartResponse (process_headers, is_chunked),   *)
(* Write (send_headers on first use, cut to Content-Length, suppress empty *)
(* chunks), Sendfile (chunk header / data / chunk end), Close (headers if  *)
(* not yet sent, terminating chunk), Decide (should_close and what the     *)
(* worker does with the socket).  wire is the sequence of abstract         *)
(* segments the client receives.                                           *)
(* Dev: deviations of the current tree from the intended design.           *)
(***************************************************************************)
EXTENDS Naturals, Sequences, FiniteSets, TLC

CONSTANTS Dev, MaxChunks, ChunkSizes, CLs, Statuses

NoCL == 99
Workers == {"sync", "gthread", "async"}
Producers == {"iter", "write", "file", "filenofd"}

VARIABLES rq,    \* [ver: 10|11, head: BOOLEAN, conn: "none"|"close"|"keep"]
          wk,    \* [kind, ka: keepalive > 0, full: keep list full (gthread), alive]
          app,   \* [status, cl: declared Content-Length or NoCL, prod, chunks: Seq(size), off: file offset]
          pc, i, respLen, chunked, headersSent, sent, mustClose, wire, open
vars == <<rq, wk, app, pc, i, respLen, chunked, headersSent, sent, mustClose, wire, open>>

Min(a, b) == IF a < b THEN a ELSE b
RECURSIVE Sum(_)
Sum(s) == IF s = <<>> THEN 0 ELSE Head(s) + Sum(Tail(s))
SeqsUpTo(S, n) == UNION {[1..k -> S] : k \in 0..n}

NoBody == rq.head \/ app.status \in {204, 304}
ReqAskedClose == rq.conn = "close" \/ (rq.conn = "none" /\ rq.ver = 10)

(* well-behaved application (PEP 3333): declared length = produced length, *)
(* no body where none is allowed                                           *)
Produced == IF app.prod \in {"file", "filenofd"} THEN Sum(app.chunks) - Min(app.off, Sum(app.chunks))
            ELSE Sum(app.chunks)
WB == /\ (app.cl # NoCL => Produced = app.cl \/ NoBody)
      /\ (NoBody => Produced = 0)

Init ==
  /\ rq \in [ver : {10, 11}, head : BOOLEAN, conn : {"none", "close", "keep"}]
  /\ wk \in [kind : Workers, ka : BOOLEAN, full : BOOLEAN, alive : BOOLEAN]
  /\ (wk.kind # "gthread" => ~wk.full)
  /\ app \in [status : Statuses, cl : CLs \cup {NoCL}, prod : Producers,
              chunks : SeqsUpTo(ChunkSizes, MaxChunks), off : {0, 1}]
  /\ (app.prod \notin {"file", "filenofd"} => app.off = 0)
  /\ pc = "start" /\ i = 1 /\ respLen = NoCL /\ chunked = FALSE /\ headersSent = FALSE /\ sent = 0
  /\ mustClose = FALSE /\ wire = <<>> /\ open = TRUE

IsChunked == respLen = NoCL /\ rq.ver = 11 /\ ~rq.head /\ app.status \notin {204, 304}

ShouldClose ==
  \/ mustClose \/ ReqAskedClose
  \/ (respLen = NoCL /\ ~chunked /\ ~rq.head /\ app.status \notin {204, 304})

HeadSeg == [t |-> "head", conn |-> IF ShouldClose THEN "close" ELSE "keep-alive", te |-> chunked,
            cl |-> respLen]
WithHeaders(w) == IF headersSent THEN w ELSE Append(w, HeadSeg)

(* handle_request: the worker's policy, then the application calls start_response *)
StartResponse ==
  /\ pc = "start"
  /\ mustClose' = (CASE wk.kind = "sync" -> TRUE
                     [] wk.kind = "gthread" -> ~wk.alive \/ ~wk.ka \/ wk.full
                     [] OTHER -> ~wk.alive \/ ~wk.ka)
  /\ respLen' = app.cl
  /\ chunked' = (app.cl = NoCL /\ rq.ver = 11 /\ ~rq.head /\ app.status \notin {204, 304})
  /\ pc' = (IF app.prod = "file" THEN "sendfile" ELSE "body")
  /\ UNCHANGED <<rq, wk, app, i, headersSent, sent, wire, open>>

(* Response.write(chunk) for the next item of the iterable / write() call / FileWrapper block *)
Items == IF app.prod = "filenofd"
         THEN (IF Produced = 0 THEN <<>> ELSE <<Produced>>)    \* FileWrapper yields non-empty blocks
         ELSE app.chunks
Write ==
  /\ pc = "body" /\ i <= Len(Items)
  /\ LET n == Items[i]
         tosend == IF respLen # NoCL THEN Min(respLen - Min(sent, respLen), n) ELSE n
         skip == (respLen # NoCL /\ sent >= respLen) \/ (chunked /\ tosend = 0)
     IN /\ headersSent' = TRUE
        /\ IF skip THEN wire' = WithHeaders(wire) /\ UNCHANGED sent
           ELSE /\ sent' = sent + tosend
                /\ wire' = Append(WithHeaders(wire),
                                  IF chunked THEN [t |-> "chunk", n |-> tosend] ELSE [t |-> "data", n |-> tosend])
  /\ i' = i + 1
  /\ UNCHANGED <<rq, wk, app, pc, respLen, chunked, mustClose, open>>

BodyDone ==
  /\ pc = "body" /\ i > Len(Items) /\ pc' = "close"
  /\ UNCHANGED <<rq, wk, app, i, respLen, chunked, headersSent, sent, mustClose, wire, open>>

(* Response.sendfile: file with a descriptor, no TLS, sendfile enabled *)
Sendfile ==
  /\ pc = "sendfile"
  /\ LET nbytes == IF respLen = NoCL THEN Produced ELSE respLen
         avail == Min(nbytes, Produced)
         w0 == WithHeaders(wire)
         w1 == IF IsChunked
               THEN (IF nbytes = 0 /\ "SendfileEmptyChunk" \notin Dev THEN w0
                     ELSE Append(w0, [t |-> "chunk", n |-> nbytes]))
               ELSE (IF avail > 0 THEN Append(w0, [t |-> "data", n |-> avail]) ELSE w0)
     IN /\ wire' = w1
        /\ sent' = (IF "SendfileNotCounted" \in Dev THEN sent ELSE sent + avail)
  /\ headersSent' = TRUE /\ pc' = "close"
  /\ UNCHANGED <<rq, wk, app, i, respLen, chunked, mustClose, open>>

Close ==
  /\ pc = "close"
  /\ wire' = (IF chunked THEN Append(WithHeaders(wire), [t |-> "last"]) ELSE WithHeaders(wire))
  /\ headersSent' = TRUE /\ pc' = "decide"
  /\ UNCHANGED <<rq, wk, app, i, respLen, chunked, sent, mustClose, open>>

(* what the worker does with the connection afterwards *)
Decide ==
  /\ pc = "decide"
  /\ open' = (CASE wk.kind = "sync" -> FALSE
                [] wk.kind = "gthread" -> ~ShouldClose /\ wk.alive
                [] OTHER -> ~ShouldClose)
  /\ pc' = "done"
  /\ UNCHANGED <<rq, wk, app, i, respLen, chunked, headersSent, sent, mustClose, wire>>

Next == StartResponse \/ Write \/ BodyDone \/ Sendfile \/ Close \/ Decide
Spec == Init /\ [][Next]_vars /\ WF_vars(Next)

-----------------------------------------------------------------------------
Done == pc = "done"
Heads == SelectSeq(wire, LAMBDA s : s.t = "head")
BodySegs == SelectSeq(wire, LAMBDA s : s.t # "head")
H == wire[1]
DataLen(segs) == Sum([k \in DOMAIN segs |-> IF segs[k].t \in {"chunk", "data"} THEN segs[k].n ELSE 0])
Expected == IF app.cl # NoCL THEN Min(Produced, app.cl) ELSE Produced

(* C02 clauses; required of well-behaved programs *)
ExactlyOneHead == Done => Len(Heads) = 1 /\ wire[1].t = "head"
BodyEqualsAppOutputCutToCL == (Done /\ WB) => DataLen(BodySegs) = Expected
ConsistentDelimiting ==
  (Done /\ WB) =>
    /\ H.cl # NoCL => (~H.te /\ (NoBody \/ DataLen(BodySegs) = H.cl) /\ \A k \in DOMAIN BodySegs : BodySegs[k].t = "data")
    /\ H.te => /\ BodySegs # <<>> /\ BodySegs[Len(BodySegs)].t = "last"
               /\ \A k \in 1..(Len(BodySegs) - 1) : BodySegs[k].t = "chunk" /\ BodySegs[k].n > 0
    /\ (H.cl = NoCL /\ ~H.te /\ ~NoBody) => ~open
ChunkedOnlyWhenAllowed == Done => (H.te => rq.ver = 11 /\ ~NoBody /\ H.cl = NoCL)
KeepAliveOnlyIfSafe ==
  (Done /\ open) => /\ (H.cl # NoCL \/ H.te \/ NoBody)
                    /\ ~ReqAskedClose
                    /\ H.conn = "keep-alive"
NeverExceedsContentLength == (wire # <<>>) => (H.t = "head" /\ (H.cl # NoCL => DataLen(BodySegs) <= H.cl))
(* C19: bytes accounted = body bytes on the wire *)
SentEqualsWire == Done => sent = DataLen(BodySegs)
Terminates == <>Done
=============================================================================
