----------------------------- MODULE BootTrace -----------------------------
(***************************************************************************)
(* Property monitor (P) for the last clause of C03 on real processes: a    *)
(* server whose workers cannot boot (application does not import, a boot   *)
(* hook raises, the application object is missing) stops as a whole with a *)
(* distinct exit status instead of respawning the worker for ever.         *)
(*  scenario: what fails;  workers: configured number                      *)
(*  ev: {e:"exit", status: master's exit status (-1: still running when    *)
(*        the window of window_ms closed), elapsed_ms, forks: workers the  *)
(*        master started in that time}                                     *)
(*      {e:"death", master_alive, live: workers running 3 s after one of   *)
(*        them was killed by a signal, zombies: dead children not reaped}: *)
(*        a worker that boots and later dies is replaced, under whatever   *)
(*        logging / instrumentation the server was started with            *)
(* gunicorn's distinct statuses: 3 (worker failed to boot), 4 (application *)
(* failed to load).                                                        *)
(***************************************************************************)
EXTENDS Integers, Sequences, TLC, Json, IOUtils, TLCExt
Traces == ndJsonDeserialize(IOEnv.TRACE_FILE)
NT == Len(Traces)
VARIABLES tid, l, verdict
vars == <<tid, l, verdict>>
T == Traces[tid]
Distinct == {3, 4}
V(e) ==
  IF e.e = "death" THEN
     (IF ~e.master_alive THEN "MasterDiedWithWorker"
      ELSE IF e.zombies > 0 THEN "DeadWorkerNotReaped"
      ELSE IF e.live # T.workers THEN "DeadWorkerNotReplaced"
      ELSE "ok")
  ELSE IF e.status = -1 THEN "RespawnedForever"
  ELSE IF e.status \notin Distinct THEN "BootFailureWithoutDistinctStatus"
  \* every configured worker may be started (and fail) once before the master notices; a few more while it halts
  ELSE IF e.forks > 2 * T.workers + 2 THEN "RespawnLoopBeforeHalting"
  ELSE "ok"
Init == tid \in 1..NT /\ l = 1 /\ verdict = "ok"
Step == /\ verdict = "ok" /\ l <= Len(T.ev) /\ verdict' = V(T.ev[l]) /\ l' = l + 1 /\ UNCHANGED tid
Spec == Init /\ [][Step]_vars
Record == TLCSet(tid, <<verdict, l - 1>>)
Post == \A t \in 1..NT : PrintT(<<"VERDICT", t, TLCGet(t)>>)
=============================================================================
