---------------------------- MODULE EnvironCases ----------------------------
EXTENDS Environ, Json, IOUtils, FiniteSetsExt, SequencesExt
VARIABLE done
CInit == done = FALSE /\ tgt = [form |-> "star", t |-> <<>>]
CNext == done = FALSE /\ UNCHANGED tgt
         /\ done' = ndJsonSerialize(IOEnv.CASES_OUT,
                       SetToSeq({x \in [form : Forms, t : Targets(MaxLen)] : WellFormed(x)}))
CSpec == CInit /\ [][CNext]_<<done, tgt>>
=============================================================================
