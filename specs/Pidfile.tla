------------------------------ MODULE Pidfile ------------------------------
(***************************************************************************)
(* gunicorn/pidfile.py at system-call grain (C17).                         *)
(*                                                                         *)
(* Two master instances (identified by their pids 1 and 2) share a         *)
(* directory with two names "p" and "q" (the configured pid file and the   *)
(* name it is renamed to / re-opened at).  Other processes: 3 (alive, same *)
(* user: kill(3,0) succeeds), 4 (alive, other user: kill(4,0) -> EPERM),   *)
(* 5 (never alive: ESRCH).                                                 *)
(*                                                                         *)
(* File content (what the path holds):                                     *)
(*    0        absent                                                      *)
(*    1..5     exactly "<pid>\n"             (complete content)            *)
(*    11..15   names pid n-10 in another spelling ("<pid>", " <pid> \n")   *)
(*    -1       empty file                                                  *)
(*    -3       anything else (junk, truncated text, "None\n")              *)
(*                                                                         *)
(* Operations (anchors: pidfile.py create 21-44, rename 46-49, unlink      *)
(* 51-60, validate 62-85; arbiter.py reload 471-478 = unlink + new object  *)
(* + create):                                                              *)
(*   create   : vopen vprobe | mkstemp write rename close chmod            *)
(*   validate : vopen vprobe                                               *)
(*   unlink   : uopen uunlink                                              *)
(*   rename(t): unlink steps, fname := t, create steps                     *)
(*   reload(t): unlink steps, new Pidfile(t) (pid := None), create steps   *)
(* Environment: Foreign(x, c) overwrites a name, Die(p), Crash(i) kills an *)
(* instance between two system calls of an operation.                      *)
(*                                                                         *)
(* Atomic = TRUE : operations are atomic (C17's quantifier: sequences of   *)
(*   operations), only Crash can cut one short.  Atomic = FALSE: system    *)
(*   calls of different instances and environment events interleave        *)
(*   (exploratory, TOCTOU windows).                                        *)
(* Dev: named deviations from the intended design; {} for the design.      *)
(***************************************************************************)
EXTENDS Integers, Sequences, FiniteSets, TLC

CONSTANTS Atomic, MaxOps, MaxCrash, Dev, OwnStale, HistMode, CrashIn

Inst == {1, 2}
Paths == {"p", "q"}
NoTmp == -9
Names(c) == IF c \in 1..5 THEN c ELSE IF c \in 11..15 THEN c - 10 ELSE 0
ForeignContents == {3, 4, 5, 13, -1, -3} \cup (IF OwnStale THEN {1, 2} ELSE {})
CreateSteps == {"mkstemp", "write", "rename", "close", "chmod"}
CrashPcs == IF CrashIn = "create" THEN {"vopen", "vprobe"} \cup CreateSteps
            ELSE {"vopen", "vprobe", "uopen", "uunlink"} \cup CreateSteps

VARIABLES file, tmp, litter, alive, fname, mpid, pc, op, seen, vlive, stat,
          nops, ncrash, busy, last, hist
vars == <<file, tmp, litter, alive, fname, mpid, pc, op, seen, vlive, stat,
          nops, ncrash, busy, last, hist>>
view == <<file, tmp, litter, alive, fname, mpid, pc, op, seen, vlive, stat,
          nops, ncrash, busy>>

(* l: files in the directory besides the two names = abandoned + live temporary files *)
Extra == litter + Cardinality({i \in Inst : tmp[i] # NoTmp})
Proj == [p |-> file["p"], q |-> file["q"], l |-> Extra, al |-> alive,
         fn |-> <<fname[1], fname[2]>>, mp |-> <<mpid[1], mpid[2]>>]

Init ==
  /\ file = [x \in Paths |-> 0] /\ tmp = [i \in Inst |-> NoTmp] /\ litter = 0
  /\ alive = {1, 2, 3, 4}
  /\ fname = [i \in Inst |-> "p"] /\ mpid = [i \in Inst |-> 0]
  /\ pc = [i \in Inst |-> "idle"] /\ op = [i \in Inst |-> [k |-> "", to |-> "p"]]
  /\ seen = [i \in Inst |-> 0] /\ vlive = [i \in Inst |-> FALSE]
  /\ stat = [i \in Inst |-> "new"]
  /\ nops = 0 /\ ncrash = 0 /\ busy = 0
  /\ last = [a |-> "init", i |-> 0, fin |-> "", rt |-> 0] /\ hist = <<>>

(* e: [a, i, k, to, s, fin, rt, x, c]; st (projection after the step) is added here.      *)
(* fin: "" (operation goes on) | "ok" | "raised" | "crash"; rt: value returned by validate *)
Log(e) ==
  /\ last' = [a |-> e.a, i |-> e.i, fin |-> e.fin, rt |-> e.rt]
  /\ hist' = IF HistMode = "sys" \/ (HistMode = "op" /\ (e.a \notin {"start", "step"} \/ e.fin # ""))
             THEN Append(hist, e @@ [st |-> Proj']) ELSE hist

StepEv(i, s, fin, rt) == [a |-> "step", i |-> i, k |-> op[i].k, to |-> op[i].to, s |-> s,
                          fin |-> fin, rt |-> rt, x |-> "", c |-> 0]

(* ---- control helpers: every step conjoins exactly one of Fin / Go / EndU.            ---- *)
(* ---- seen / vlive (what the running operation read) are forgotten when it ends.      ---- *)
Fin(i, r) == /\ pc' = [pc EXCEPT ![i] = "idle"] /\ busy' = 0
             /\ stat' = [stat EXCEPT ![i] = IF r = "raised" THEN "failed" ELSE IF op[i].k \in {"create", "rename", "reload"} THEN "held" ELSE stat[i]]
             /\ seen' = [seen EXCEPT ![i] = 0] /\ vlive' = [vlive EXCEPT ![i] = FALSE]
Go(i, p, sn, vl) == /\ pc' = [pc EXCEPT ![i] = p] /\ UNCHANGED <<busy, stat>>
                    /\ seen' = [seen EXCEPT ![i] = sn] /\ vlive' = [vlive EXCEPT ![i] = vl]
(* validate passed: "self.pid = pid" happens before the next system call (rename: create(self.pid)) *)
SetPid(i) == mpid' = [mpid EXCEPT ![i] = IF op[i].k = "rename" THEN mpid[i] ELSE i]

(* end of the unlink steps: plain unlink finishes; rename / reload switch name and go on *)
EndU(i) ==
  IF op[i].k = "unlink"
  THEN Fin(i, "ok") /\ UNCHANGED <<fname, mpid>>
  ELSE /\ Go(i, "vopen", 0, FALSE)
       /\ fname' = [fname EXCEPT ![i] = op[i].to]
       /\ mpid' = [mpid EXCEPT ![i] = IF op[i].k = "reload" THEN 0 ELSE mpid[i]]
FinOf(i) == IF op[i].k = "unlink" THEN "ok" ELSE ""

(* ---- operation start (no system call) ---- *)
Start(i, k, to) ==
  /\ pc[i] = "idle" /\ nops < MaxOps
  /\ IF Atomic THEN busy = 0 ELSE TRUE
  /\ IF stat[i] = "failed" THEN k = "unlink" ELSE TRUE  \* a failed start only cleans up and exits
  /\ IF k = "rename" THEN stat[i] = "held" ELSE TRUE    \* rename only after a create that returned
  /\ IF k \in {"rename", "reload"} THEN TRUE ELSE to = fname[i]
  /\ op' = [op EXCEPT ![i] = [k |-> k, to |-> to]]
  /\ busy' = i /\ nops' = nops + 1
  /\ IF k = "rename" /\ "RenameNoUnlink" \in Dev
     THEN /\ pc' = [pc EXCEPT ![i] = "vopen"] /\ fname' = [fname EXCEPT ![i] = to]
     ELSE /\ pc' = [pc EXCEPT ![i] = IF k \in {"create", "validate"} THEN "vopen" ELSE "uopen"]
          /\ fname' = fname
  /\ UNCHANGED <<file, tmp, litter, alive, mpid, seen, vlive, stat, ncrash>>
  /\ Log([a |-> "start", i |-> i, k |-> k, to |-> to, s |-> "", fin |-> "", rt |-> 0, x |-> "", c |-> 0])

(* ---- validate(): open + read + int() ---- *)
VOpen(i) ==
  /\ pc[i] = "vopen"
  /\ UNCHANGED <<file, tmp, litter, alive, fname, op, nops, ncrash>>
  /\ LET c == file[fname[i]] IN
     IF Names(c) = 0
     THEN IF op[i].k = "validate"
          THEN Fin(i, "ok") /\ mpid' = mpid /\ Log(StepEv(i, "vopen", "ok", 0))
          ELSE Go(i, "mkstemp", c, FALSE) /\ SetPid(i) /\ Log(StepEv(i, "vopen", "", 0))
     ELSE Go(i, "vprobe", c, FALSE) /\ mpid' = mpid /\ Log(StepEv(i, "vopen", "", 0))

(* ---- validate(): kill(pid, 0) ---- *)
ProbeKind(n) == IF n \notin alive THEN "esrch" ELSE IF n = 4 THEN "eperm" ELSE "ok"
CodeSaysAlive(n) == IF ProbeKind(n) = "esrch" THEN "EsrchAlive" \in Dev
                    ELSE IF ProbeKind(n) = "eperm" THEN "EpermDead" \notin Dev
                    ELSE TRUE
VProbe(i) ==
  /\ pc[i] = "vprobe"
  /\ UNCHANGED <<file, tmp, litter, alive, fname, op, nops, ncrash>>
  /\ LET n == Names(seen[i]) IN
     IF CodeSaysAlive(n)
     THEN IF op[i].k = "validate"
          THEN Fin(i, "ok") /\ mpid' = mpid /\ Log(StepEv(i, "vprobe", "ok", n))
          ELSE IF n = i
          THEN Fin(i, "ok") /\ mpid' = mpid /\ Log(StepEv(i, "vprobe", "ok", 0))    \* early return (O3)
          ELSE IF "NoRaise" \in Dev
          THEN Go(i, "mkstemp", seen[i], n \in alive) /\ SetPid(i) /\ Log(StepEv(i, "vprobe", "", 0))
          ELSE Fin(i, "raised") /\ mpid' = mpid /\ Log(StepEv(i, "vprobe", "raised", 0))
     ELSE IF op[i].k = "validate"
          THEN Fin(i, "ok") /\ mpid' = mpid /\ Log(StepEv(i, "vprobe", "ok", 0))
          ELSE Go(i, "mkstemp", seen[i], n \in alive) /\ SetPid(i) /\ Log(StepEv(i, "vprobe", "", 0))

(* ---- create(): self.pid = pid; mkstemp / write / rename / close / chmod ---- *)
(* deviation "SharedTmp": a fixed temporary name (open(... O_CREAT | O_TRUNC)) instead of mkstemp: both instances
   use one temporary file (slot 1); only visible when their system calls interleave (Atomic = FALSE) *)
TmpOf(i) == IF "SharedTmp" \in Dev THEN 1 ELSE i
Mkstemp(i) ==
  /\ pc[i] = "mkstemp"
  /\ IF "DirectWrite" \in Dev
     THEN file' = [file EXCEPT ![fname[i]] = -1] /\ tmp' = tmp      \* open(path, "w") truncates
     ELSE tmp' = [tmp EXCEPT ![TmpOf(i)] = -1] /\ file' = file
  /\ Go(i, "write", seen[i], vlive[i])
  /\ UNCHANGED <<litter, alive, fname, mpid, op, nops, ncrash>>
  /\ Log(StepEv(i, "mkstemp", "", 0))

(* "%s\n" % self.pid; self.pid is None when the create before returned early (O3): "None\n" *)
Content(i) == IF mpid[i] = 0 THEN -3 ELSE mpid[i]
Write(i) ==
  /\ pc[i] = "write"
  /\ IF "DirectWrite" \in Dev
     THEN file' = [file EXCEPT ![fname[i]] = Content(i)] /\ tmp' = tmp /\ Go(i, "close", seen[i], vlive[i])
     ELSE tmp' = [tmp EXCEPT ![TmpOf(i)] = Content(i)] /\ file' = file /\ Go(i, "rename", seen[i], vlive[i])
  /\ UNCHANGED <<litter, alive, fname, mpid, op, nops, ncrash>>
  /\ Log(StepEv(i, "write", "", 0))

Rename(i) ==
  /\ pc[i] = "rename"
  /\ UNCHANGED <<litter, alive, fname, mpid, op, nops, ncrash>>
  /\ IF tmp[TmpOf(i)] = NoTmp
     THEN \* (only with SharedTmp: the other instance renamed the common temporary file away: ENOENT)
          /\ UNCHANGED <<file, tmp>> /\ Fin(i, "raised") /\ Log(StepEv(i, "rename", "raised", 0))
     ELSE /\ file' = [file EXCEPT ![fname[i]] = tmp[TmpOf(i)]] /\ tmp' = [tmp EXCEPT ![TmpOf(i)] = NoTmp]
          /\ Go(i, "close", seen[i], vlive[i])
          /\ Log(StepEv(i, "rename", "", 0))

Close(i) ==
  /\ pc[i] = "close" /\ Go(i, "chmod", seen[i], vlive[i])
  /\ UNCHANGED <<file, tmp, litter, alive, fname, mpid, op, nops, ncrash>>
  /\ Log(StepEv(i, "close", "", 0))

Chmod(i) ==
  /\ pc[i] = "chmod" /\ Fin(i, "ok")
  /\ UNCHANGED <<file, tmp, litter, alive, fname, mpid, op, nops, ncrash>>
  /\ Log(StepEv(i, "chmod", "ok", 0))

(* ---- unlink(): open + read + int(); compare; os.unlink ---- *)
UOpen(i) ==
  /\ pc[i] = "uopen"
  /\ UNCHANGED <<file, tmp, litter, alive, op, nops, ncrash>>
  /\ LET c == file[fname[i]] IN
     IF c # 0 /\ ("UnlinkNoCompare" \in Dev \/ (Names(c) # 0 /\ Names(c) = mpid[i]))
     THEN Go(i, "uunlink", c, FALSE) /\ UNCHANGED <<fname, mpid>> /\ Log(StepEv(i, "uopen", "", 0))
     ELSE EndU(i) /\ Log(StepEv(i, "uopen", FinOf(i), 0))

UUnlink(i) ==
  /\ pc[i] = "uunlink"
  /\ file' = [file EXCEPT ![fname[i]] = 0]
  /\ EndU(i)
  /\ UNCHANGED <<tmp, litter, alive, op, nops, ncrash>>
  /\ Log(StepEv(i, "uunlink", FinOf(i), 0))

(* ---- environment ---- *)
Foreign(x, c) ==
  /\ nops < MaxOps /\ (IF Atomic THEN busy = 0 ELSE TRUE)
  /\ file[x] # c
  /\ file' = [file EXCEPT ![x] = c] /\ nops' = nops + 1
  /\ UNCHANGED <<tmp, litter, alive, fname, mpid, pc, op, seen, vlive, stat, ncrash, busy>>
  /\ Log([a |-> "foreign", i |-> 0, k |-> "", to |-> "", s |-> "", fin |-> "", rt |-> 0, x |-> x, c |-> c])

Die(p) ==
  /\ p \in alive /\ nops < MaxOps /\ (IF Atomic THEN busy = 0 ELSE TRUE)
  /\ IF p \in Inst THEN pc[p] = "idle" ELSE TRUE
  /\ alive' = alive \ {p} /\ nops' = nops + 1
  /\ pc' = IF p \in Inst THEN [pc EXCEPT ![p] = "dead"] ELSE pc
  /\ UNCHANGED <<file, tmp, litter, fname, mpid, op, seen, vlive, stat, ncrash, busy>>
  /\ Log([a |-> "die", i |-> 0, k |-> "", to |-> "", s |-> "", fin |-> "", rt |-> 0, x |-> "", c |-> p])

(* the process dies just before executing the system call pc[i] stands at *)
Crash(i) ==
  /\ pc[i] \in CrashPcs /\ ncrash < MaxCrash
  /\ alive' = alive \ {i} /\ ncrash' = ncrash + 1
  /\ pc' = [pc EXCEPT ![i] = "dead"]
  /\ busy' = IF busy = i THEN 0 ELSE busy
  /\ litter' = IF tmp[i] # NoTmp /\ "SharedTmp" \notin Dev THEN litter + 1 ELSE litter
  /\ tmp' = IF "SharedTmp" \in Dev THEN tmp ELSE [tmp EXCEPT ![i] = NoTmp]
  /\ seen' = [seen EXCEPT ![i] = 0] /\ vlive' = [vlive EXCEPT ![i] = FALSE]
  /\ UNCHANGED <<file, fname, mpid, op, stat, nops>>
  /\ Log([a |-> "crash", i |-> i, k |-> op[i].k, to |-> op[i].to, s |-> pc[i], fin |-> "crash",
          rt |-> 0, x |-> "", c |-> 0])

SysStep(i) == \/ VOpen(i) \/ VProbe(i) \/ Mkstemp(i) \/ Write(i) \/ Rename(i) \/ Close(i) \/ Chmod(i)
              \/ UOpen(i) \/ UUnlink(i)

Next ==
  \/ \E i \in Inst :
       \/ \E k \in {"create", "unlink", "validate"} : Start(i, k, fname[i])
       \/ \E k \in {"rename", "reload"}, t \in Paths : Start(i, k, t)
       \/ SysStep(i)
       \/ Crash(i)
  \/ \E x \in Paths, c \in ForeignContents : Foreign(x, c)
  \/ \E p \in 1..4 : Die(p)

Spec == Init /\ [][Next]_vars
LevelBound == TLCGet("level") <= 12 * MaxOps + 4

(***************************************************************************)
(* Properties (C17)                                                        *)
(***************************************************************************)
Actor == last'.i                      \* the instance taking the step (0: environment)
ByInst == last'.a \in {"step", "start", "crash"}
LiveForeign(c, i) == Names(c) # 0 /\ Names(c) # i /\ Names(c) \in alive

TypeOK ==
  /\ \A x \in Paths : file[x] \in {0, -1, -3} \cup (1..5) \cup (11..15)
  /\ \A i \in Inst : mpid[i] \in {0, i} /\ fname[i] \in Paths

(* a create that goes on past validate saw no live foreign pid there (ground truth: alive) *)
RefusesLiveForeign ==
  \A i \in Inst : pc[i] \in CreateSteps => ~(vlive[i] /\ Names(seen[i]) \notin {0, i})

(* a create refuses only because of a live foreign pid; a completed create installed its pid *)
TakesOverStale ==
  [][(last'.a = "step" /\ last'.fin = "raised")
       => (Names(seen[Actor]) \in alive /\ Names(seen[Actor]) # Actor)]_vars
TakesOverInstalls ==
  [][\A i \in Inst : (pc[i] = "chmod" /\ pc'[i] = "idle") => file'[fname[i]] = i]_vars

(* whatever instant: a name changes only to absent or to the complete own pid *)
NeverPartialContent ==
  [][\A x \in Paths : \/ file'[x] = file[x] \/ ~ByInst
                      \/ file'[x] = 0 \/ file'[x] = Actor]_vars

(* a name disappears by i's hand only if it held i's pid at that instant *)
UnlinkOnlyOwn ==
  [][\A x \in Paths : (ByInst /\ file[x] # 0 /\ file'[x] = 0 /\ op[Actor].k = "unlink")
                         => file[x] = Actor]_vars
RenameOnlyOwn ==
  [][\A x \in Paths : (ByInst /\ file[x] # 0 /\ file'[x] = 0 /\ op[Actor].k \in {"rename", "reload"})
                         => file[x] = Actor]_vars
(* weaker forms that survive interleaving: judged by the content at i's own read *)
UnlinkOnlyOwnAtRead ==
  [][\A x \in Paths : (ByInst /\ file[x] # 0 /\ file'[x] = 0) => Names(seen[Actor]) = Actor]_vars

(* a name that names a live process other than i is never touched by i *)
NeverDeletesForeign ==
  [][\A x \in Paths : (ByInst /\ Actor \in Inst /\ LiveForeign(file[x], Actor)) => file'[x] = file[x]]_vars

(* a rename / reload that completes moved the name: the old name no longer names i *)
RenameMoves ==
  [][\A i \in Inst : (pc[i] = "chmod" /\ pc'[i] = "idle" /\ op[i].k \in {"rename", "reload"})
        => \A x \in Paths : (x # fname[i] /\ file'[x] = i) => FALSE]_vars

(* every history eventually leaves every instance idle or dead (no step blocks) *)
NoStuck == \A i \in Inst : pc[i] \notin {"idle", "dead"} => ENABLED SysStep(i)

(***************************************************************************)
(* Enumeration hook: with HistMode = "op" every distinct state is a        *)
(* distinct history; complete ones are printed as JSON for the replayer.   *)
(***************************************************************************)
=============================================================================
