----------------------------- MODULE ReloadTrace -----------------------------
(***************************************************************************)
(* Property monitor (P) for C10 on real-process runs: a client load of     *)
(* short and long requests runs while the master receives one or several   *)
(* HUPs (same bind address; the configuration file changes the number of   *)
(* workers and a marker environment variable).                             *)
(*  wk, strict: every connection must be answered (sync) / only requests   *)
(*      known to have been started (sent >= margin before the HUP and      *)
(*      still running) must be answered (other classes)                    *)
(*  ev: {e:"req", outcome: "complete"|"refused"|"reset"|"truncated"|       *)
(*        "nothing", inflight_at_hup: the request was being handled when   *)
(*        a HUP arrived}                                                   *)
(*      {e:"after", old_alive: old-generation workers still alive,         *)
(*        nworkers, want_workers, old_marker_seen: a response after the    *)
(*        settle time still carried the old marker}                        *)
(***************************************************************************)
EXTENDS Integers, Sequences, TLC, Json, IOUtils, TLCExt
Traces == ndJsonDeserialize(IOEnv.TRACE_FILE)
NT == Len(Traces)
VARIABLES tid, l, verdict
vars == <<tid, l, verdict>>
T == Traces[tid]
V(e) ==
  IF e.e = "req" THEN
     (IF e.outcome = "refused" THEN "ConnectionRefusedDuringReload"
      ELSE IF e.inflight_at_hup /\ e.outcome # "complete" THEN "StartedRequestCutByReload"
      ELSE IF T.strict /\ e.outcome # "complete" THEN "AcceptedConnectionNotAnswered"
      ELSE "ok")
  ELSE (IF e.old_alive > 0 THEN "OldWorkerStillRunning"
        ELSE IF e.nworkers # e.want_workers THEN "WrongNumberOfWorkers"
        ELSE IF e.old_marker_seen THEN "OldConfigurationStillServing"
        ELSE "ok")
Init == tid \in 1..NT /\ l = 1 /\ verdict = "ok"
Step == /\ verdict = "ok" /\ l <= Len(T.ev) /\ verdict' = V(T.ev[l]) /\ l' = l + 1 /\ UNCHANGED tid
Spec == Init /\ [][Step]_vars
Record == TLCSet(tid, <<verdict, l - 1>>)
Post == \A t \in 1..NT : PrintT(<<"VERDICT", t, TLCGet(t)>>)
=============================================================================
