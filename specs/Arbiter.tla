------------------------------- MODULE Arbiter -------------------------------
(***************************************************************************)
(* The gunicorn master (gunicorn/arbiter.py) and its kernel environment.   *)
(*                                                                         *)
(* Kernel (DESIGN 3.6): process table st/xs/got/ign, heartbeat ages lag,   *)
(* pending SIGCHLD chld, pid counter.  Time is kept as AGES (lag[p] =      *)
(* now - last heartbeat, saturating; m.rem = ticks left until the stop     *)
(* deadline) so that the idle master has finitely many states.  One tick   *)
(* = one select() timeout = one pass of the stop() wait loop.              *)
(*                                                                         *)
(* Master (DESIGN 3.7): ONE ACTION PER CODE SEGMENT BETWEEN TWO VISIBLE    *)
(* OPERATIONS (system calls and the WORKERS[pid] = worker store).  m.pc    *)
(* names the operation the master is about to perform; the action performs *)
(* it and Adv() runs the Python code that follows up to the next visible   *)
(* operation (internal labels "Loop", "MW", "MurderLoop", ... never appear *)
(* in a state).  The SIGCHLD handler Chld is enabled between any two       *)
(* master actions - i.e. at every system-call boundary, including between  *)
(* Fork and Assign and inside stop() - and may abandon the pending         *)
(* operation by raising HaltServer.                                        *)
(*                                                                         *)
(* Dev: behaviour of the current tree that deviates from the intended      *)
(* design.                                                                 *)
(*   "HbInitWallClock"  a heartbeat file that was never notify()ed carries *)
(*        the wall-clock creation time while the scan uses the monotonic   *)
(*        clock: a worker that never beat is never considered stale.       *)
(*   "ReloadRetiresByCount"  reload() spawns cfg.workers new workers and    *)
(*        then retires only the surplus by COUNT: when a new worker dies   *)
(*        inside the spawn loop an old-generation worker survives the      *)
(*        reload.  Intended design: every worker older than the reload is  *)
(*        retired.                                                         *)
(*   "ReapOnlyOne"      (mutation candidate) the handler reaps one child   *)
(*        per SIGCHLD although the signal is not queued: zombies stay.     *)
(*   "HaltEscapes"      HaltServer raised by the handler while halt()/     *)
(*        stop() is already running escapes run() (exit status 1, pid file *)
(*        left behind).                                                    *)
(***************************************************************************)
EXTENDS Integers, Sequences, FiniteSets, TLC

CONSTANTS MaxForks,      \* pids 1..MaxForks
          InitWorkers,   \* cfg.workers at start
          MaxNW,         \* TTIN is not sent beyond this target
          MaxFaults,     \* spontaneous worker deaths
          MaxHangs,      \* workers that stop making progress
          MaxSigs,       \* signals sent to the master
          Sigs,          \* subset of {"TTIN","TTOU","HUP","TERM","INT","QUIT"}
          HupW,          \* worker counts a reload may read
          HupChg,        \* subset of {0, 1}: address changed by the reload
          Statuses,      \* subset of {"ok","err","sig","b3","b4"}
          Timeout,       \* ticks, > 0
          Graceful,      \* ticks
          AutoBeat,      \* TRUE: healthy workers beat at every tick (no Beat branching)
          Dev

VARIABLES st, xs, got, ign, lag, beaten, chld, nextPid, m, faults, hangs, nsig, boot
kvars == <<st, xs, got, ign, lag, beaten, chld, nextPid>>
vars == <<st, xs, got, ign, lag, beaten, chld, nextPid, m, faults, hangs, nsig, boot>>

Pid == 1..MaxForks
Cap == Timeout + 3
Min(S) == CHOOSE x \in S : \A y \in S : x <= y
RECURSIVE Sorted(_)
Sorted(S) == IF S = {} THEN <<>> ELSE LET x == Min(S) IN <<x>> \o Sorted(S \ {x})

Live == {p \in Pid : st[p] \in {"run", "hung"}}
Zomb == {p \in Pid : st[p] = "zomb"}
Visible == {"Fork", "Assign", "Nap", "Kill", "Select", "StopSleep", "LClose", "LOpen", "Unlink",
            "Exit", "Done", "Escaped"}

Stale(p, lg) == IF "HbInitWallClock" \in Dev THEN beaten[p] /\ lg[p] > Timeout ELSE lg[p] > Timeout

(***************************************************************************)
(* The Python code between two visible operations.  s.pc is an internal    *)
(* label on entry and a visible one on return.  lg = heartbeat ages now.   *)
(***************************************************************************)
RECURSIVE Adv(_, _)
Adv(s, lg) ==
  CASE s.pc \in Visible -> s
  [] s.pc = "Loop" ->                        \* run(): sig = SIG_QUEUE.pop(0) if SIG_QUEUE else None
       IF s.sigq = <<>> THEN [s EXCEPT !.pc = "Select"]
       ELSE LET sg == Head(s.sigq)  s1 == [s EXCEPT !.sigq = Tail(s.sigq)] IN
            CASE sg[1] = "TTIN" -> Adv([s1 EXCEPT !.nw = @ + 1, !.pc = "MW", !.back = "SigDone"], lg)
              [] sg[1] = "TTOU" -> IF s1.nw <= 1 THEN Adv([s1 EXCEPT !.pc = "SigDone"], lg)
                                   ELSE Adv([s1 EXCEPT !.nw = @ - 1, !.pc = "MW", !.back = "SigDone"], lg)
              [] sg[1] = "HUP"  ->            \* reload(): app.reload(), setup(): num_workers = cfg.workers
                   LET s2 == [s1 EXCEPT !.nw = sg[2], !.chg = sg[3], !.relAge = nextPid - 1] IN
                   IF sg[3] = 1 /\ s2.lopen THEN [s2 EXCEPT !.pc = "LClose", !.lctx = "reload"]
                   ELSE Adv([s2 EXCEPT !.pc = "ReloadSpawn"], lg)
              [] sg[1] = "TERM" -> Adv([s1 EXCEPT !.pc = "Halt", !.xstat = 0, !.cause = "term"], lg)
              [] OTHER ->                     \* INT / QUIT: stop(False) inside the try, then StopIteration
                   Adv([s1 EXCEPT !.pc = "StopBegin", !.graceful = FALSE, !.after = "haltS",
                                  !.cause = "quick", !.xstat = 0], lg)
  [] s.pc = "SigDone" -> Adv([s EXCEPT !.wake = TRUE, !.pc = "Loop"], lg)       \* self.wakeup()
  [] s.pc = "Halt" -> Adv([s EXCEPT !.inhalt = TRUE, !.pc = "StopBegin", !.graceful = TRUE, !.after = "unlink"], lg)
  [] s.pc = "StopBegin" ->                    \* stop(): sock.close_sockets(self.LISTENERS, unlink)
       IF s.lopen THEN [s EXCEPT !.stopping = TRUE, !.pc = "LClose", !.lctx = "stop"]
       ELSE Adv([s EXCEPT !.stopping = TRUE, !.pc = "StopKills"], lg)
  [] s.pc = "StopKills" ->                    \* limit = time.time() + graceful_timeout; kill_workers(sig)
       Adv([s EXCEPT !.rem = Graceful, !.kl = Sorted(s.W), !.ks = IF s.graceful THEN "TERM" ELSE "QUIT",
                     !.kctx = "stop1", !.pc = "KillLoop"], lg)
  [] s.pc = "KillLoop" ->
       IF s.kl = <<>> THEN Adv([s EXCEPT !.pc = IF s.kctx = "stop1" THEN "StopWait" ELSE "StopDone"], lg)
       ELSE [s EXCEPT !.pc = "Kill", !.kp = Head(s.kl), !.kl = Tail(s.kl)]
  [] s.pc = "StopWait" ->                     \* while self.WORKERS and time.time() < limit: time.sleep(0.1)
       IF s.W # {} /\ s.rem > 0 THEN [s EXCEPT !.pc = "StopSleep"]
       ELSE Adv([s EXCEPT !.kl = Sorted(s.W), !.ks = "KILL", !.kctx = "stop2", !.pc = "KillLoop"], lg)
  [] s.pc = "StopDone" ->
       IF s.after = "haltS" THEN Adv([s EXCEPT !.pc = "Halt"], lg)              \* raise StopIteration -> halt()
       ELSE IF s.pidf THEN [s EXCEPT !.pc = "Unlink"] ELSE [s EXCEPT !.pc = "Exit"]
  [] s.pc = "MW" ->                           \* manage_workers()
       IF Cardinality(s.W) < s.nw
       THEN [s EXCEPT !.todo = s.nw - Cardinality(s.W), !.sctx = "mw", !.pc = "Fork"]
       ELSE Adv([s EXCEPT !.pc = "MWKill"], lg)
  [] s.pc = "MWKill" ->                       \* workers = sorted(self.WORKERS.items(), key=age)
       Adv([s EXCEPT !.kl = Sorted(s.W), !.ks = "TERM", !.kctx = "mw", !.pc = "MWKillLoop"], lg)
  [] s.pc = "MWKillLoop" ->                   \* while len(workers) > self.num_workers: pop(0), kill TERM
       IF Len(s.kl) > s.nw \/ (s.gen /\ s.kl # <<>> /\ Head(s.kl) <= s.relAge)
       THEN [s EXCEPT !.pc = "Kill", !.kp = Head(s.kl), !.kl = Tail(s.kl)]
       ELSE Adv([s EXCEPT !.pc = s.back, !.kl = <<>>, !.gen = FALSE], lg)
  [] s.pc = "Murder" ->                       \* murder_workers(): workers = list(self.WORKERS.items())
       Adv([s EXCEPT !.kl = Sorted(s.W), !.kctx = "murder", !.pc = "MurderLoop"], lg)
  [] s.pc = "MurderLoop" ->
       IF s.kl = <<>> THEN Adv([s EXCEPT !.pc = "MW", !.back = "Loop"], lg)
       ELSE LET p == Head(s.kl) IN
            IF p \in s.W /\ Stale(p, lg)      \* a popped worker's tmp is closed: ValueError -> continue
            THEN [s EXCEPT !.pc = "Kill", !.kp = p, !.kl = Tail(s.kl),
                           !.ks = IF p \in s.ab THEN "KILL" ELSE "ABRT", !.ab = @ \cup {p}]
            ELSE Adv([s EXCEPT !.kl = Tail(s.kl)], lg)
  [] s.pc = "ReloadSpawn" ->                  \* for _ in range(self.cfg.workers): self.spawn_worker()
       [s EXCEPT !.todo = s.nw, !.sctx = "reload", !.pc = "Fork"]
  [] OTHER -> s

(***************************************************************************)
(* Initial state: run() has called start() and enters manage_workers().    *)
(***************************************************************************)
M0 == [pc |-> "MW", W |-> {}, ab |-> {}, nw |-> InitWorkers, sigq |-> <<>>, wake |-> FALSE,
       pend |-> 0, todo |-> 0, sctx |-> "mw", kl |-> <<>>, ks |-> "TERM", kctx |-> "mw", kp |-> 0,
       back |-> "Loop", lopen |-> TRUE, lctx |-> "stop", chg |-> 0, stopping |-> FALSE,
       graceful |-> TRUE, rem |-> 0, el |-> 0, after |-> "unlink", xstat |-> 0, inhalt |-> FALSE,
       pidf |-> TRUE, relAge |-> 0, cause |-> "none", gen |-> FALSE]

Init ==
  /\ st = [p \in Pid |-> "none"] /\ xs = [p \in Pid |-> "ok"] /\ got = [p \in Pid |-> {}]
  /\ ign = [p \in Pid |-> FALSE] /\ lag = [p \in Pid |-> 0] /\ beaten = [p \in Pid |-> FALSE]
  /\ chld = FALSE /\ nextPid = 1 /\ faults = 0 /\ hangs = 0 /\ nsig = 0 /\ boot = 0
  /\ m = Adv(M0, [p \in Pid |-> 0])

Running == m.pc \notin {"Done", "Escaped"}

(***************************************************************************)
(* Master actions (visible operations)                                     *)
(***************************************************************************)
Fork ==                                       \* pid = os.fork()   (parent side)
  /\ m.pc = "Fork" /\ nextPid <= MaxForks
  /\ st' = [st EXCEPT ![nextPid] = "run"] /\ nextPid' = nextPid + 1
  /\ m' = [m EXCEPT !.pend = nextPid, !.pc = "Assign"]
  /\ UNCHANGED <<xs, got, ign, lag, beaten, chld, faults, hangs, nsig, boot>>

Assign ==                                     \* self.WORKERS[pid] = worker
  /\ m.pc = "Assign"
  /\ LET s == [m EXCEPT !.W = @ \cup {m.pend}, !.pend = 0] IN
     m' = IF s.sctx = "mw" THEN [s EXCEPT !.pc = "Nap"]
          ELSE IF s.todo > 1 THEN [s EXCEPT !.todo = @ - 1, !.pc = "Fork"]
          ELSE Adv([s EXCEPT !.todo = 0, !.pc = "MW", !.back = "SigDone",
                             !.gen = "ReloadRetiresByCount" \notin Dev], lag)
  /\ UNCHANGED <<kvars, faults, hangs, nsig, boot>>

Nap ==                                        \* time.sleep(0.1 * random.random())
  /\ m.pc = "Nap"
  /\ m' = IF m.todo > 1 THEN [m EXCEPT !.todo = @ - 1, !.pc = "Fork"]
          ELSE Adv([m EXCEPT !.todo = 0, !.pc = "MWKill"], lag)
  /\ UNCHANGED <<kvars, faults, hangs, nsig, boot>>

Kill ==                                       \* os.kill(pid, sig) and the ESRCH path of kill_worker
  /\ m.pc = "Kill"
  /\ LET p == m.kp  sig == m.ks
         esrch == st[p] \in {"none", "reaped"}
         live == st[p] \in {"run", "hung"}
         dies == live /\ (sig = "KILL" \/ (sig = "ABRT" /\ ~(st[p] = "hung" /\ ign[p])))
         s == IF esrch THEN [m EXCEPT !.W = @ \ {p}] ELSE m
     IN /\ st' = IF dies THEN [st EXCEPT ![p] = "zomb"] ELSE st
        /\ xs' = IF dies THEN [xs EXCEPT ![p] = "sig"] ELSE xs
        /\ got' = IF live /\ ~dies THEN [got EXCEPT ![p] = @ \cup {sig}] ELSE got
        /\ chld' = (chld \/ dies)
        /\ m' = Adv([s EXCEPT !.pc = CASE s.kctx = "mw" -> "MWKillLoop"
                                       [] s.kctx = "murder" -> "MurderLoop"
                                       [] OTHER -> "KillLoop"], lag)
  /\ UNCHANGED <<ign, lag, beaten, nextPid, faults, hangs, nsig, boot>>

BeatOK == \A p \in Pid : st[p] = "run" => lag[p] < Timeout
Tracked(p) == st[p] \in {"run", "hung", "zomb"} \/ p \in m.W
Aged == [p \in Pid |-> IF ~Tracked(p) THEN 0
                       ELSE IF AutoBeat /\ st[p] = "run" THEN 0
                       ELSE IF lag[p] < Cap THEN lag[p] + 1 ELSE Cap]
BeatenT == [p \in Pid |-> beaten[p] \/ (AutoBeat /\ st[p] = "run")]

SelectTimeout ==                              \* select() returns [] after 1.0 s
  /\ m.pc = "Select" /\ ~m.wake /\ ~chld /\ (AutoBeat \/ BeatOK)
  /\ lag' = Aged /\ beaten' = BeatenT
  /\ m' = Adv([m EXCEPT !.pc = "Murder"], Aged)
  /\ UNCHANGED <<st, xs, got, ign, chld, nextPid, faults, hangs, nsig, boot>>

SelectWake ==                                 \* the wake-up pipe is readable
  /\ m.pc = "Select" /\ m.wake /\ ~chld
  /\ m' = Adv([m EXCEPT !.wake = FALSE, !.pc = "Murder"], lag)
  /\ UNCHANGED <<kvars, faults, hangs, nsig, boot>>

StopSleep ==                                  \* time.sleep(0.1) in stop()
  /\ m.pc = "StopSleep" /\ ~chld /\ (AutoBeat \/ BeatOK)
  /\ lag' = Aged /\ beaten' = BeatenT
  /\ m' = Adv([m EXCEPT !.rem = @ - 1, !.el = @ + 1, !.pc = "StopWait"], Aged)
  /\ UNCHANGED <<st, xs, got, ign, chld, nextPid, faults, hangs, nsig, boot>>

LClose ==                                     \* lnr.close() for every listener
  /\ m.pc = "LClose"
  /\ m' = IF m.lctx = "reload" THEN [m EXCEPT !.lopen = FALSE, !.pc = "LOpen"]
          ELSE Adv([m EXCEPT !.lopen = FALSE, !.pc = "StopKills"], lag)
  /\ UNCHANGED <<kvars, faults, hangs, nsig, boot>>

LOpen ==                                      \* sock.create_sockets() in reload()
  /\ m.pc = "LOpen"
  /\ m' = Adv([m EXCEPT !.lopen = TRUE, !.pc = "ReloadSpawn"], lag)
  /\ UNCHANGED <<kvars, faults, hangs, nsig, boot>>

Unlink ==                                     \* halt(): self.pidfile.unlink()
  /\ m.pc = "Unlink"
  /\ m' = [m EXCEPT !.pidf = FALSE, !.pc = "Exit"]
  /\ UNCHANGED <<kvars, faults, hangs, nsig, boot>>

Exit ==                                       \* sys.exit(exit_status)
  /\ m.pc = "Exit"
  /\ m' = [m EXCEPT !.pc = "Done"]
  /\ UNCHANGED <<kvars, faults, hangs, nsig, boot>>

(***************************************************************************)
(* SIGCHLD handler: handle_chld -> reap_workers (+ wakeup)                 *)
(***************************************************************************)
Chld ==
  /\ chld /\ Running
  /\ LET Z == IF "ReapOnlyOne" \in Dev /\ Zomb # {} THEN {Min(Zomb)} ELSE Zomb   \* deviation: one waitpid() per SIGCHLD
         B == {z \in Z : xs[z] \in {"b3", "b4"}}
         ignore == m.inhalt /\ "HaltEscapes" \notin Dev      \* intended design: halting goes on
         raise == B # {} /\ ~ignore
         z0 == IF B # {} THEN Min(B) ELSE 0
         R == IF raise THEN {z \in Z : z <= z0} ELSE Z       \* reaped by this handler run
         P == IF raise THEN {z \in Z : z < z0} ELSE Z        \* popped from WORKERS
         code == IF B # {} /\ xs[z0] = "b3" THEN 3 ELSE 4
         s == [m EXCEPT !.W = @ \ P]
     IN /\ st' = [p \in Pid |-> IF p \in R THEN "reaped" ELSE st[p]]
        /\ chld' = FALSE
        /\ boot' = IF boot = 0 /\ B # {} THEN code ELSE boot
        /\ m' = IF ~raise THEN [s EXCEPT !.wake = TRUE]
                ELSE IF m.inhalt THEN [s EXCEPT !.pc = "Escaped", !.xstat = 1]
                ELSE Adv([s EXCEPT !.pc = "Halt", !.xstat = code, !.cause = "boot"], lag)
  /\ UNCHANGED <<xs, got, ign, lag, beaten, nextPid, faults, hangs, nsig>>

(***************************************************************************)
(* Environment                                                             *)
(***************************************************************************)
Die(p, x) ==
  /\ Running /\ st[p] \in {"run", "hung"} /\ faults < MaxFaults
  /\ st' = [st EXCEPT ![p] = "zomb"] /\ xs' = [xs EXCEPT ![p] = x] /\ chld' = TRUE
  /\ faults' = faults + 1
  /\ UNCHANGED <<got, ign, lag, beaten, nextPid, m, hangs, nsig, boot>>

ExitOnSig(p) ==                               \* a healthy worker obeys TERM / QUIT
  /\ Running /\ st[p] = "run" /\ got[p] \cap {"TERM", "QUIT"} # {}
  /\ st' = [st EXCEPT ![p] = "zomb"] /\ xs' = [xs EXCEPT ![p] = "ok"] /\ chld' = TRUE
  /\ UNCHANGED <<got, ign, lag, beaten, nextPid, m, faults, hangs, nsig, boot>>

Hang(p, ig) ==
  /\ Running /\ st[p] = "run" /\ hangs < MaxHangs
  /\ st' = [st EXCEPT ![p] = "hung"] /\ ign' = [ign EXCEPT ![p] = ig] /\ hangs' = hangs + 1
  /\ UNCHANGED <<xs, got, lag, beaten, chld, nextPid, m, faults, nsig, boot>>

Beat(p) ==
  /\ ~AutoBeat /\ Running /\ st[p] = "run" /\ lag[p] > 0
  /\ lag' = [lag EXCEPT ![p] = 0] /\ beaten' = [beaten EXCEPT ![p] = TRUE]
  /\ UNCHANGED <<st, xs, got, ign, chld, nextPid, m, faults, hangs, nsig, boot>>

QueuedTTIN == Cardinality({i \in 1..Len(m.sigq) : m.sigq[i][1] = "TTIN"})
SendSig(name, w, c) ==
  /\ Running /\ nsig < MaxSigs /\ name \in Sigs
  /\ name = "TTIN" => m.nw + QueuedTTIN < MaxNW
  /\ name # "HUP" => (w = 0 /\ c = 0)
  /\ name = "HUP" => (w \in HupW /\ c \in HupChg)
  /\ nsig' = nsig + 1
  /\ m' = IF Len(m.sigq) < 5 THEN [m EXCEPT !.sigq = Append(@, <<name, w, c>>), !.wake = TRUE]
          ELSE m                              \* SignalDropped
  /\ UNCHANGED <<kvars, faults, hangs, boot>>

Master == Fork \/ Assign \/ Nap \/ Kill \/ SelectTimeout \/ SelectWake \/ StopSleep \/ LClose \/ LOpen
          \/ Unlink \/ Exit
Env == \/ \E p \in Pid : \/ \E x \in Statuses : Die(p, x)
                         \/ ExitOnSig(p)
                         \/ \E ig \in BOOLEAN : Hang(p, ig)
                         \/ Beat(p)
       \/ \E name \in Sigs, w \in HupW \cup {0}, c \in {0, 1} : SendSig(name, w, c)
Next == Master \/ Chld \/ Env

Spec == /\ Init /\ [][Next]_vars
        /\ WF_vars(Master) /\ WF_vars(Chld)
        /\ \A p \in Pid : WF_vars(ExitOnSig(p)) /\ WF_vars(Beat(p))
SpecAuto == /\ Init /\ [][Next]_vars           \* AutoBeat = TRUE: no Beat actions, fewer fairness conditions
            /\ WF_vars(Master) /\ WF_vars(Chld) /\ \A p \in Pid : WF_vars(ExitOnSig(p))

LevelBound == TLCGet("level") <= 400

(***************************************************************************)
(* C03                                                                     *)
(***************************************************************************)
OutOfModel == nextPid > MaxForks /\ m.pc = "Fork"
Final == ~Running \/ OutOfModel

NoUntrackedChild ==
  m.cause # "boot" => \A p \in Pid : st[p] \in {"run", "hung", "zomb"} => (p \in m.W \/ p = m.pend)
NoZombieAtRest == (m.pc = "Select" /\ ~chld) => Zomb = {}
TargetBounds == m.nw >= 1          \* TTOU never takes the target below one (the upper bound is the environment's)
KillOnlyChildren == m.pc = "Kill" => (m.kp >= 1 /\ m.kp < nextPid)
RetireIsOldest ==
  (m.pc = "Kill" /\ m.kctx = "mw" /\ st[m.kp] \in {"run", "hung"})
     => \A q \in Live : q < m.kp => got[q] \cap {"TERM", "QUIT"} # {}
NoRespawnForever == boot # 0 => m.pc \notin {"Fork", "Assign", "Nap", "Select"}
SigQueueBound == Len(m.sigq) <= 5

Conv == Live = m.W /\ Cardinality(Live) = m.nw /\ Zomb = {} /\ \A p \in Live : st[p] = "run"
Converges == <>[](Final \/ Conv)
BootFailureHalts == (boot # 0) ~> (OutOfModel \/ (m.pc = "Done" /\ m.xstat \in {3, 4}))

(***************************************************************************)
(* C11 (master side)                                                       *)
(***************************************************************************)
MurderOnlyStale == (m.pc = "Kill" /\ m.kctx = "murder") => lag[m.kp] > Timeout
HungKilledInTime == \A p \in Pid : (st[p] = "hung" /\ ~m.stopping /\ Running) => lag[p] <= Timeout + 2
HungReplaced == \A p \in Pid : (st[p] = "hung") ~> (st[p] \in {"zomb", "reaped"} \/ Final)

(***************************************************************************)
(* C10 (master side)                                                       *)
(***************************************************************************)
ListenersUntouchedIfSameAddress == (m.pc = "LClose" /\ m.lctx = "reload") => m.chg = 1
ListenRefcountPositive == ~m.lopen => (m.stopping \/ m.pc = "LOpen")
OldWorkersOnlyTermed == (m.pc = "Kill" /\ m.kctx = "mw") => m.ks = "TERM"
SpawnBeforeRetire ==     \* an old-generation worker is retired only when a new-generation one exists
  (m.pc = "Kill" /\ m.kctx = "mw" /\ m.relAge > 0 /\ m.kp <= m.relAge /\ st[m.kp] \in {"run", "hung"}
     /\ got[m.kp] = {}) => nextPid - 1 > m.relAge
OnlyNewGeneration == <>[](Final \/ \A p \in m.W : p > m.relAge)

(***************************************************************************)
(* C04 (master side)                                                       *)
(***************************************************************************)
ByTerm == m.cause \in {"term", "quick"}
ExitStatusZeroOnTerm == (m.pc = "Done" /\ ByTerm) => m.xstat = 0
NothingLeftBehind == (m.pc = "Done" /\ ByTerm) => (Live = {} /\ ~m.lopen /\ ~m.pidf)
\* + 1: the while condition of stop() may have been evaluated just before the handler emptied WORKERS
ExitWithinGraceful == (m.stopping /\ ByTerm) => m.el <= Graceful + 1
TermIsGraceful == (m.pc = "Kill" /\ m.cause = "term" /\ m.stopping) => m.ks \in {"TERM", "KILL"}
KillAfterDeadline ==
  (m.pc = "Kill" /\ m.cause = "term" /\ m.stopping /\ m.ks = "KILL" /\ st[m.kp] \in {"run", "hung"}) => m.rem = 0
QuickShutdownDoesNotWait == (m.pc = "StopSleep" /\ m.cause = "quick") => \E p \in m.W : st[p] # "reaped"
ShutdownCompletes == (m.cause # "none") ~> Final
=============================================================================
