--------------------------- MODULE HeaderMapTrace ---------------------------
(* Judges observations of the real code (wsgi environ seen by the application, reached through the
   real handle() of a worker) against the C08 envelope of HeaderMap.tla; an observation that is
   allowed but differs from Model(case) is reported as DRIFT (conformance, not a violation). *)
EXTENDS HeaderMap, Json, IOUtils, TLCExt
Traces == ndJsonDeserialize(IOEnv.TRACE_FILE)
NT == Len(Traces)
VARIABLES tid, l, verdict
tvars == <<tid, l, verdict, case>>
T == Traces[tid]
Obs == [out |-> T.obs.out, scheme |-> T.obs.scheme, sn |-> T.obs.sn, addr |-> T.obs.addr,
        amb |-> AmbObs(T.case, T.obs.merged)]
TInit == tid \in 1..NT /\ l = 1 /\ verdict = "ok" /\ case = Base
TStep == /\ verdict = "ok" /\ l = 1 /\ l' = 2 /\ UNCHANGED <<tid, case>>
         /\ verdict' = (LET v == Envelope(T.case, Obs) IN
                        IF v # "ok" THEN v ELSE IF Obs # Model(T.case) THEN "DRIFT" ELSE "ok")
TSpec == TInit /\ [][TStep]_tvars
Record == TLCSet(tid, <<verdict, l - 1>>)
Post == \A t \in 1..NT : PrintT(<<"VERDICT", t, TLCGet(t)>>)
=============================================================================
