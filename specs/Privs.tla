------------------------------- MODULE Privs -------------------------------
(***************************************************************************)
(* C20: how a gunicorn worker gets its identity.                           *)
(*                                                                         *)
(* Kernel credential semantics (Linux) over                                *)
(*   c = [ruid, euid, suid, rgid, egid, sgid, groups]                      *)
(* for privileged (euid = 0) and unprivileged callers, and the path every  *)
(* worker takes (arbiter.py spawn_worker 588-634, workers/base.py          *)
(* init_process 86-143, util.py set_owner_process 140-156, workertmp.py    *)
(* 24-29) as a deterministic step machine over the stages                  *)
(*   tmp (master: heartbeat file + chown) -> fork -> lookup (pwd) ->       *)
(*   initgroups -> setgid -> setuid -> load (application code) -> run      *)
(*   (first heartbeat).                                                    *)
(* The machine is written as a function Stage(s, st) so that the same text *)
(* is model-checked (Next) and folded into terminal outcomes for the       *)
(* conformance cases (PrivsCases).                                         *)
(*                                                                         *)
(* Ids: 0 root, 1 the other account (www-data), 2 the account of a         *)
(* non-root master.  UG(u): groups /etc/group lists u in (not its primary  *)
(* group): account 1 is a member of group 7.                               *)
(*                                                                         *)
(* Dev: {} is the intended design.  The current tree is                    *)
(*   {"InitSkipsSetgid", "UsernameUnbound", "ZeroUnset"}  (DESIGN F13);    *)
(* mutation candidates: "UidBeforeGid", "DropAfterLoad", "NoTmpChown",     *)
(* "GidCompareInverted".                                                   *)
(***************************************************************************)
EXTENDS Integers, Sequences, FiniteSets, TLC

CONSTANT Dev

Masters == {"root", "user", "rootsplit"}   \* rootsplit: uid 0 started with effective gid 1 but real gid 0 (setegid by a supervisor)
Targets == {"unset", "same", "other", "zero"}

UG(u) == IF u = 1 THEN {7} ELSE {}
MasterCreds(m) == IF m = "root"
                  THEN [ruid |-> 0, euid |-> 0, suid |-> 0, rgid |-> 0, egid |-> 0, sgid |-> 0, groups |-> {}]
                  ELSE IF m = "rootsplit"
                  THEN [ruid |-> 0, euid |-> 0, suid |-> 0, rgid |-> 0, egid |-> 1, sgid |-> 0, groups |-> {}]
                  ELSE [ruid |-> 2, euid |-> 2, suid |-> 2, rgid |-> 2, egid |-> 2, sgid |-> 2, groups |-> {2}]
(* "unset" / "same": the master's EFFECTIVE id (what validate_user / validate_group take as the default) *)
IdU(m, t) == IF t \in {"unset", "same"} THEN MasterCreds(m).euid ELSE IF t = "other" THEN 1 ELSE 0
IdG(m, t) == IF t \in {"unset", "same"} THEN MasterCreds(m).egid ELSE IF t = "other" THEN 1 ELSE 0

(* cap: what the kernel lets a uid-0 process do: "all", or one privilege call refused with EPERM although the caller is
   uid 0 (CAP_SETUID / CAP_SETGID missing from the bounding set, a user namespace with setgroups denied) *)
Caps == {"all", "nosetuid", "nosetgid", "noinitgroups"}
Cases == [master : Masters, user : Targets, group : Targets, init : BOOLEAN, known : BOOLEAN, cap : Caps]
(* cfg.uid / cfg.gid as validate_user / validate_group deliver them: unset = the master's effective id *)
CfgU(c) == IdU(c.master, c.user)
CfgG(c) == IdG(c.master, c.group)
(* is there a passwd entry for the configured uid?  only the other account can lack one *)
Known(c) == IF c.user = "other" THEN c.known ELSE TRUE

(* ------------------------- kernel ------------------------- *)
KSetuidC(c, u, cap) ==
  IF c.euid = 0 /\ cap # "nosetuid" THEN [ok |-> TRUE, c |-> [c EXCEPT !.ruid = u, !.euid = u, !.suid = u]]
  ELSE IF u \in {c.ruid, c.suid} THEN [ok |-> TRUE, c |-> [c EXCEPT !.euid = u]]
  ELSE [ok |-> FALSE, c |-> c]
KSetgidC(c, g, cap) ==
  IF c.euid = 0 /\ cap # "nosetgid" THEN [ok |-> TRUE, c |-> [c EXCEPT !.rgid = g, !.egid = g, !.sgid = g]]
  ELSE IF g \in {c.rgid, c.sgid} THEN [ok |-> TRUE, c |-> [c EXCEPT !.egid = g]]
  ELSE [ok |-> FALSE, c |-> c]
KInitgroupsC(c, u, g, cap) ==
  IF c.euid = 0 /\ cap # "noinitgroups" THEN [ok |-> TRUE, c |-> [c EXCEPT !.groups = UG(u) \cup {g}]]
  ELSE [ok |-> FALSE, c |-> c]

(* ------------------------- machine ------------------------- *)
Order == IF "DropAfterLoad" \in Dev
         THEN <<"tmp", "fork", "load", "lookup", "initgroups", "setgid", "setuid", "run">>
         ELSE IF "UidBeforeGid" \in Dev
         THEN <<"tmp", "fork", "setuid", "lookup", "initgroups", "setgid", "load", "run">>
         ELSE <<"tmp", "fork", "lookup", "initgroups", "setgid", "setuid", "load", "run">>

S0(c) == [case |-> c, k |-> 1, m |-> MasterCreds(c.master), w |-> MasterCreds(c.master), forked |-> FALSE,
          tmpOwner |-> MasterCreds(c.master).euid, uname |-> "unbound", init |-> c.init,
          loaded |-> FALSE, atload |-> MasterCreds(c.master), eperm |-> FALSE,
          end |-> "", beat |-> FALSE, calls |-> <<>>]

(* deviation "SwallowEperm": a refused privilege call in the worker is logged and the worker carries on *)
Fail(s, how, call) ==
  IF "SwallowEperm" \in Dev /\ how = "bootfail"
  THEN [s EXCEPT !.k = Len(Order) - 1, !.eperm = TRUE, !.calls = Append(s.calls, call)]
  ELSE [s EXCEPT !.end = how, !.eperm = TRUE, !.calls = Append(s.calls, call)]
Adv(s) == [s EXCEPT !.k = s.k + 1]

(* "if gid:" -- the as-is code does nothing about groups when the configured gid is 0 *)
GidPart(s) == IF "ZeroUnset" \in Dev THEN CfgG(s.case) # 0 ELSE TRUE

Stage(s, st) ==
  LET c == s.case  u == CfgU(s.case)  g == CfgG(s.case) IN
  CASE st = "tmp" ->
         IF "NoTmpChown" \notin Dev /\ (u # s.m.euid \/ g # s.m.egid)
         THEN IF s.m.euid = 0 THEN Adv([s EXCEPT !.tmpOwner = u, !.calls = Append(s.calls, "chown")])
              ELSE Fail(s, "masterfail", "chown")
         ELSE Adv(s)
    [] st = "fork" -> Adv([s EXCEPT !.forked = TRUE, !.w = s.m])
    [] st = "lookup" ->
         IF "UsernameUnbound" \in Dev
         THEN (* as is: the name is looked up only "if gid: if uid:"; unknown uid switches initgroups off *)
              IF GidPart(s) /\ u # 0
              THEN Adv([s EXCEPT !.uname = IF Known(c) THEN "known" ELSE "unbound",
                                 !.init = s.init /\ Known(c), !.calls = Append(s.calls, "getpwuid")])
              ELSE Adv(s)
         ELSE Adv([s EXCEPT !.uname = IF Known(c) THEN "known" ELSE "none",
                            !.init = s.init /\ Known(c),
                            !.calls = IF s.init THEN Append(s.calls, "getpwuid") ELSE s.calls])
    [] st = "initgroups" ->
         IF s.init /\ GidPart(s)
         THEN IF s.uname = "unbound" THEN [s EXCEPT !.end = "bootfail", !.calls = Append(s.calls, "unbound")]
              ELSE LET r == KInitgroupsC(s.w, u, g, c.cap) IN
                   IF r.ok THEN Adv([s EXCEPT !.w = r.c, !.calls = Append(s.calls, "initgroups")])
                   ELSE Fail(s, "bootfail", "initgroups")
         ELSE Adv(s)
    [] st = "setgid" ->
         LET need == IF "InitSkipsSetgid" \in Dev
                     THEN GidPart(s) /\ ~s.init /\ (IF "GidCompareInverted" \in Dev THEN g = s.w.rgid ELSE g # s.w.rgid)
                     ELSE <<s.w.rgid, s.w.egid, s.w.sgid>> # <<g, g, g>>
         IN IF need
            THEN LET r == KSetgidC(s.w, g, c.cap) IN
                 IF r.ok THEN Adv([s EXCEPT !.w = r.c, !.calls = Append(s.calls, "setgid")])
                 ELSE Fail(s, "bootfail", "setgid")
            ELSE Adv(s)
    [] st = "setuid" ->
         LET need == IF "ZeroUnset" \in Dev THEN u # 0 /\ u # s.w.ruid
                     ELSE <<s.w.ruid, s.w.euid, s.w.suid>> # <<u, u, u>>
         IN IF need
            THEN LET r == KSetuidC(s.w, u, c.cap) IN
                 IF r.ok THEN Adv([s EXCEPT !.w = r.c, !.calls = Append(s.calls, "setuid")])
                 ELSE Fail(s, "bootfail", "setuid")
            ELSE Adv(s)
    [] st = "load" -> Adv([s EXCEPT !.loaded = TRUE, !.atload = s.w, !.calls = Append(s.calls, "load")])
    [] st = "run" ->
         (* first heartbeat: futimens with explicit times needs the owner of the file (or root) *)
         [s EXCEPT !.end = "running", !.beat = (s.w.euid = 0 \/ s.w.euid = s.tmpOwner)]

VARIABLE s
Init == \E c \in Cases : s = S0(c)
Next == s.end = "" /\ s' = Stage(s, Order[s.k])
Spec == Init /\ [][Next]_s
LevelBound == TLCGet("level") <= 12

(* terminal outcome of a case (fold of the stages), for PrivsCases *)
RECURSIVE RunFrom(_)
RunFrom(x) == IF x.end # "" THEN x ELSE RunFrom(Stage(x, Order[x.k]))
Outcome(c) == RunFrom(S0(c))

(***************************************************************************)
(* Properties                                                              *)
(***************************************************************************)
Exact(c, x) ==
  /\ x.ruid = CfgU(c) /\ x.euid = CfgU(c) /\ x.suid = CfgU(c)
  /\ x.rgid = CfgG(c) /\ x.egid = CfgG(c) /\ x.sgid = CfgG(c)
  /\ (c.init /\ Known(c) /\ c.user # "unset") => x.groups = UG(CfgU(c)) \cup {CfgG(c)}

(* application code only ever runs with exactly the configured identity *)
WorkerCredsExact == (s.loaded => Exact(s.case, s.atload)) /\ (s.end = "running" => Exact(s.case, s.w))
(* a refused drop is a failure to boot, never a worker that goes on *)
BootErrorNotSilent == s.eperm => (s.end \in {"bootfail", "masterfail"} /\ ~(s.loaded /\ ~Exact(s.case, s.atload)))
(* what the kernel permits (a privileged master) must succeed *)
PermittedDropSucceeds == (s.m.euid = 0 /\ s.case.cap = "all") => s.end \notin {"bootfail", "masterfail"}
MasterKeepsIdentity == s.m = MasterCreds(s.case.master)
HeartbeatWritable == s.end = "running" => s.beat
=============================================================================
