----------------------------- MODULE HttpTrace -----------------------------
(***************************************************************************)
(* Property monitor (P) for C01 on traces recorded from gunicorn.http.     *)
(* One trace = one concrete byte stream (built from message descriptors)   *)
(* pushed through the real RequestParser under one segmentation:           *)
(*   {ms, cut, mode, ev: [ {e:"req", start, data} ..., {e:"fin", kind} ]}  *)
(* start / data are symbol offsets recovered from byte offsets by the      *)
(* driver (-1 = not on a symbol boundary / a byte that is not body data).  *)
(* The envelope is the strict reading Strict(ms) and nothing else: it      *)
(* allows any parser that refuses more, or stops earlier.                  *)
(* Batch protocol: Init picks tid; register tid holds <<verdict, step>>.   *)
(***************************************************************************)
EXTENDS HttpStream, Json, IOUtils, TLCExt

Traces == ndJsonDeserialize(IOEnv.TRACE_FILE)
NT == Len(Traces)

VARIABLES tid, l, k, plen, pdone, ref, verdict
vars == <<tid, l, k, plen, pdone, ref, verdict>>

T == Traces[tid]
st == Strict(T.ms)
Cut == T.cut
IsPrefix(a, b) == Len(a) <= Len(b) /\ a = SubSeq(b, 1, Len(a))

Init == tid \in 1..NT /\ l = 1 /\ k = 0 /\ plen = 0 /\ pdone = FALSE /\ ref = 0 /\ verdict = "ok"

PrevComplete ==
  \* the request before the current point was consumed completely (read mode)
  k >= 1 /\ T.mode = "read" /\ st[k].end <= Cut /\ st[k].bv # "reject" => plen = Len(st[k].data)

(* a chunked body whose terminating chunk never arrived must not be handed over as if it had ended: the
   application read it to "end of file" without an error although the stream stopped in mid-body *)
PrevTruncatedButComplete ==
  k >= 1 /\ T.mode = "read" /\ pdone /\ st[k].chunked /\ st[k].bv = "ok" /\ st[k].lastdone > Cut

ReqVerdict(e) ==
  LET i == k + 1 IN
  IF i > Len(st) THEN "ExtraRequest"
  ELSE IF st[i].hv = "reject" THEN "RejectedReachedApp"
  ELSE IF e.start \notin {st[i].start, st[i].start + st[i].lead} THEN "StartOffset"
  ELSE IF st[i].hend > Cut THEN "HeadIncomplete"
  ELSE IF ~PrevComplete THEN "BodyShort"
  ELSE IF T.mode = "read" /\ ~IsPrefix(e.data, st[i].data) THEN "BodyNotStrict"
  ELSE IF T.mode = "read" /\ \E j \in DOMAIN e.data : e.data[j] > Cut THEN "BodyBeyondStream"
  ELSE "ok"

FinVerdict(e) ==
  IF PrevTruncatedButComplete THEN "TruncatedChunkedBodyDeliveredAsComplete"
  ELSE IF e.kind = "stop" /\ ~PrevComplete THEN "BodyShort"
  ELSE IF e.kind = "toomany" THEN "ExtraRequest"
  ELSE "ok"

Step ==
  /\ verdict = "ok" /\ l <= Len(T.ev)
  /\ LET e == T.ev[l] IN
     IF e.e = "req"
     THEN /\ verdict' = ReqVerdict(e) /\ k' = k + 1 /\ plen' = Len(e.data) /\ pdone' = e.done /\ UNCHANGED ref
     ELSE IF e.e = "seg"
     \* C06: e.dig identifies the complete observation (every field, body byte, trailer, end
     \* point) obtained under one segmentation of the same stream; all must be equal
     THEN /\ verdict' = (IF ref # 0 /\ e.dig # ref THEN "SegDependent" ELSE "ok")
          /\ ref' = (IF ref = 0 THEN e.dig ELSE ref) /\ UNCHANGED <<k, plen, pdone>>
     ELSE /\ verdict' = FinVerdict(e) /\ UNCHANGED <<k, plen, pdone, ref>>
  /\ l' = l + 1 /\ UNCHANGED tid

Spec == Init /\ [][Step]_vars

(* state constraint used as a hook: remember the deepest <<verdict, step>> per trace *)
Record == TLCSet(tid, <<verdict, l - 1>>)
Post == \A t \in 1..NT : PrintT(<<"VERDICT", t, TLCGet(t)>>)
=============================================================================
