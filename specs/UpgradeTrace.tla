----------------------------- MODULE UpgradeTrace -----------------------------
(***************************************************************************)
(* Real two-master histories (USR2 / TERM / QUIT to the old or the new     *)
(* master, under client load) validated against Upgrade.tla.               *)
(*  ev: {e:"op", op:"USR2"|"STOP", m:"a"|"b"|"c"}                           *)
(*      {e:"chk", alive:[names], base, two: "a"|"b"|"c"|"none"|"other",    *)
(*       sock: socket file exists, refused: connection attempts refused    *)
(*       since the previous checkpoint, nmasters}                          *)
(* Each op is the Upgrade action; the model's internal steps (Boot, Reap,  *)
(* Promote) run to quiescence before a checkpoint is compared.  The C14    *)
(* clauses are judged on the OBSERVED values alone (P); a difference from  *)
(* the model state that breaks no clause is DRIFT (C).                     *)
(***************************************************************************)
EXTENDS Upgrade, Json, IOUtils, TLCExt
Traces == ndJsonDeserialize(IOEnv.TRACE_FILE)
NT == Len(Traces)
VARIABLES tid, l, verdict
tvars == <<vars, tid, l, verdict>>
T == Traces[tid]

InternalEnabled == \E m \in M : ENABLED Boot(m) \/ ENABLED Reap(m) \/ ENABLED Promote(m)
ToSet(s) == {s[i] : i \in DOMAIN s}

Envelope(e) ==
  LET al == ToSet(e.alive) IN
  IF e.refused > 0 /\ al # {} THEN "ClientsRefusedDuringUpgrade"
  ELSE IF e.nmasters > 2 THEN "SecondUpgradeStartedWhilePending"
  ELSE IF T.unix /\ al # {} /\ ~e.sock THEN "SocketFileRemovedWhileInUse"
  ELSE IF Cardinality(al) = 2 /\ (e.base \notin al \/ e.two \notin al \/ e.base = e.two) THEN "PidFilesWrongDuringUpgrade"
  ELSE IF Cardinality(al) = 1 /\ (e.base \notin al \/ e.two # "none") THEN "PidFileNotUnderConfiguredName"
  ELSE "ok"

Matches(e) ==
  /\ ToSet(e.alive) = {m \in M : Alive(m)}
  /\ e.base = pidfile.base /\ e.two = pidfile.two
  /\ (T.unix => e.sock = sockfile)

TInit == Init /\ tid \in 1..NT /\ l = 1 /\ verdict = "ok"
TOp ==
  /\ verdict = "ok" /\ l <= Len(T.ev) /\ T.ev[l].e = "op" /\ ~InternalEnabled
  /\ LET e == T.ev[l] IN
     IF e.op = "USR2" THEN (IF ENABLED USR2(e.m) THEN USR2(e.m) ELSE UNCHANGED vars)
     ELSE (IF ENABLED Stop(e.m) THEN Stop(e.m) ELSE UNCHANGED vars)
  /\ l' = l + 1 /\ UNCHANGED <<tid, verdict>>
TInternal ==
  /\ verdict = "ok" /\ l <= Len(T.ev)
  /\ \E m \in M : Boot(m) \/ Reap(m) \/ Promote(m)
  /\ UNCHANGED <<tid, l, verdict>>
TChk ==
  /\ verdict = "ok" /\ l <= Len(T.ev) /\ T.ev[l].e = "chk" /\ ~InternalEnabled
  /\ verdict' = (LET v == Envelope(T.ev[l]) IN IF v # "ok" THEN v ELSE IF ~Matches(T.ev[l]) THEN "DRIFT" ELSE "ok")
  /\ l' = l + 1 /\ UNCHANGED <<vars, tid>>
TSpec == TInit /\ [][TOp \/ TInternal \/ TChk]_tvars
Record == TLCSet(tid, <<verdict, l - 1>>)
Post == \A t \in 1..NT : PrintT(<<"VERDICT", t, TLCGet(t)>>)
=============================================================================
