----------------------------- MODULE UpgradeTrace -----------------------------
(***************************************************************************)
(* Real two-master histories (USR2 / TERM / QUIT to the old or the new     *)
(* master, under client load) validated against Upgrade.tla.               *)
(*  ev: {e:"op", op:"USR2"|"USR2F"|"STOP"|"WINCH"|"HUP", m:"a"|"b"|"c"}    *)
(*      (USR2F: USR2 while the release on disk cannot be loaded: the new   *)
(*       master fails to boot and exits by itself)                         *)
(*      {e:"chk", alive:[names], base, two: "a"|"b"|"c"|"none"|"other",    *)
(*       sock: socket file exists, refused: connection attempts refused    *)
(*       since the previous checkpoint, nmasters, serving:[names of the    *)
(*       masters whose workers answered the probe requests]}               *)
(* Each op is the Upgrade action; the model's internal steps (Boot, Reap,  *)
(* Promote) run to quiescence before a checkpoint is compared.  The C14    *)
(* clauses are judged on the OBSERVED values alone (P); a difference from  *)
(* the model state that breaks no clause is DRIFT (C).                     *)
(***************************************************************************)
EXTENDS Upgrade, Json, IOUtils, TLCExt
Traces == ndJsonDeserialize(IOEnv.TRACE_FILE)
NT == Len(Traces)
VARIABLES tid, l, verdict
tvars == <<vars, tid, l, verdict>>
T == Traces[tid]

InternalEnabled == \E m \in M : ENABLED Boot(m) \/ ENABLED Reap(m) \/ ENABLED Promote(m)
ToSet(s) == {s[i] : i \in DOMAIN s}
(* was the last upgrade attempt made with a release that cannot boot? *)
LastUsr2Fail == LET I == {i \in 1..(l - 1) : T.ev[i].e = "op" /\ T.ev[i].op \in {"USR2", "USR2F"}} IN
                I # {} /\ T.ev[CHOOSE i \in I : \A j \in I : j <= i].op = "USR2F"

Envelope(e) ==
  LET al == ToSet(e.alive) IN
  IF e.refused > 0 /\ al # {} THEN "ClientsRefusedDuringUpgrade"
  ELSE IF e.nmasters > 2 THEN "SecondUpgradeStartedWhilePending"
  ELSE IF T.unix /\ al # {} /\ ~e.sock THEN "SocketFileRemovedWhileInUse"
  \* (T.nopid: no pid file is configured at all)
  ELSE IF ~T.nopid /\ Cardinality(al) = 2 /\ (e.base \notin al \/ e.two \notin al \/ e.base = e.two) THEN "PidFilesWrongDuringUpgrade"
  ELSE IF ~T.nopid /\ Cardinality(al) = 1 /\ (e.base \notin al \/ e.two # "none") THEN "PidFileNotUnderConfiguredName"
  \* when the last master has gone (by the operator's stop signal) the socket file it created is gone too
  ELSE IF T.unix /\ al = {} /\ e.sock /\ lastExit # "none" /\ cause[lastExit] = "op" THEN "SocketFileLeftBehind"
  \* ... and so is its pid file, under whichever of the two names
  ELSE IF ~T.nopid /\ al = {} /\ (e.base # "none" \/ e.two # "none") /\ lastExit # "none" /\ cause[lastExit] = "op" THEN "PidFileLeftBehind"
  \* judged on the operator's ops alone (cause / wantServe are history of the ops, not inferred state)
  ELSE IF \E m \in M : st[m] # "none" /\ m \notin al /\ cause[m] = "none" THEN "MasterDiedUnasked"
  ELSE IF (\E m \in al : wantServe[m]) /\ ~(\E m \in al : wantServe[m] /\ m \in ToSet(e.serving)) THEN "NotServingAfterRestore"
  \* "the old one keeps serving": every running master that is meant to serve has a live worker (e.staffed: masters
  \* seen with a booted, live worker within 1.5 s of the checkpoint - workers may be recycled meanwhile)
  ELSE IF \E m \in al : wantServe[m] /\ m \notin ToSet(e.staffed) THEN "MasterLeftWithoutWorkers"
  ELSE "ok"

Matches(e) ==
  /\ ToSet(e.alive) = {m \in M : Alive(m)}
  /\ (~T.nopid => (e.base = pidfile.base /\ e.two = pidfile.two))
  /\ (T.unix => e.sock = sockfile)
  /\ ToSet(e.serving) \subseteq {m \in M : workers[m] > 0}

TInit == Init /\ tid \in 1..NT /\ l = 1 /\ verdict = "ok"
TOp ==
  /\ verdict = "ok" /\ l <= Len(T.ev) /\ T.ev[l].e = "op" /\ ~InternalEnabled
  /\ LET e == T.ev[l] IN
     IF e.op \in {"USR2", "USR2F"} THEN (IF ENABLED USR2(e.m) THEN USR2(e.m) ELSE UNCHANGED vars)
     ELSE IF e.op = "WINCH" THEN (IF ENABLED Winch(e.m) THEN Winch(e.m) ELSE UNCHANGED vars)
     ELSE IF e.op = "HUP" THEN (IF ENABLED Hup(e.m) THEN Hup(e.m) ELSE UNCHANGED vars)
     ELSE (IF ENABLED Stop(e.m) THEN Stop(e.m) ELSE UNCHANGED vars)
  /\ l' = l + 1 /\ UNCHANGED <<tid, verdict>>
TInternal ==
  /\ verdict = "ok" /\ l <= Len(T.ev)
  /\ \E m \in M : (Boot(m) /\ ~LastUsr2Fail) \/ (BootFail(m) /\ LastUsr2Fail) \/ Reap(m) \/ Promote(m)
  /\ UNCHANGED <<tid, l, verdict>>
TChk ==
  /\ verdict = "ok" /\ l <= Len(T.ev) /\ T.ev[l].e = "chk" /\ ~InternalEnabled
  /\ verdict' = (LET v == Envelope(T.ev[l]) IN IF v # "ok" THEN v ELSE IF ~Matches(T.ev[l]) THEN "DRIFT" ELSE "ok")
  /\ l' = l + 1 /\ UNCHANGED <<vars, tid>>
TSpec == TInit /\ [][TOp \/ TInternal \/ TChk]_tvars
Record == TLCSet(tid, <<verdict, l - 1>>)
Post == \A t \in 1..NT : PrintT(<<"VERDICT", t, TLCGet(t)>>)
=============================================================================
