------------------------------- MODULE BodyIO -------------------------------
(***************************************************************************)
(* wsgi.input: gunicorn.http.body.Body (read / readline / readlines /      *)
(* iteration) over a reader that hands out the framed body in pieces of at *)
(* most the requested size (LengthReader / ChunkedReader as seen by Body). *)
(* The application is a nondeterministic program: any call with any size   *)
(* at every step.  Reference semantics FileRef = io.BytesIO over the body. *)
(* Body symbols: "x" (any byte but LF) and "n" (LF).                       *)
(***************************************************************************)
EXTENDS Naturals, Sequences, FiniteSets, TLC

CONSTANTS MaxBody,   \* bodies of length 0..MaxBody over {x, n}
          Block,     \* Body reads from its reader in blocks of this size (1024 in the code)
          Sizes,     \* size arguments; None and negative sizes are both Big... see SizeArg
          MaxCalls,
          Dev

Big == 99                   \* sys.maxsize
NoneArg == 98               \* size=None / size < 0 (both mean "no limit")
SizeArg(n) == IF n = NoneArg THEN Big ELSE n

VARIABLES body, rpos, buf, pos, ncalls, lastop, lastn, lastret, stopped
vars == <<body, rpos, buf, pos, ncalls, lastop, lastn, lastret, stopped>>

Min(a, b) == IF a < b THEN a ELSE b
From(b, i) == IF i > Len(b) THEN <<>> ELSE SubSeq(b, i, Len(b))
Upto(b, i) == IF i < 1 THEN <<>> ELSE SubSeq(b, 1, Min(i, Len(b)))
Bodies == UNION {[1..k -> {"x", "n"}] : k \in 0..MaxBody}

(* reader.read(k) at reader position rp *)
RR(rp, k) == SubSeq(body, rp + 1, Min(rp + k, Len(body)))

(* Body.read: fill the buffer from the reader, block by block *)
RECURSIVE FillTo(_, _, _)
FillTo(b, rp, size) ==
  IF size <= Len(b) THEN [b |-> b, rp |-> rp]
  ELSE LET d == RR(rp, Block) IN
       IF d = <<>> THEN [b |-> b, rp |-> rp] ELSE FillTo(b \o d, rp + Len(d), size)

BodyRead(size) ==
  IF size = 0 THEN [ret |-> <<>>, buf |-> buf, rp |-> rpos]
  ELSE IF size < Len(buf) /\ "ReadOffByOne" \notin Dev
       THEN [ret |-> Upto(buf, size), buf |-> From(buf, size + 1), rp |-> rpos]
  ELSE LET f == FillTo(buf, rpos, size) IN
       [ret |-> Upto(f.b, size), buf |-> From(f.b, size + 1), rp |-> f.rp]

FirstNL(d, lim) == LET I == {i \in 1..Min(lim, Len(d)) : d[i] = "n"}
                   IN IF I = {} THEN 0 ELSE CHOOSE i \in I : \A j \in I : i <= j

(* Body.readline *)
RECURSIVE RL(_, _, _, _)
RL(data, rp, size, acc) ==
  LET i == FirstNL(data, size)
      idx == IF i > 0 THEN i ELSE IF Len(data) >= size THEN size ELSE 0
  IN IF idx > 0
     THEN [ret |-> acc \o Upto(data, idx),
           buf |-> IF "ReadlineLosesTail" \in Dev THEN <<>> ELSE From(data, idx + 1), rp |-> rp]
     ELSE LET ns == size - Len(data)
              d == RR(rp, Min(Block, ns))
          IN IF d = <<>> THEN [ret |-> acc \o data, buf |-> <<>>, rp |-> rp]
             ELSE RL(d, rp + Len(d), ns, acc \o data)

BodyReadline(size) ==
  IF size = 0 THEN [ret |-> <<>>, buf |-> buf, rp |-> rpos] ELSE RL(buf, rpos, size, <<>>)

(* io.BytesIO over the remaining bytes *)
Rest == From(body, pos + 1)
RefRead(size) == Upto(Rest, size)
RefLine(size) == LET i == FirstNL(Rest, Len(Rest)) IN Upto(IF i > 0 THEN Upto(Rest, i) ELSE Rest, size)
RECURSIVE Lines(_)
Lines(d) == IF d = <<>> THEN <<>>
            ELSE LET i == FirstNL(d, Len(d)) IN
                 IF i = 0 THEN <<d>> ELSE <<Upto(d, i)>> \o Lines(From(d, i + 1))
RECURSIVE Flat(_)
Flat(ls) == IF ls = <<>> THEN <<>> ELSE Head(ls) \o Flat(Tail(ls))

Init == /\ body \in Bodies /\ rpos = 0 /\ buf = <<>> /\ pos = 0 /\ ncalls = 0
        /\ lastop = "none" /\ lastn = 0 /\ lastret = <<>> /\ stopped = FALSE

Call(op, n) ==
  /\ ~stopped /\ ncalls < MaxCalls
  /\ LET size == SizeArg(n)
         r == IF op = "read" THEN BodyRead(size)
              ELSE IF op \in {"readline", "next"} THEN BodyReadline(IF op = "next" THEN Big ELSE size)
              ELSE BodyRead(Big)
     IN /\ buf' = r.buf /\ rpos' = r.rp
        /\ lastret' = r.ret /\ pos' = pos + Len(r.ret)
  /\ lastop' = op /\ lastn' = n /\ ncalls' = ncalls + 1 /\ UNCHANGED <<body, stopped>>

AppStop == ~stopped /\ stopped' = TRUE /\ UNCHANGED <<body, rpos, buf, pos, ncalls, lastop, lastn, lastret>>

Next == (\E n \in Sizes : Call("read", n) \/ Call("readline", n))
        \/ Call("readlines", NoneArg) \/ Call("next", NoneArg) \/ AppStop

Spec == Init /\ [][Next]_vars

-----------------------------------------------------------------------------
(* C07 PieceMatchesFileRef as an action property: every call returns what  *)
(* a binary file over the body would return at the current position.       *)
PieceMatchesFileRef ==
  [][ncalls' = ncalls + 1 =>
       LET size == SizeArg(lastn') IN
       lastret' = (CASE lastop' = "read" -> RefRead(size)
                     [] lastop' = "readline" -> RefLine(size)
                     [] lastop' = "next" -> RefLine(Big)
                     [] OTHER -> Rest)]_vars
(* consecutive pieces, nothing lost or duplicated between Body.buf and the reader *)
NoLossNoDup == From(body, pos + 1) = buf \o From(body, rpos + 1)
NeverReadsPastBody == pos <= Len(body) /\ rpos <= Len(body)
(* EOF forever *)
EofForever == [][pos = Len(body) /\ ncalls' = ncalls + 1 => lastret' = <<>>]_vars
LevelBound == TLCGet("level") <= MaxCalls + 3
=============================================================================
