------------------------------ MODULE RespHead ------------------------------
(***************************************************************************)
(* start_response / process_headers / send_headers of wsgi.Response as a   *)
(* decision procedure over abstract string KINDS (the concretizer expands  *)
(* each kind to all its member strings/bytes).                             *)
(* Program: call 1 (status, headers); optionally the head is sent (a       *)
(* write()); optionally call 2 with or without exc_info; finally the head  *)
(* is sent if it was not.                                                  *)
(***************************************************************************)
EXTENDS Naturals, Sequences, FiniteSets, TLC

CONSTANTS Dev, MaxHdrs

StatusKinds == {"ok", "cr", "lf", "nul", "inject", "nonlatin1", "nonnumeric", "ctl"}
StatusForbidden == {"cr", "lf", "nul", "inject"}
NameKinds == {"tok", "hop", "upgrade", "cl", "sp_in", "colon_in", "cr_in", "lf_in", "nul_in", "empty", "obs_in", "paren"}
NameBad == {"sp_in", "colon_in", "cr_in", "lf_in", "nul_in", "empty", "obs_in", "paren"}
ValueKinds == {"plain", "padded", "cr", "lf", "nul", "crlf_inject", "ctl", "obs", "nonlatin1", "empty"}
ValueForbidden == {"cr", "lf", "nul", "crlf_inject"}
ValueRefused == ValueForbidden \cup {"ctl", "nonlatin1"}   \* what the design refuses (superset of forbidden)

Hdr == [n : NameKinds, v : ValueKinds]
HdrLists == UNION {[1..k -> Hdr] : k \in 0..MaxHdrs}
Call == [st : StatusKinds, hs : HdrLists]

VARIABLES c1, c2, exc, sendBetween, pc, cur, headSent, wire, raised1, raised2, called2
vars == <<c1, c2, exc, sendBetween, pc, cur, headSent, wire, raised1, raised2, called2>>

HdrBad(h) == h.n \in NameBad \/ h.v \in ValueRefused \/ (h.n = "cl" /\ h.v # "plain")
CallForbidden(c) == c.st \in StatusForbidden \/ \E k \in DOMAIN c.hs : c.hs[k].n \in NameBad \/ c.hs[k].v \in ValueForbidden
(* does start_response refuse the call? *)
Refuses(c) == \/ (c.st \in StatusForbidden /\ "StatusUnvalidated" \notin Dev)
              \/ \E k \in DOMAIN c.hs : HdrBad(c.hs[k])
(* the head cannot be encoded to latin-1: refused when the head is sent, before any byte *)
Unsendable(c) == c.st = "nonlatin1"

(* header lines forwarded for an accepted call, as indices into c.hs *)
Forwarded(c) == SelectSeq([k \in DOMAIN c.hs |-> k],
                          LAMBDA k : c.hs[k].n \in {"tok", "cl"} \/ (c.hs[k].n = "upgrade" /\ c.hs[k].v = "plain"))

NoCall == [st |-> "ok", hs |-> <<>>]
(* the second call ranges over a reduced alphabet (the first call covers the full one) *)
Hdr2 == [n : {"tok", "hop", "cr_in"}, v : {"plain", "lf", "nul"}]
Call2Set == [st : {"ok", "cr", "nonlatin1"}, hs : {<<>>} \cup {<<h>> : h \in Hdr2}]
Init ==
  /\ c1 \in Call /\ exc \in {"none", "absent", "given"}
  /\ c2 \in (IF exc = "none" THEN {NoCall} ELSE Call2Set) /\ called2 = FALSE
  /\ sendBetween \in BOOLEAN
  /\ pc = "call1" /\ cur = <<>> /\ headSent = FALSE /\ wire = <<>> /\ raised1 = FALSE /\ raised2 = FALSE

HeadOf(who, c, prev) ==
  \* what send_headers writes: the status of the accepted call and its forwarded headers; the
  \* current tree keeps the headers of the replaced call as well ("HeadersNotReset")
  [who |-> who, st |-> c.st, lines |-> prev \o [k \in DOMAIN Forwarded(c) |-> <<who, Forwarded(c)[k]>>]]

Call1 ==
  /\ pc = "call1"
  /\ IF Refuses(c1) THEN raised1' = TRUE /\ pc' = "done" /\ UNCHANGED cur
     ELSE raised1' = FALSE /\ cur' = <<HeadOf(1, c1, <<>>)>> /\ pc' = (IF sendBetween THEN "send1" ELSE "call2")
  /\ UNCHANGED <<c1, c2, exc, sendBetween, headSent, wire, raised2, called2>>

Send(next) ==
  /\ IF headSent THEN UNCHANGED <<wire, headSent>> /\ pc' = next
     ELSE IF cur[1].st = "nonlatin1" THEN pc' = "done" /\ UNCHANGED <<wire, headSent>>   \* UnicodeEncodeError, nothing sent
     ELSE wire' = cur /\ headSent' = TRUE /\ pc' = next

Send1 == pc = "send1" /\ Send("call2") /\ UNCHANGED <<c1, c2, exc, sendBetween, cur, raised1, raised2, called2>>

Call2 ==
  /\ pc = "call2"
  /\ IF exc = "none" THEN pc' = "send2" /\ UNCHANGED <<cur, raised2>>
     ELSE IF exc = "absent" THEN raised2' = TRUE /\ pc' = "done" /\ UNCHANGED cur        \* AssertionError
     ELSE IF headSent THEN raised2' = TRUE /\ pc' = "done" /\ UNCHANGED cur              \* re-raise exc_info
     ELSE IF Refuses(c2) THEN raised2' = TRUE /\ pc' = "done" /\ UNCHANGED cur
     ELSE /\ cur' = <<HeadOf(2, c2, IF "HeadersNotReset" \in Dev THEN cur[1].lines ELSE <<>>)>>
          /\ raised2' = FALSE /\ pc' = "send2"
  /\ called2' = (exc # "none")
  /\ UNCHANGED <<c1, c2, exc, sendBetween, headSent, wire, raised1>>

Send2 == pc = "send2" /\ Send("done") /\ UNCHANGED <<c1, c2, exc, sendBetween, cur, raised1, raised2, called2>>

Next == Call1 \/ Send1 \/ Call2 \/ Send2
Spec == Init /\ [][Next]_vars /\ WF_vars(Next)

-----------------------------------------------------------------------------
Done == pc = "done"
(* C09: text with CR / LF / NUL, or a non-token name, is refused before any byte of it is sent *)
RefusedBeforeAnyByte ==
  /\ (pc # "call1" /\ CallForbidden(c1)) => (raised1 /\ wire = <<>>)
  /\ (called2 /\ exc = "given" /\ CallForbidden(c2)) => (raised2 /\ (wire # <<>> => wire[1].who = 1))
(* the head is exactly the server's lines plus one line per forwarded header of the LAST accepted call *)
HeadIsExactly ==
  wire # <<>> =>
    LET w == wire[1]
        c == IF w.who = 1 THEN c1 ELSE c2
    IN /\ w.st = c.st /\ c.st \notin StatusForbidden
       /\ w.lines = [k \in DOMAIN Forwarded(c) |-> <<w.who, Forwarded(c)[k]>>]
HopByHopNotForwarded ==
  wire # <<>> => \A k \in DOMAIN wire[1].lines :
     LET ln == wire[1].lines[k]
         c == IF ln[1] = 1 THEN c1 ELSE c2
     IN c.hs[ln[2]].n # "hop"
SecondCallRules ==
  called2 =>
     /\ exc = "absent" => raised2
     /\ (exc = "given" /\ pc = "send2") => ~headSent      \* accepted only while nothing was sent
Terminates == <>Done
=============================================================================
