------------------------- MODULE PidfileRealTrace -------------------------
(***************************************************************************)
(* Property monitor (P) for C17 on a REAL master with forked workers: the  *)
(* workers inherit the master's Pidfile object; whatever happens to them   *)
(* (asked to stop, killed, recycled, replaced by a reload) the pid file    *)
(* keeps naming the running master, and a second master on the same path   *)
(* is refused.                                                             *)
(*  ev: {e:"chk", after: what just happened, master_alive, exists,         *)
(*        names_master}                                                    *)
(*      {e:"second", started: a second master on the same pid file came    *)
(*        up instead of refusing}                                          *)
(*      {e:"watch", after, partial: a reader that polled the path while a  *)
(*        daemonised master was starting (or failing to start) saw it      *)
(*        exist with something else than a complete pid record}            *)
(***************************************************************************)
EXTENDS Integers, Sequences, TLC, Json, IOUtils, TLCExt
Traces == ndJsonDeserialize(IOEnv.TRACE_FILE)
NT == Len(Traces)
VARIABLES tid, l, verdict
vars == <<tid, l, verdict>>
T == Traces[tid]
V(e) ==
  IF e.e = "chk" THEN
     (IF e.master_alive /\ ~e.exists THEN "PidFileLostWhileMasterRuns"
      ELSE IF e.master_alive /\ ~e.names_master THEN "PidFileNamesSomeoneElse"
      ELSE IF ~e.master_alive /\ e.exists /\ e.names_master THEN "PidFileLeftBehind"
      ELSE "ok")
  ELSE IF e.e = "watch" THEN (IF e.partial THEN "PartialContentSeen" ELSE "ok")
  ELSE (IF e.started THEN "SecondMasterNotRefused" ELSE "ok")
Init == tid \in 1..NT /\ l = 1 /\ verdict = "ok"
Step == /\ verdict = "ok" /\ l <= Len(T.ev) /\ verdict' = V(T.ev[l]) /\ l' = l + 1 /\ UNCHANGED tid
Spec == Init /\ [][Step]_vars
Record == TLCSet(tid, <<verdict, l - 1>>)
Post == \A t \in 1..NT : PrintT(<<"VERDICT", t, TLCGet(t)>>)
=============================================================================
