------------------------------ MODULE SyncLoop ------------------------------
(***************************************************************************)
(* The main loop of the sync worker (gunicorn/workers/sync.py run 115-127, *)
(* run_for_one 58-88, run_for_multiple 90-113, wait 32-56, accept 26-30):  *)
(* one step per code segment between two system calls.  With one listener  *)
(* the worker accepts until EAGAIN and only then selects; with several it  *)
(* selects first and visits every ready listener.                          *)
(*                                                                         *)
(*   pc: "top"   while self.alive: ...                                     *)
(*       "beat"  self.notify()                                             *)
(*       "acc"   (one listener) accept -> handle | EAGAIN                  *)
(*       "par"   if not self.is_parent_alive(): return                     *)
(*       "sel"   self.wait(timeout)  (notify(), then select on the          *)
(*               listeners + PIPE)                                         *)
(*       "loop"  (several) for listener in ready: if not self.alive: break *)
(*       "lbeat" self.notify() of the loop body                            *)
(*       "lacc"  accept(listener) -> handle | EAGAIN                       *)
(*       "done"  run() returned                                            *)
(* Environment: Connect(l) (a client lands in l's backlog), Term (TERM /    *)
(* max_requests set alive = False), ParentDies.                            *)
(* Dev:                                                                    *)
(*   "AcceptAllReady"    the loop over the ready listeners does not look   *)
(*        at self.alive (the tree before fix 3209457)                      *)
(*   "NoBeatPerListener" no notify() inside that loop (before 733fedc)     *)
(***************************************************************************)
EXTENDS Integers, Sequences, FiniteSets, TLC

CONSTANTS NL,        \* number of listeners (1: run_for_one)
          MaxConn,   \* connections the environment makes in all
          MaxReq,    \* max_requests (0: unset)
          Dev

L == 1..NL
Multi == NL > 1

VARIABLE s
(* s.q[l] backlog of l; s.alive; s.pok (the parent is alive); s.pc; s.ready (what select returned), s.rd (index);  *)
(* s.nr requests handled; s.since: blocking operations (a handled request, a select) since the last notify();      *)
(* s.made connections made; history: s.late = connections accepted after alive had become False                    *)

S0 == [q |-> [l \in L |-> 0], alive |-> TRUE, pok |-> TRUE, pc |-> "top", ready |-> <<>>, rd |-> 1, nr |-> 0,
       since |-> 0, made |-> 0, late |-> 0]

Handle(x, l) ==      \* accept() returned a connection of l: handle(); the counting rule of handle_request
  LET n == x.nr + 1 IN
  [x EXCEPT !.q[l] = @ - 1, !.nr = n, !.since = @ + 1, !.late = IF x.alive THEN @ ELSE @ + 1,
            !.alive = IF MaxReq > 0 /\ n >= MaxReq THEN FALSE ELSE @]

(* ---- the loop, one step each ---- *)
Top(x) == IF x.alive THEN [x EXCEPT !.pc = "beat"] ELSE [x EXCEPT !.pc = "done"]
Beat(x) == [x EXCEPT !.since = 0, !.pc = IF Multi THEN "sel" ELSE "acc"]
Acc(x) ==            \* one listener
  IF x.q[1] > 0 THEN [Handle(x, 1) EXCEPT !.pc = "top"]
  ELSE [x EXCEPT !.pc = "par"]
Par(x) == IF ~x.pok THEN [x EXCEPT !.pc = "done"]
          ELSE [x EXCEPT !.pc = IF Multi THEN "top" ELSE "sel"]
(* select returns: r = the ready listeners in listener order (<<>>: timeout, or the wake-up pipe only) *)
(* wait() itself calls notify() just before the select *)
Sel(x, r) == [x EXCEPT !.since = 1, !.ready = r, !.rd = 1,
                       !.pc = IF Multi THEN "loop" ELSE "top"]
Loop(x) ==           \* several listeners: next ready listener, or out of the loop
  IF x.rd > Len(x.ready) \/ (~x.alive /\ "AcceptAllReady" \notin Dev) THEN [x EXCEPT !.pc = "par"]
  ELSE [x EXCEPT !.pc = IF "NoBeatPerListener" \in Dev THEN "lacc" ELSE "lbeat"]
LBeat(x) == [x EXCEPT !.since = 0, !.pc = "lacc"]
LAcc(x) == LET l == x.ready[x.rd] IN
           IF x.q[l] > 0 THEN [Handle(x, l) EXCEPT !.rd = @ + 1, !.pc = "loop"]
           ELSE [x EXCEPT !.rd = @ + 1, !.pc = "loop"]

ReadySeq(x) == LET R == {l \in L : x.q[l] > 0} IN
               [i \in 1..Cardinality(R) |-> CHOOSE l \in R : Cardinality({k \in R : k < l}) = i - 1]

Worker ==
  \/ s.pc = "top" /\ s' = Top(s)
  \/ s.pc = "beat" /\ s' = Beat(s)
  \/ s.pc = "acc" /\ s' = Acc(s)
  \/ s.pc = "par" /\ s' = Par(s)
  \/ s.pc = "sel" /\ s' = Sel(s, ReadySeq(s))          \* (<<>>: the timeout; a later connection is a Connect after this step)
  \/ s.pc = "loop" /\ s' = Loop(s)
  \/ s.pc = "lbeat" /\ s' = LBeat(s)
  \/ s.pc = "lacc" /\ s' = LAcc(s)

Connect(l) == s.made < MaxConn /\ s.pc # "done" /\ s' = [s EXCEPT !.q[l] = @ + 1, !.made = @ + 1]
Term == s.alive /\ s.pc # "done" /\ s' = [s EXCEPT !.alive = FALSE]
ParentDies == s.pok /\ s.pc # "done" /\ s' = [s EXCEPT !.pok = FALSE]

Init == s = S0
Next == Worker \/ (\E l \in L : Connect(l)) \/ Term \/ ParentDies
Spec == Init /\ [][Next]_s /\ WF_s(Worker)

(***************************************************************************)
(* Properties                                                              *)
(***************************************************************************)
(* C11, worker side: at most one blocking operation between two heartbeats *)
BeatBeforeEveryBlockingOp == s.since <= 1
(* C04 / C10 / C18: once the worker was told to stop, at most the connection whose accept() was already under way is
   taken off a listen queue (the stop request may arrive between the test of self.alive and the accept) *)
AtMostOneAcceptAfterStop == s.late <= 1
(* C18: the limit counts *)
StopsAtLimit == MaxReq > 0 => s.nr <= MaxReq
TypeOK == s.pc \in {"top", "beat", "acc", "par", "sel", "loop", "lbeat", "lacc", "done"} /\ s.since \in 0..(NL + 2)
(* a worker whose parent died, or that was told to stop, leaves its loop *)
Leaves == ((~s.pok) \/ (~s.alive)) ~> s.pc = "done"
(* while it runs, a queued connection is taken *)
Served == \A l \in L : (s.q[l] > 0) ~> (s.q[l] = 0 \/ s.pc = "done" \/ ~s.alive \/ ~s.pok)
=============================================================================
