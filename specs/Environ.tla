------------------------------- MODULE Environ -------------------------------
(***************************************************************************)
(* The CGI / PEP 3333 mapping request -> environ (RFC 3875 4.1, PEP 3333)  *)
(* over symbolic request targets and header lists: an executable reference *)
(* written from the RFCs, used to enumerate the bounded target space and   *)
(* to judge the environ the real code hands to the application.            *)
(*                                                                         *)
(* target symbols (as sent):  a  /  pct_ascii(%41)  pct_high(%E9)          *)
(*   pct_2f(%2F)  pct_25(%25)  pct_bad(%zz)  raw_high(byte E9)  ;  +  ht   *)
(*   q (the first one is the query delimiter "?")                          *)
(* forms: origin ("/" + symbols), dslash ("//" + symbols),                 *)
(*        abs ("http://h/" + symbols), star ("*"),                         *)
(*        absempty ("http://h" + query only: the path of the target is     *)
(*        empty, and so is PATH_INFO),                                     *)
(*        mount ("/m/" + symbols with SCRIPT_NAME configured as "/m"),     *)
(*        mounth (the same, SCRIPT_NAME given by the SCRIPT_NAME header of *)
(*        a permitted forwarder: loopback or unix-socket peer)             *)
(* byte tokens (decoded): a A / % hi ; + ht z ?                            *)
(***************************************************************************)
EXTENDS Naturals, Sequences, FiniteSets, TLC

Syms == {"a", "/", "pct_ascii", "pct_high", "pct_2f", "pct_25", "pct_bad", "raw_high", ";", "+", "ht", "q"}
Forms == {"origin", "dslash", "abs", "absempty", "star", "mount", "mounth"}
(* length of SCRIPT_NAME as configured for the worker (raw_env / process environment) *)
ScriptLen(form) == IF form \in {"mount", "mounth"} THEN 2 ELSE 0

Decode(s) == CASE s = "a" -> <<"a">> [] s = "/" -> <<"/">> [] s = "pct_ascii" -> <<"A">> [] s = "pct_high" -> <<"hi">>
               [] s = "pct_2f" -> <<"/">> [] s = "pct_25" -> <<"%">> [] s = "pct_bad" -> <<"%", "z", "z">>
               [] s = "raw_high" -> <<"hi">> [] s = ";" -> <<";">> [] s = "+" -> <<"+">> [] s = "ht" -> <<"ht">>
               [] OTHER -> <<"?">>

FirstQ(t) == LET I == {i \in DOMAIN t : t[i] = "q"} IN IF I = {} THEN Len(t) + 1 ELSE CHOOSE i \in I : \A j \in I : i <= j
PathSyms(t) == SubSeq(t, 1, FirstQ(t) - 1)
QuerySyms(t) == IF FirstQ(t) > Len(t) THEN <<>> ELSE SubSeq(t, FirstQ(t) + 1, Len(t))

RECURSIVE DecodeAll(_)
DecodeAll(t) == IF t = <<>> THEN <<>> ELSE Decode(Head(t)) \o DecodeAll(Tail(t))

(* PATH_INFO: the percent-decoded path, one latin-1 character per byte, after the configured SCRIPT_NAME *)
ExpectedPath(form, t) ==
  CASE form = "star" -> <<"*">>
    [] form = "absempty" -> <<>>
    [] form = "dslash" -> <<"/", "/">> \o DecodeAll(PathSyms(t))
    [] OTHER -> <<"/">> \o DecodeAll(PathSyms(t))
(* QUERY_STRING: as sent, not decoded *)
ExpectedQuery(form, t) == IF form = "star" THEN <<>> ELSE QuerySyms(t)

(* HTTP_* variables: values of repeated fields joined with commas, in order; hdrs = Seq(<<name id, value id>>) *)
ExpectedVar(hdrs, n) == SelectSeq([i \in DOMAIN hdrs |-> IF hdrs[i][1] = n THEN hdrs[i][2] ELSE 0], LAMBDA v : v # 0)

Targets(n) == UNION {[1..k -> Syms] : k \in 0..n}
CONSTANT MaxLen
VARIABLE tgt
WellFormed(x) == (x.form = "star" => x.t = <<>>) /\ (x.form = "absempty" => PathSyms(x.t) = <<>>)
Init == tgt \in [form : Forms, t : Targets(MaxLen)] /\ WellFormed(tgt)
Next == UNCHANGED tgt
Spec == Init /\ [][Next]_tgt
(* sanity of the reference itself *)
PathLenIsDecodedBytes ==
  Len(ExpectedPath(tgt.form, tgt.t)) >= (IF tgt.form = "dslash" THEN 2 ELSE IF tgt.form = "absempty" THEN 0 ELSE 1)
QueryNeverDecoded == \A i \in DOMAIN ExpectedQuery(tgt.form, tgt.t) : ExpectedQuery(tgt.form, tgt.t)[i] \in Syms
SplitIsPartition ==
  tgt.form # "star" => (PathSyms(tgt.t) \o (IF FirstQ(tgt.t) > Len(tgt.t) THEN <<>> ELSE <<"q">> \o QuerySyms(tgt.t))) = tgt.t
=============================================================================
