------------------------------ MODULE HttpGen ------------------------------
(***************************************************************************)
(* Stream families: the bounded spaces Init of HttpParse ranges over and   *)
(* that the conformance driver replays into gunicorn.http (the same sets   *)
(* are emitted as NDJSON by HttpCases).                                    *)
(***************************************************************************)
EXTENDS HttpStream

NoPad == [rl |-> 0, h |-> 0, c |-> 0, t |-> 0]
Mk(rl, hs, fr, n, cs, last, trl, pad) ==
  [px |-> "none", rl |-> rl, hdrs |-> hs, fr |-> fr, n |-> n, chunks |-> cs, last |-> last, trl |-> trl, pad |-> pad]
WithPx(m, px) == [m EXCEPT !.px = px]

Follower == Mk("RL11", <<>>, "none", 0, <<>>, "none", <<>>, NoPad)
Ch(sz) == [sz |-> sz, n |-> SizeVal(sz), term |-> TRUE, junk |-> 0]

(* the body a strict sender would lay out after this head *)
Canon(rl, hs, pad) ==
  LET m0 == Mk(rl, hs, "none", 0, <<>>, "none", <<>>, pad)
  IN IF HeadVerdict(m0) = "reject" THEN m0
     ELSE IF HeadFraming(m0) = "len" THEN Mk(rl, hs, "len", HeadCL(m0), <<>>, "none", <<>>, pad)
     ELSE IF HeadFraming(m0) = "chunked" THEN Mk(rl, hs, "chunked", 0, <<Ch("S1")>>, "Z0", <<>>, pad)
     ELSE m0

Full(s) == [ms |-> s, cut |-> Len(FlatAll(s))]
AllCuts(s) == {[ms |-> s, cut |-> c] : c \in 0..Len(FlatAll(s))}

Seq01(K) == {<<>>} \cup {<<a>> : a \in K}
Seq2(K) == {<<a, b>> : a \in K, b \in K}

(* every head of <= 1 header line, each request-line kind, with a follower *)
Heads1 == {Full(<<Canon(rl, hs, NoPad), Follower>>) : rl \in RLAll, hs \in Seq01(HdrKinds)}
(* every ordered pair of header lines on HTTP/1.1 and HTTP/1.0 *)
Heads2 == {Full(<<Canon(rl, hs, NoPad), Follower>>) : rl \in RLOk, hs \in Seq2(HdrKinds)}
(* triples over the framing-relevant kinds *)
FrKinds == {"CL1", "CL2", "CLbad", "TEchunked", "TEgzipchunked", "TEgzip", "TEidentity", "TEempty",
            "TEpyws", "ConnClose", "ConnKeep", "Under"}
Heads3 == {Full(<<Canon("RL11", <<a, b, c>>, NoPad), Follower>>) : a \in FrKinds, b \in FrKinds, c \in FrKinds}

(* chunk layouts *)
GoodChunks == {Ch(sz) : sz \in SizeOk \cup SizeDontCare}
BadChunks == {[sz |-> sz, n |-> 0, term |-> FALSE, junk |-> 0] : sz \in SizeBad}
             \cup {[sz |-> "S1", n |-> 1, term |-> FALSE, junk |-> 0], [sz |-> "S2", n |-> 2, term |-> FALSE, junk |-> 0]}
(* malformed chunks laid out so that a lenient reader would carry on: a size only int(x, 16) accepts
   followed by its data, and two junk bytes where the CRLF after the data should be *)
LenientChunks == {[sz |-> "Sbad1", n |-> 1, term |-> TRUE, junk |-> 0],
                  [sz |-> "S1", n |-> 1, term |-> FALSE, junk |-> 2], [sz |-> "S2", n |-> 2, term |-> FALSE, junk |-> 2]}
TrlSet == {<<>>, <<"Plain">>, <<"BadName">>, <<"CL1">>, <<"TEchunked">>, <<"ObsFold">>, <<"Plain", "Plain">>,
           <<"Under">>, <<"NulVal">>}
ChunkedMsg(cs, last, trl) == Mk("RL11", <<"TEchunked">>, "chunked", 0, cs, last, trl, NoPad)
Chunks ==
  {Full(<<ChunkedMsg(cs, last, trl), Follower>>) :
       cs \in Seq01(GoodChunks) \cup Seq2(GoodChunks), last \in LastOk, trl \in TrlSet}
  \cup {Full(<<ChunkedMsg(cs \o <<b>>, "none", <<>>), Follower>>) :
       cs \in Seq01(GoodChunks), b \in BadChunks}
  \cup {Full(<<ChunkedMsg(cs \o <<b>> \o cs2, "Z0", <<>>), Follower>>) :
       cs \in Seq01(GoodChunks), b \in LenientChunks, cs2 \in Seq01({Ch("S1")})}

(* pipelines of three messages *)
PipeMsgs == {Follower,
             Canon("RL11", <<"CL2">>, NoPad),
             Canon("RL11", <<"CL0">>, NoPad),
             ChunkedMsg(<<Ch("S2")>>, "Z0", <<>>),
             ChunkedMsg(<<Ch("S1"), Ch("S1ext")>>, "Z0ext", <<"Plain">>),
             Canon("RL11", <<"ConnClose">>, NoPad),
             Canon("RL10", <<>>, NoPad),
             Canon("RL10", <<"ConnKeep", "CL1">>, NoPad),
             Canon("RL11", <<"TEgzip", "CL1">>, NoPad),
             Canon("RL11", <<"CL1", "TEchunked">>, NoPad)}
Pipeline == {Full(<<a, b, c>>) : a \in PipeMsgs, b \in PipeMsgs, c \in PipeMsgs}

(* truncation (EOF) at every offset *)
TruncBase == {<<Canon("RL11", <<"CL2">>, NoPad), Follower>>,
              <<Canon("RL11", <<"Plain", "CL3">>, NoPad), Canon("RL11", <<"CL1">>, NoPad)>>,
              <<ChunkedMsg(<<Ch("S2"), Ch("S1")>>, "Z0", <<"Plain">>), Follower>>,
              <<ChunkedMsg(<<Ch("S1")>>, "Z0", <<>>), Canon("RL11", <<"CL1">>, NoPad)>>,
              <<ChunkedMsg(<<>>, "Z00", <<>>), Follower>>}
Trunc == UNION {AllCuts(s) : s \in TruncBase}

(* limits: padded lines, many fields, streams that never send the delimiter *)
PadSet == {[rl |-> a, h |-> b, c |-> 0, t |-> 0] : a \in 0..4, b \in 0..3}
Limits ==
  {Full(<<Canon("RL11", hs, p), Follower>>) :
       p \in PadSet, hs \in {<<>>, <<"Plain">>, <<"Plain", "Plain">>, <<"Plain", "Plain", "Plain">>,
                             <<"Under", "Under", "Under">>, <<"Plain", "CL2">>, <<"Under", "Plain", "Under", "Plain">>}}
  \cup UNION {AllCuts(<<Canon("RL11", hs, [rl |-> a, h |-> b, c |-> 0, t |-> 0])>>) :
       a \in {0, 8}, b \in {0, 12}, hs \in {<<>>, <<"Plain">>, <<"Plain", "Plain", "Plain", "Plain", "Plain", "Plain">>}}
(* endless chunk-size line / trailer block *)
Endless ==
  UNION {AllCuts(<<Mk("RL11", <<"TEchunked">>, "chunked", 0, <<Ch("S1")>>, "Z0", trl,
                      [rl |-> 0, h |-> 0, c |-> c, t |-> t])>>) :
         c \in {0, 14}, t \in {0, 14}, trl \in {<<>>, <<"Plain">>, <<"Plain", "Plain", "Plain", "Plain", "Plain", "Plain">>}}

(* PROXY protocol preamble: enabled / not enabled, well-formed / malformed, on the first and on a later message,
   with a padded request line behind it (limits apply there too) *)
ProxyFam ==
  {Full(<<WithPx(Canon(rl, hs, [rl |-> p, h |-> 0, c |-> 0, t |-> 0]), px1), WithPx(m2, px2)>>) :
       rl \in RLAll, hs \in {<<>>, <<"CL1">>, <<"TEchunked">>}, p \in {0, 4}, px1 \in {"none", "on_ok", "on_bad", "off_ok"},
       m2 \in {Follower, Canon("RL11", <<"CL2">>, NoPad)}, px2 \in {"none", "on_ok"}}
  \cup UNION {AllCuts(<<WithPx(Canon("RL11", <<"CL1">>, [rl |-> p, h |-> 0, c |-> 0, t |-> 0]), "on_ok"), Follower>>) : p \in {0, 6}}

(* bodies that spell a request, behind every method-like request line kind, with and without keep-alive *)
EmbedMsg(rl, hs) == Mk(rl, <<"CL5">> \o hs, "embed", 5, <<>>, "none", <<>>, NoPad)
EmbedFam == {Full(<<EmbedMsg(rl, hs), Follower>>) : rl \in RLOk, hs \in {<<>>, <<"ConnKeep">>, <<"Plain">>}}
            \cup {Full(<<Follower, EmbedMsg("RL11", <<>>), EmbedMsg("RL11", <<"ConnKeep">>), Follower>>)}

(* empty lines before the first and before a later request line, behind every body framing, cut at every offset *)
BlankFam ==
  {Full(<<WithPx(m1, b1), WithPx(m2, b2)>>) :
       m1 \in {Follower, Canon("RL11", <<"CL2">>, NoPad), ChunkedMsg(<<Ch("S1")>>, "Z0", <<>>), Canon("RLbad", <<>>, NoPad),
               ChunkedMsg(<<Ch("S1")>>, "Z0", <<"Plain">>)},
       m2 \in {Follower, Canon("RL11", <<"CL1">>, NoPad)}, b1 \in {"none", "blank1", "blank2"}, b2 \in {"none", "blank1", "blank2"}}
  \cup UNION {AllCuts(<<WithPx(Canon("RL11", <<"CL1">>, NoPad), b), WithPx(Follower, b)>>) : b \in {"blank1", "blank2"}}

Cases(f) == CASE f = "embed" -> EmbedFam [] f = "blank" -> BlankFam [] f = "proxy" -> ProxyFam [] f = "heads1" -> Heads1 [] f = "heads2" -> Heads2 [] f = "heads3" -> Heads3
              [] f = "chunks" -> Chunks [] f = "pipeline" -> Pipeline [] f = "trunc" -> Trunc
              [] f = "limits" -> Limits [] f = "endless" -> Endless
              [] f = "quick" -> Heads1 \cup Chunks \cup Trunc
              [] OTHER -> {}

ASSUME \A f \in {"heads1", "chunks", "trunc"} : \A c \in Cases(f) : \A i \in DOMAIN c.ms : WellLaidOut(c.ms[i])
=============================================================================
