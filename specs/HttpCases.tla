----------------------------- MODULE HttpCases -----------------------------
(* Emits a stream family of HttpGen as NDJSON (one case per line) so that  *)
(* the conformance driver replays exactly the space TLC explored.          *)
EXTENDS HttpGen, Json, IOUtils, FiniteSetsExt, SequencesExt
CONSTANT Family
VARIABLE done
Cs == SetToSeq(Cases(Family))
Init == done = FALSE
Next == done = FALSE /\ done' = ndJsonSerialize(IOEnv.CASES_OUT, Cs)
Spec == Init /\ [][Next]_done
=============================================================================
