---------------------------- MODULE ArbiterTrace ----------------------------
(***************************************************************************)
(* Property monitor (P) for the master process: C03, C10, C11, C04 (master *)
(* side).  One trace = one execution of the real Arbiter.run() on the      *)
(* simulated kernel (harness/drivers/simos_kernel.py):                     *)
(*   {cfg: {nw, to, gr, T, unix, pidfile, jit, prop},                      *)
(*    ev:  << <<name, p, a, b, now, num_workers, qlen>>, ... >>}           *)
(* master operations: fork p / assign p age / untrack p / kill p sig res / *)
(*   wait p status / select / sleep / lopen n / lclose i / cfgread /       *)
(*   exit|escape|end (last event: p = pid file exists, a = status,         *)
(*   b = unix socket file exists, qlen slot = run was long enough)         *)
(* environment: die p status / hang p kind / beat p / sig payload num      *)
(*   queued / chld / chldret / tail                                        *)
(* The monitor keeps its own kernel model (process table, heartbeats,      *)
(* listeners, requested target) and states the properties as an ENVELOPE   *)
(* over these observable events only: any master that reaps in another     *)
(* order, calls waitpid more often, retires workers one by one ... is      *)
(* accepted.  Verdicts are total; the verdict is the name of the first     *)
(* failing clause of the property named in cfg.prop ("ALL" = every one).   *)
(***************************************************************************)
EXTENDS Integers, Sequences, FiniteSets, TLC, Json, IOUtils, TLCExt

Traces == ndJsonDeserialize(IOEnv.TRACE_FILE)
NT == Len(Traces)

VARIABLES tid, l, verdict,
          ps,        \* process table: sequence (index = pid) of records
          W,         \* pids the master tracks (assign / untrack)
          tg,        \* requested number of workers (fold over the accepted signals)
          mode,      \* first accepted terminating signal: 0 none, 15 TERM, 2 INT, 3 QUIT
          bf,        \* first boot-failure exit code reaped (3 / 4), 0 none
          stopT,     \* time the shutdown began (first close of a listener outside a reload), -1
          nopen,     \* listeners open
          pend,      \* SIGCHLD pending
          rl,        \* reload: config read, listener phase not finished
          hupq,      \* payloads of accepted HUPs whose config has not been read yet
          rel,       \* last reload: [age, chg, nt, told] (forks before it, address changed, new target, old termed)
          lastDeath  \* time of the last death of a child
vars == <<tid, l, verdict, ps, W, tg, mode, bf, stopT, nopen, pend, rl, hupq, rel, lastDeath>>

T == Traces[tid]
C == T.cfg
En(prop) == prop = "ANY" \/ C.prop = "ALL" \/ C.prop = prop

TERM == 15  QUIT == 3  KILL == 9  ABRT == 6  INT == 2  HUP == 1  TTIN == 21  TTOU == 22
StopSigs == {TERM, QUIT, KILL, ABRT}

Min(S) == CHOOSE x \in S : \A y \in S : x <= y
Max2(a, b) == IF a >= b THEN a ELSE b

\* clause list -> name of the first enabled failing clause
Fail(cs) == LET bad == {i \in 1..Len(cs) : En(cs[i][2]) /\ ~cs[i][3]}
            IN IF bad = {} THEN "ok" ELSE cs[Min(bad)][1]

Pids == 1..Len(ps)
Live == {p \in Pids : ps[p].st \in {"run", "hung"}}
Zomb == {p \in Pids : ps[p].st = "zomb"}
Known(p) == p >= 1 /\ p <= Len(ps)
\* shutting down: listeners closed outside a reload, or a boot failure has been reaped (halt)
Stopping == stopT >= 0 \/ bf # 0
Ghosts == {p \in W : p <= Len(ps) /\ ps[p].ghost}     \* C03's business (fork/assign window)
Slack == 2 * C.T + C.jit
ExitCode(status) == status \div 256

NewProc(now) == [st |-> "run", hb |-> now, nb |-> 0, sent |-> {}, ign |-> FALSE, ghost |-> FALSE]

Init == /\ tid \in 1..NT /\ l = 1 /\ verdict = "ok"
        /\ ps = <<>> /\ W = {} /\ tg = Traces[tid].cfg.nw /\ mode = 0 /\ bf = 0 /\ stopT = -1
        /\ nopen = 0 /\ pend = FALSE /\ rl = FALSE /\ hupq = <<>>
        /\ rel = [age |-> -1, chg |-> 0, nt |-> 0, told |-> 0, live |-> FALSE] /\ lastDeath = 0

(* C11, no missed kill: evaluated at every event *)
HungOverdue(now) == {p \in Pids : ps[p].st = "hung" /\ now - ps[p].hb > C.to + Slack}
TimeClauses(now) ==
  << <<"HungKilledInTime", "C11", Stopping \/ HungOverdue(now) = {}>> >>

Keep == UNCHANGED <<ps, W, tg, mode, bf, stopT, nopen, pend, rl, hupq, rel, lastDeath>>

Fork(e) ==
  LET p == e[2] IN
  /\ verdict' = Fail(<< <<"BadTrace", "ANY", p = Len(ps) + 1>>,
                        <<"NoRespawnForever", "C03", bf = 0>> >>)
  /\ ps' = Append(ps, NewProc(e[5]))
  /\ rl' = FALSE
  /\ UNCHANGED <<W, tg, mode, bf, stopT, nopen, pend, hupq, rel, lastDeath>>

Assign(e) ==
  LET p == e[2] IN
  /\ verdict' = Fail(<< <<"BadTrace", "ANY", Known(p)>> >>)
  /\ W' = W \cup {p}
  /\ ps' = IF Known(p) /\ ps[p].st = "reaped" THEN [ps EXCEPT ![p].ghost = TRUE] ELSE ps
  /\ UNCHANGED <<tg, mode, bf, stopT, nopen, pend, rl, hupq, rel, lastDeath>>

Untrack(e) ==
  LET p == e[2] IN
  /\ verdict' = Fail(<< <<"BadTrace", "ANY", Known(p)>>,
                        \* "no child is left untracked": only a reaped child may be forgotten
                        <<"UntrackOnlyDead", "C03", IF Known(p) THEN ps[p].st = "reaped" ELSE TRUE>> >>)
  /\ W' = W \ {p}
  /\ UNCHANGED <<ps, tg, mode, bf, stopT, nopen, pend, rl, hupq, rel, lastDeath>>

Kill(e) ==
  LET p == e[2]  sig == e[3]  res == e[4]  now == e[5]
      known == Known(p)
      st == IF known THEN ps[p].st ELSE "none"
      live == st \in {"run", "hung"}
      hit == res = 0 /\ live
      stale == known /\ now - ps[p].hb > C.to
      termed(q) == ps[q].sent \cap StopSigs # {}
      olderLive == {q \in Live : q < p /\ ~termed(q)}
      inReload == rel.age >= 0 /\ ~Stopping
      oldGen == inReload /\ p <= rel.age /\ known /\ ~termed(p) /\ sig = TERM
      forkedNew == Len(ps) - rel.age
      dies == hit /\ (sig = KILL \/ (sig = ABRT /\ ~(st = "hung" /\ ps[p].ign)))
  IN
  /\ verdict' = Fail(<<
       <<"KillOnlyChildren", "C03", known>>,
       <<"BadTrace", "ANY", ~known \/ (res = 1) = (st = "reaped")>>,
       \* surplus workers are asked to stop oldest-first
       <<"RetireIsOldest", "C03", ~(hit /\ sig = TERM /\ ~Stopping) \/ olderLive = {}>>,
       \* the timeout scan only signals workers whose heartbeat is older than the timeout
       <<"MurderOnlyStale", "C11", ~(hit /\ sig \in {ABRT, KILL} /\ ~Stopping) \/ stale>>,
       \* a hung worker is aborted first and killed only if it ignores that
       <<"AbortBeforeKill", "C11", ~(hit /\ sig = KILL /\ ~Stopping) \/ ABRT \in ps[p].sent>>,
       \* while serving (reload included) a healthy worker only ever gets TERM
       <<"OldOnlyTermed", "C10", ~(hit /\ ~Stopping /\ sig \in {QUIT, ABRT, KILL}) \/ (sig # QUIT /\ stale)>>,
       \* reload: an old worker is retired only when its replacement has been forked
       <<"SpawnBeforeRetire", "C10", ~(hit /\ oldGen /\ rl = FALSE /\ rel.live) \/
                                      (rel.told + 1 <= forkedNew \/ forkedNew >= rel.nt)>>,
       \* graceful stop: TERM, and KILL only after the graceful timeout
       <<"TermIsGraceful", "C04", ~(hit /\ Stopping /\ mode = TERM /\ bf = 0) \/ sig # QUIT>>,
       <<"KillBeforeDeadline", "C04", ~(hit /\ Stopping /\ mode = TERM /\ bf = 0 /\ sig = KILL)
                                       \/ now >= stopT + C.gr>>,
       \* quick stop: workers are not given the chance to finish (QUIT / KILL first)
       <<"QuickUsesQuit", "C04", ~(hit /\ Stopping /\ mode \in {INT, QUIT} /\ bf = 0 /\ sig = TERM)
                                  \/ ps[p].sent \cap {QUIT, KILL} # {}>>
       >> \o TimeClauses(now))
  /\ ps' = IF ~hit THEN ps
           ELSE [ps EXCEPT ![p].sent = @ \cup {sig}, ![p].st = IF dies THEN "zomb" ELSE @]
  /\ pend' = (pend \/ dies)
  /\ lastDeath' = IF dies THEN now ELSE lastDeath
  /\ rel' = IF hit /\ oldGen THEN [rel EXCEPT !.told = @ + 1] ELSE rel
  /\ rl' = FALSE
  /\ UNCHANGED <<W, tg, mode, bf, stopT, nopen, hupq>>

Wait(e) ==
  LET p == e[2]  status == e[3]  code == ExitCode(status) IN
  IF p <= 0 THEN verdict' = Fail(TimeClauses(e[5])) /\ Keep
  ELSE /\ verdict' = Fail(<< <<"BadTrace", "ANY", Known(p) /\ (IF Known(p) THEN ps[p].st = "zomb" ELSE TRUE)>> >>)
       /\ ps' = IF Known(p) THEN [ps EXCEPT ![p].st = "reaped"] ELSE ps
       /\ bf' = IF bf = 0 /\ code \in {3, 4} THEN code ELSE bf
       /\ rl' = IF code \in {3, 4} THEN FALSE ELSE rl        \* HaltServer interrupts a reload
       /\ UNCHANGED <<W, tg, mode, stopT, nopen, pend, hupq, rel, lastDeath>>

Select(e) ==
  /\ verdict' = Fail(<<
       \* at rest every child the kernel still knows is tracked ...
       <<"NoUntrackedChild", "C03", \A p \in Pids : ps[p].st \in {"run", "hung", "zomb"} => p \in W>>,
       \* ... no zombie is left once the SIGCHLD handler has run ...
       <<"NoZombieAtRest", "C03", pend \/ Zomb = {}>>,
       \* ... and a boot failure is not survived
       <<"BootFailureHalts", "C03", bf = 0>> >> \o TimeClauses(e[5]))
  /\ rl' = FALSE
  /\ rel' = [rel EXCEPT !.live = FALSE]
  /\ UNCHANGED <<ps, W, tg, mode, bf, stopT, nopen, pend, hupq, lastDeath>>

Lopen(e) == /\ verdict' = "ok" /\ nopen' = nopen + e[3]
            /\ UNCHANGED <<ps, W, tg, mode, bf, stopT, pend, rl, hupq, rel, lastDeath>>

Lclose(e) ==
  /\ verdict' = Fail(<<
       \* reload with an unchanged address never closes a listener
       <<"ListenersUntouchedOnReload", "C10", ~rl \/ rel.chg = 1>>,
       \* outside a reload the listeners are closed only to shut down
       <<"ListenerClosedWhileServing", "C10", rl \/ mode # 0 \/ bf # 0>> >>)
  /\ nopen' = nopen - 1
  /\ stopT' = IF ~rl /\ stopT < 0 THEN e[5] ELSE stopT
  /\ UNCHANGED <<ps, W, tg, mode, bf, pend, rl, hupq, rel, lastDeath>>

CfgRead(e) ==
  /\ verdict' = Fail(<< <<"BadTrace", "ANY", Len(hupq) > 0>> >>)
  /\ IF Len(hupq) > 0
     THEN /\ rel' = [age |-> Len(ps), chg |-> Head(hupq) \div 10, nt |-> Head(hupq) % 10, told |-> 0, live |-> TRUE]
          /\ hupq' = Tail(hupq)
     ELSE UNCHANGED <<rel, hupq>>
  /\ rl' = TRUE
  /\ UNCHANGED <<ps, W, tg, mode, bf, stopT, nopen, pend, lastDeath>>

Die(e) ==
  LET p == e[2] IN
  /\ verdict' = Fail(<< <<"BadTrace", "ANY", Known(p) /\ (IF Known(p) THEN ps[p].st \in {"run", "hung"} ELSE TRUE)>> >>)
  /\ ps' = IF Known(p) THEN [ps EXCEPT ![p].st = "zomb"] ELSE ps
  /\ pend' = TRUE /\ lastDeath' = e[5]
  /\ UNCHANGED <<W, tg, mode, bf, stopT, nopen, rl, hupq, rel>>

Hang(e) ==
  LET p == e[2] IN
  /\ verdict' = Fail(<< <<"BadTrace", "ANY", Known(p)>> >>)
  /\ ps' = IF Known(p) THEN [ps EXCEPT ![p].st = "hung", ![p].ign = (e[3] = 2)] ELSE ps
  /\ UNCHANGED <<W, tg, mode, bf, stopT, nopen, pend, rl, hupq, rel, lastDeath>>

Beat(e) ==
  LET p == e[2] IN
  /\ verdict' = Fail(<< <<"BadTrace", "ANY", Known(p)>> >>)
  /\ ps' = IF Known(p) THEN [ps EXCEPT ![p].hb = e[5], ![p].nb = @ + 1] ELSE ps
  /\ UNCHANGED <<W, tg, mode, bf, stopT, nopen, pend, rl, hupq, rel, lastDeath>>

Sig(e) ==
  LET pay == e[2]  num == e[3]  queued == e[4] = 1  q == e[7]
      count == queued /\ mode = 0 IN
  /\ verdict' = Fail(<< <<"DropOnlyWhenFull", "C03", queued \/ q >= 5>> >>)
  /\ tg' = IF ~count THEN tg
           ELSE IF num = TTIN THEN tg + 1
           ELSE IF num = TTOU THEN (IF tg > 1 THEN tg - 1 ELSE tg)
           ELSE IF num = HUP THEN pay % 10 ELSE tg
  /\ hupq' = IF queued /\ num = HUP THEN Append(hupq, pay) ELSE hupq
  /\ mode' = IF count /\ num \in {TERM, INT, QUIT} THEN num ELSE mode
  /\ UNCHANGED <<ps, W, bf, stopT, nopen, pend, rl, rel, lastDeath>>

Chld(e) == /\ verdict' = "ok" /\ pend' = FALSE
           /\ UNCHANGED <<ps, W, tg, mode, bf, stopT, nopen, rl, hupq, rel, lastDeath>>

(* the run ended with the master still running (quiescent tail elapsed) *)
End(e) ==
  LET decided == e[7] = 1  nw == e[6]
      serving == mode = 0 /\ bf = 0
      gen == rel.age >= 0
  IN
  /\ verdict' = IF ~decided THEN "ok" ELSE Fail(<<
       <<"BootFailureHalts", "C03", bf = 0>>,
       <<"ShutdownCompletes", "C04", bf # 0 \/ mode = 0>>,
       <<"NoZombieLeft", "C03", ~serving \/ Zomb = {}>>,
       <<"Converged", "C03", ~serving \/ (Live = W /\ Cardinality(Live) = nw)>>,
       <<"TargetIsRequested", "C03", ~serving \/ nw = tg>>,
       <<"HungReplaced", "C11", ~serving \/ ({p \in Live : ps[p].st = "hung"} = {}
                                              /\ (Cardinality(Live) = nw \/ Ghosts # {}))>>,
       <<"OnlyNewGenerationAfterReload", "C10", ~(serving /\ gen) \/ \A p \in Live : p > rel.age>>,
       <<"NewNumberAfterReload", "C10", ~(serving /\ gen) \/ ((Cardinality(Live) = tg \/ Ghosts # {}) /\ nw = tg)>>,
       <<"ListenersOpenWhileServing", "C10", ~serving \/ nopen > 0>> >>)
  /\ Keep

(* the master process ended: exit(status) or an exception escaping run() (status 1) *)
Exit(e, escaped) ==
  LET pf == e[2]  status == e[3]  us == e[4]  now == e[5]
      byTerm == mode # 0 /\ bf = 0
      quick == mode \in {INT, QUIT}
      jit == C.jit
  IN
  /\ verdict' = Fail(<<
       <<"BootFailureHalts", "C03", bf = 0 \/ (~escaped /\ status \in {3, 4})>>,
       <<"UnexpectedExit", "C03", bf # 0 \/ mode # 0>>,
       \* a master that ends without having been told to (and without a boot failure) has stopped supervising / serving:
       \* nothing is replaced, reloaded or listened to any more
       <<"MasterExitedUnasked", "C10", bf # 0 \/ mode # 0>>,
       <<"MasterExitedUnasked", "C11", bf # 0 \/ mode # 0>>,
       <<"ExitStatusZeroOnTerm", "C04", ~byTerm \/ (~escaped /\ status = 0)>>,
       <<"NoWorkerSurvives", "C04", ~byTerm \/ Live = {}>>,
       <<"ListenersClosed", "C04", ~byTerm \/ nopen = 0>>,
       <<"PidfileRemoved", "C04", ~byTerm \/ pf = 0>>,
       <<"UnixSocketRemoved", "C04", ~byTerm \/ us = 0>>,
       <<"ExitWithinGraceful", "C04", ~byTerm \/ stopT < 0 \/ now <= stopT + C.gr + 2 + jit>>,
       <<"QuickShutdownDoesNotWait", "C04", ~(byTerm /\ quick) \/ stopT < 0
                                             \/ now <= Max2(stopT, lastDeath) + 2 + jit>> >>)
  /\ Keep

Step ==
  /\ verdict = "ok" /\ l <= Len(T.ev)
  /\ LET e == T.ev[l]  n == e[1] IN
       CASE n = "fork" -> Fork(e)
         [] n = "assign" -> Assign(e)
         [] n = "untrack" -> Untrack(e)
         [] n = "kill" -> Kill(e)
         [] n = "wait" -> Wait(e)
         [] n = "select" -> Select(e)
         [] n = "lopen" -> Lopen(e)
         [] n = "lclose" -> Lclose(e)
         [] n = "cfgread" -> CfgRead(e)
         [] n = "die" -> Die(e)
         [] n = "hang" -> Hang(e)
         [] n = "beat" -> Beat(e)
         [] n = "sig" -> Sig(e)
         [] n = "chld" -> Chld(e)
         [] n = "end" -> End(e)
         [] n = "exit" -> Exit(e, FALSE)
         [] n = "escape" -> Exit(e, TRUE)
         [] OTHER -> verdict' = Fail(TimeClauses(e[5])) /\ Keep      \* sleep, chldret, tail
  /\ l' = l + 1 /\ UNCHANGED tid

Spec == Init /\ [][Step]_vars

Record == TLCSet(tid, <<verdict, l - 1>>)
Post == \A t \in 1..NT : PrintT(<<"VERDICT", t, TLCGet(t)>>)
=============================================================================
