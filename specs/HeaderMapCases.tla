--------------------------- MODULE HeaderMapCases ---------------------------
EXTENDS HeaderMap, Json, IOUtils, FiniteSetsExt, SequencesExt
VARIABLE done
CInit == done = FALSE /\ case = CHOOSE c \in Cases : TRUE
CNext == done = FALSE /\ done' = ndJsonSerialize(IOEnv.CASES_OUT, SetToSeq(Cases)) /\ UNCHANGED case
CSpec == CInit /\ [][CNext]_<<done, case>>
=============================================================================
