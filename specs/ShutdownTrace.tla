---------------------------- MODULE ShutdownTrace ----------------------------
(***************************************************************************)
(* Property monitor (P) for C04 (worker / client side) on real-process     *)
(* runs: clients are put into a chosen phase of a connection's life, the   *)
(* master is sent TERM (or INT / QUIT), clients then carry on.             *)
(*  sig       "TERM" | "INT" | "QUIT";  graceful_ms, slack_ms              *)
(*  ev: {e:"client", phase, started: the worker had started reading the    *)
(*        request when the signal arrived, appfin: "within"|"overrun"|     *)
(*        "never" (application time vs graceful timeout) | "late" (inside  *)
(*        the graceful timeout but later than --timeout after the signal), *)
(*        outcome: "complete"|"truncated"|"reset"|"nothing"|"refused"}     *)
(*      {e:"exit", status, elapsed_ms}                                     *)
(*      {e:"after", workers, listening, pidfile, sockfile}                 *)
(***************************************************************************)
EXTENDS Integers, Sequences, TLC, Json, IOUtils, TLCExt
Traces == ndJsonDeserialize(IOEnv.TRACE_FILE)
NT == Len(Traces)
VARIABLES tid, l, verdict
vars == <<tid, l, verdict>>
T == Traces[tid]
V(e) ==
  IF e.e = "client" THEN
     (IF T.sig = "TERM" /\ e.started /\ e.appfin \in {"within", "late"} /\ e.outcome # "complete" THEN "StartedRequestNotAnswered"
      ELSE "ok")
  ELSE IF e.e = "exit" THEN
     (IF e.status # 0 THEN "ExitStatusNotZero"
      ELSE IF T.sig = "TERM" /\ e.elapsed_ms > T.graceful_ms + T.slack_ms THEN "ExitedLaterThanGracefulTimeout"
      ELSE IF T.sig # "TERM" /\ e.elapsed_ms > T.slack_ms THEN "QuickShutdownWaited"
      ELSE "ok")
  ELSE (IF e.workers > 0 THEN "WorkerSurvived"
        ELSE IF e.listening THEN "ListeningSocketStillOpen"
        ELSE IF e.pidfile THEN "PidFileLeftBehind"
        ELSE IF e.sockfile THEN "SocketFileLeftBehind"
        ELSE "ok")
Init == tid \in 1..NT /\ l = 1 /\ verdict = "ok"
Step == /\ verdict = "ok" /\ l <= Len(T.ev) /\ verdict' = V(T.ev[l]) /\ l' = l + 1 /\ UNCHANGED tid
Spec == Init /\ [][Step]_vars
Record == TLCSet(tid, <<verdict, l - 1>>)
Post == \A t \in 1..NT : PrintT(<<"VERDICT", t, TLCGet(t)>>)
=============================================================================
