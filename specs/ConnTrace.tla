------------------------------ MODULE ConnTrace ------------------------------
(***************************************************************************)
(* Property monitor (P) for C05 on connections served by the REAL handle() *)
(* of a worker class from a scripted socket.  One trace = one connection:  *)
(*   ms, cut  the stream as message descriptors (HttpStream) when it was   *)
(*            generated from the grammar (oracle = 1), else empty, and     *)
(*   maxapp   how many of the stream's requests may reach the application  *)
(*   fault    "none" | "recv" | "send": the client reset while the server  *)
(*            was reading / stopped accepting bytes while it was writing   *)
(*   ev: {e:"resp", kind:"app"|"error"|"junk"|"partial", status, close: the head says          *)
(*        Connection: close, clok: Content-Length = body length}           *)
(*       {e:"end", closed, escaped, appcalls, appfail: application calls   *)
(*        out of which an exception propagated (a body framing error seen  *)
(*        by wsgi.input), alive, next_ok, sent_requests: complete requests  *)
(*        the client sent (-1: not recorded)}                              *)
(* The wire is read by the independent strict response reader.             *)
(***************************************************************************)
EXTENDS HttpStream, Json, IOUtils, TLCExt

Traces == ndJsonDeserialize(IOEnv.TRACE_FILE)
NT == Len(Traces)
VARIABLES tid, l, napp, nerr, errstatus, verdict
vars == <<tid, l, napp, nerr, errstatus, verdict>>
T == Traces[tid]

(* number of leading messages a strict reader accepts completely (oracle streams) *)
RECURSIVE LeadingOk(_, _)
LeadingOk(st, i) == IF i > Len(st) THEN Len(st)
                    ELSE IF st[i].hv = "reject" \/ st[i].hend > T.cut THEN i - 1 ELSE LeadingOk(st, i + 1)
MaxApp == IF T.oracle = 1 THEN LeadingOk(Strict(T.ms), 1) ELSE T.maxapp

RespVerdict(e) ==
  IF nerr > 0 THEN "SomethingAfterErrorReply"
  ELSE IF e.kind = "junk" THEN "MalformedReply"
  ELSE IF e.kind = "partial" THEN (IF T.fault = "send" THEN "ok" ELSE "TruncatedReply")
  ELSE IF e.kind = "error" THEN
       (IF e.status < 400 \/ e.status > 599 THEN "ErrorReplyNot4xx5xx"
        ELSE IF ~e.close THEN "ErrorReplyWithoutConnectionClose"
        ELSE IF ~e.clok THEN "ErrorReplyMalformed"
        ELSE "ok")
  ELSE "ok"

EndVerdict(e) ==
  IF e.escaped THEN "ExceptionEscapedHandle"
  ELSE IF ~e.alive THEN "WorkerStopped"
  ELSE IF ~e.closed THEN "ConnectionLeftOpen"
  ELSE IF e.appcalls > MaxApp THEN "RejectedRequestReachedApplication"
  ELSE IF nerr = 1 /\ e.appcalls - e.appfail > napp THEN "RejectedRequestReachedApplication"
  ELSE IF e.sent_requests >= 0 /\ napp > e.sent_requests THEN "ReplyWithoutRequest"
  ELSE IF ~e.next_ok THEN "NextConnectionNotServed"
  ELSE "ok"

Init == tid \in 1..NT /\ l = 1 /\ napp = 0 /\ nerr = 0 /\ errstatus = 0 /\ verdict = "ok"
Step ==
  /\ verdict = "ok" /\ l <= Len(T.ev)
  /\ LET e == T.ev[l] IN
     IF e.e = "resp"
     THEN /\ verdict' = RespVerdict(e)
          /\ napp' = napp + (IF e.kind \in {"app", "partial"} THEN 1 ELSE 0)
          /\ nerr' = nerr + (IF e.kind = "error" THEN 1 ELSE 0)
          /\ errstatus' = (IF e.kind = "error" THEN e.status ELSE errstatus)
     ELSE verdict' = EndVerdict(e) /\ UNCHANGED <<napp, nerr, errstatus>>
  /\ l' = l + 1 /\ UNCHANGED tid
Spec == Init /\ [][Step]_vars
Record == TLCSet(tid, <<verdict, l - 1>>)
Post == \A t \in 1..NT : PrintT(<<"VERDICT", t, TLCGet(t)>>)
=============================================================================
