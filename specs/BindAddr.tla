------------------------------ MODULE BindAddr ------------------------------
(* What a `bind` setting means: gunicorn/util.py parse_address, character   *)
(* by character.  A bind string is a sequence of one-character strings; the *)
(* model enumerates the strings that can be put together from at most       *)
(* MaxLen pieces (the prefixes the function looks for, brackets, colons,    *)
(* a host with an upper-case letter, digits, the characters Python's int()  *)
(* treats specially) and says for each of them what the function returns:   *)
(* a unix path, an inherited descriptor number, a (host, port) pair, or the *)
(* RuntimeError the master reports.  Every statement of the function is one *)
(* operator below; the quirks of the current code are transcribed, not      *)
(* idealised (str.split / re.split take the LAST or the SECOND piece, the   *)
(* default port goes through int() too, int() accepts blanks, a sign and    *)
(* single underscores).  Deviations (Dev) are the plausible slips the       *)
(* sanity invariants at the bottom reject.                                  *)
EXTENDS Naturals, Sequences, FiniteSets, SequencesExt

CONSTANTS MaxLen, Dev

Piece == <<
  <<"u", "n", "i", "x", ":">>,            \* 1
  <<"/", "/">>,                           \* 2
  <<"/", "p">>,                           \* 3
  <<"f", "d", ":", "/", "/">>,            \* 4
  <<"t", "c", "p", ":", "/", "/">>,       \* 5
  <<"[">>,                                \* 6
  <<"]">>,                                \* 7
  <<":">>,                                \* 8
  <<"A", "b">>,                           \* 9
  <<"8", "0">>,                           \* 10
  <<"_">>,                                \* 11
  <<"-">>,                                \* 12
  <<" ">> >>                              \* 13
NP == Len(Piece)

UNIX == Piece[1]
SS   == Piece[2]
FD   == Piece[4]
TCP  == Piece[5]
DefaultPort == <<"8", "0", "0", "0">>
AnyHost     == <<"0", ".", "0", ".", "0", ".", "0">>

RECURSIVE Flat(_)
Flat(n) == IF n = <<>> THEN <<>> ELSE Piece[Head(n)] \o Flat(Tail(n))

-----------------------------------------------------------------------------
(* str / re primitives over character sequences *)
StartsWith(s, p) == Len(s) >= Len(p) /\ SubSeq(s, 1, Len(p)) = p
RECURSIVE FindFrom(_, _, _)
FindFrom(s, p, i) == IF i + Len(p) - 1 > Len(s) THEN 0
                     ELSE IF SubSeq(s, i, i + Len(p) - 1) = p THEN i ELSE FindFrom(s, p, i + 1)
Find(s, p) == FindFrom(s, p, 1)                  \* 0: not there
Has(s, c) == \E i \in 1..Len(s) : s[i] = c
RECURSIVE Split(_, _)                            \* str.split(p): left to right, non-overlapping
Split(s, p) == LET i == Find(s, p) IN
               IF i = 0 THEN <<s>> ELSE <<SubSeq(s, 1, i - 1)>> \o Split(SubSeq(s, i + Len(p), Len(s)), p)
Rest(s) == IF s = <<>> THEN <<>> ELSE Tail(s)    \* s[1:]
LowerCh(c) == IF c = "A" THEN "a" ELSE c
Lower(s) == [i \in 1..Len(s) |-> LowerCh(s[i])]

(* int(s) for a str: blanks stripped, an optional sign, digits with single  *)
(* underscores between them.  The value is kept as its digit string (TLC's  *)
(* integers are 32 bit).                                                    *)
IsDigit(c) == c \in {"0", "1", "2", "3", "4", "5", "6", "7", "8", "9"}
RECURSIVE LStrip(_)
LStrip(s) == IF s = <<>> THEN s ELSE IF Head(s) = " " THEN LStrip(Tail(s)) ELSE s
Strip(s) == Reverse(LStrip(Reverse(LStrip(s))))
IntOf(s) ==
  LET t    == Strip(s)
      sgn  == IF t = <<>> THEN "" ELSE IF Head(t) \in {"-", "+"} THEN Head(t) ELSE ""
      b    == IF sgn = "" THEN t ELSE Tail(t)
      good == IF b = <<>> THEN FALSE
              ELSE /\ IsDigit(b[1]) /\ IsDigit(b[Len(b)])
                   /\ \A i \in 1..Len(b) : IsDigit(b[i]) \/ b[i] = "_"
                   /\ \A i \in 1..(Len(b) - 1) : ~(b[i] = "_" /\ b[i + 1] = "_")
  IN IF good THEN [ok |-> TRUE, neg |-> (sgn = "-"), digits |-> SelectSeq(b, IsDigit)]
     ELSE [ok |-> FALSE, neg |-> FALSE, digits |-> <<>>]

-----------------------------------------------------------------------------
Res(kind, text, n) == [kind |-> kind, text |-> text, neg |-> n.neg, digits |-> n.digits]
NoInt == [ok |-> FALSE, neg |-> FALSE, digits |-> <<>>]

(* re.split(r'unix:(//)?', s)[-1]: what follows the last "unix:", less one "//" *)
UnixPath(s) == LET last == IF "FirstUnixPiece" \in Dev THEN Split(s, UNIX)[2] ELSE Last(Split(s, UNIX))
               IN IF StartsWith(last, SS) THEN SubSeq(last, 3, Len(last)) ELSE last

HostPort(n) ==
  IF Has(n, "[") /\ Has(n, "]")
  THEN <<Rest(Split(n, <<"]">>)[1]), (Split(n, <<"]", ":">>) \o <<DefaultPort>>)[2]>>
  ELSE IF Has(n, ":")
  THEN LET ps == Split(n, <<":">>) IN <<ps[1], ps[2]>>
  ELSE IF n = <<>> THEN <<AnyHost, DefaultPort>>
  ELSE <<n, DefaultPort>>

Parse(s) ==
  IF StartsWith(s, UNIX) THEN Res("unix", UnixPath(s), NoInt)
  ELSE IF StartsWith(s, FD)
  THEN LET n == IntOf(SubSeq(s, Len(FD) + 1, Len(s))) IN
       IF n.ok THEN Res("fd", <<>>, n) ELSE Res("error", <<"f", "d">>, NoInt)
  ELSE LET n  == IF StartsWith(s, TCP) THEN Split(s, TCP)[2] ELSE s
           hp == HostPort(n)
           p  == IF "PortUnchecked" \in Dev /\ ~IntOf(hp[2]).ok
                 THEN [ok |-> TRUE, neg |-> FALSE, digits |-> DefaultPort] ELSE IntOf(hp[2])
       IN IF p.ok THEN Res("tcp", IF "KeepCase" \in Dev THEN hp[1] ELSE Lower(hp[1]), p)
          ELSE Res("error", <<"p", "o", "r", "t">>, NoInt)

(* The same string as a `bind` setting (command line, config file or         *)
(* GUNICORN_CMD_ARGS): config.validate_list_string strips each entry before  *)
(* Config.address hands it to parse_address.                                 *)
ParseSetting(s) == Parse(Strip(s))

-----------------------------------------------------------------------------
VARIABLE n                       \* the pieces of the bind string
vars == <<n>>
Init == n = <<>>
Grow(a) == Len(n) < MaxLen /\ n' = Append(n, a)
Next == \E a \in 1..NP : Grow(a)
Spec == Init /\ [][Next]_vars

S == Flat(n)
R == Parse(S)

TypeOK == R.kind \in {"unix", "fd", "tcp", "error"}
(* the three forms are told apart by the prefix alone *)
KindByPrefix == /\ (R.kind = "unix") = StartsWith(S, UNIX)
                /\ (R.kind = "fd") => StartsWith(S, FD)
                /\ StartsWith(S, FD) => R.kind \in {"fd", "error"}
(* a unix path is a tail of what was written, and never keeps the marker *)
UnixPathIsTail == R.kind = "unix" => IsSuffix(R.text, S) /\ Find(R.text, UNIX) = 0
(* host names are case-insensitive: the listener address is the lower-case one *)
HostLowered == R.kind = "tcp" => ~Has(R.text, "A")
(* a port that was written and is not a number is an error, never the default *)
NoSilentDefaultPort ==
  (R.kind = "tcp" /\ ~Has(S, "[") /\ ~StartsWith(S, TCP) /\ Has(S, ":"))
      => IntOf(Split(S, <<":">>)[2]).ok
(* a descriptor / port is a number: at least one digit *)
NumbersHaveDigits == R.kind \in {"fd", "tcp"} => R.digits # <<>>
(* blanks around a setting never change what it means, except inside a unix path *)
SettingIgnoresOuterBlanks == ParseSetting(<<" ">> \o S \o <<" ">>) = ParseSetting(S)
=============================================================================
