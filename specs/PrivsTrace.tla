----------------------------- MODULE PrivsTrace -----------------------------
(***************************************************************************)
(* Trace validation for C20.  One trace = a list of records, each the      *)
(* observation of one worker coming into existence:                        *)
(*   [mode  : "fake" | "real" | "server",                                  *)
(*    case  : [master, user, group, init, known, cap]  (abstract case),    *)
(*    uid, gid : configured ids (cfg.uid, cfg.gid), ug : the configured    *)
(*    user's groups in the group database, known : passwd entry exists,    *)
(*    m0, m1 : master credentials before / after,                          *)
(*    end   : "running" | "bootfail" | "masterfail",                       *)
(*    loaded, atload : credentials when application code was loaded,       *)
(*    w : credentials when run() started, beat : first heartbeat worked,   *)
(*    eperm : a privilege call was refused, calls : recorded call names,   *)
(*    sock : [] or [uid, gid] owner of the unix socket path]               *)
(* (P) verdict: the clauses of C20 on the observed credentials only.       *)
(* (C) cv: fake-mode records agree with the outcome Privs.tla predicts for *)
(*     the case under the configured Dev (the current tree): end, calls,   *)
(*     credentials; real-mode records agree on end and the id triples.     *)
(***************************************************************************)
EXTENDS Privs, Json, IOUtils, TLCExt

Traces == ndJsonDeserialize(IOEnv.TRACE_FILE)
NT == Len(Traces)

VARIABLES tid, l, verdict, cv, cstep
tvars == <<tid, l, verdict, cv, cstep>>
T == Traces[tid]
Range(q) == {q[j] : j \in DOMAIN q}

TInit == s = S0(CHOOSE c \in Cases : TRUE) /\ tid \in 1..NT /\ l = 1 /\ verdict = "ok" /\ cv = "ok" /\ cstep = 0

(* ------------------------------- (P) ---------------------------------- *)
ExactObs(e, x) ==
  /\ x.ruid = e.uid /\ x.euid = e.uid /\ x.suid = e.uid
  /\ x.rgid = e.gid /\ x.egid = e.gid /\ x.sgid = e.gid
  (* supplementary groups are judged when initgroups is on for a configured, resolvable user *)
  /\ (e.case.init /\ e.known /\ e.case.user # "unset") => Range(x.groups) = Range(e.ug) \cup {e.gid}
SameCreds(a, b) ==
  /\ <<a.ruid, a.euid, a.suid, a.rgid, a.egid, a.sgid>> = <<b.ruid, b.euid, b.suid, b.rgid, b.egid, b.sgid>>
  /\ Range(a.groups) = Range(b.groups)

PVerdict(e) ==
  IF e.loaded /\ ~ExactObs(e, e.atload)
  THEN (IF e.eperm THEN "BootErrorNotSilent"
        ELSE IF e.end = "running" /\ ExactObs(e, e.w) THEN "DropBeforeLoad" ELSE "WorkerCredsExact")
  ELSE IF e.end = "running" /\ ~ExactObs(e, e.w)
  THEN (IF e.eperm THEN "BootErrorNotSilent" ELSE "WorkerCredsExact")
  \* (cap # "all": the kernel refuses a privilege call although the master is uid 0 - a capability is missing)
  ELSE IF e.m0.euid = 0 /\ e.case.cap = "all" /\ e.end \in {"bootfail", "masterfail"} THEN "PermittedDropSucceeds"
  ELSE IF ~SameCreds(e.m0, e.m1) THEN "MasterKeepsIdentity"
  ELSE IF e.end = "running" /\ ~e.beat THEN "HeartbeatWritable"
  ELSE IF Len(e.sock) = 2 /\ e.m0.euid = 0 /\ e.sock # <<e.uid, e.gid>> THEN "SocketOwned"
  ELSE "ok"

(* ------------------------------- (C) ---------------------------------- *)
Triples(x) == <<x.ruid, x.euid, x.suid, x.rgid, x.egid, x.sgid>>
CVerdict(e) ==
  IF e.mode = "server" THEN "ok"
  ELSE LET o == Outcome(e.case) IN
       IF o.end # e.end THEN "drift:end-" \o o.end \o "-vs-" \o e.end
       ELSE IF e.mode = "real" THEN "ok"
       ELSE IF o.calls # e.calls THEN "drift:calls"
       ELSE IF ~(Triples(o.w) = Triples(e.w) /\ o.w.groups = Range(e.w.groups)) THEN "drift:creds"
       ELSE IF o.loaded # e.loaded THEN "drift:loaded"
       ELSE IF o.loaded /\ ~(Triples(o.atload) = Triples(e.atload) /\ o.atload.groups = Range(e.atload.groups))
            THEN "drift:creds-at-load"
       ELSE IF o.end = "running" /\ o.beat # e.beat THEN "drift:heartbeat"
       ELSE "ok"

TStep ==
  /\ verdict = "ok" /\ l <= Len(T.ev)
  /\ LET e == T.ev[l] IN
     /\ verdict' = PVerdict(e)
     /\ cv' = IF cv # "ok" THEN cv ELSE CVerdict(e)
     /\ cstep' = IF cv # "ok" THEN cstep ELSE l
  /\ l' = l + 1 /\ UNCHANGED <<tid, s>>

TSpec == TInit /\ [][TStep]_<<s, tvars>>

Record == TLCSet(tid, IF verdict # "ok" THEN <<verdict, l - 1>>
                      ELSE IF cv # "ok" THEN <<cv, cstep>> ELSE <<"ok", l - 1>>)
Post == \A t \in 1..NT : PrintT(<<"VERDICT", t, TLCGet(t)>>)
=============================================================================
