---------------------------- MODULE PidfileCases ----------------------------
(* Complete enumeration of the operation-atomic histories of Pidfile with   *)
(* at most MaxOps operations / environment events: with HistMode = "op"     *)
(* every distinct state is a distinct history; the complete ones are        *)
(* printed as JSON (one line each) for the spec -> code replayer.           *)
EXTENDS Pidfile, Json
Emit == (busy = 0 /\ nops = MaxOps) => PrintT(ToJson(hist))
=============================================================================
