----------------------------- MODULE LogReopen -----------------------------
(***************************************************************************)
(* Log rotation (rename the file, SIGUSR1) against a record being written: *)
(* gunicorn/glogging.py Logger.reopen_files 371-392 and the standard       *)
(* library's logging.Handler.handle / FileHandler.emit / StreamHandler.emit *)
(* that Logger.access 345-365 ends in.  Part of C19: "every request whose  *)
(* application call completes produces exactly one access-log record".     *)
(*                                                                         *)
(* One action per source line of the emitting path (a Python signal        *)
(* handler runs between two lines of the interrupted thread):              *)
(*   idle    -> locked    Handler.handle: self.acquire()                   *)
(*   locked  -> checked   FileHandler.emit: if self.stream is None: open   *)
(*   checked -> fetched   StreamHandler.emit: stream = self.stream         *)
(*   fetched -> written   stream.write(msg + terminator)                   *)
(*   written -> inflush   self.flush(): the buffered writer has handed the *)
(*                        bytes to the kernel and runs pending signal      *)
(*                        handlers while it is still "busy"                *)
(*   inflush -> flushed   flush() returns                                  *)
(*   flushed -> idle      self.release()                                   *)
(* reopen_files per handler: acquire; if handler.stream: close(), _open(); *)
(* release.  The handler's lock is an RLock:                               *)
(*   Mode = "signal": reopen_files runs as the SIGUSR1 handler IN the      *)
(*       emitting thread (master, sync and async workers): the lock does   *)
(*       not exclude it, and it runs to completion before the interrupted  *)
(*       code goes on.  The interpreter runs a pending handler only at its *)
(*       checkpoints (CPython >= 3.10: function entry, backward jumps,     *)
(*       after calls into C code, and inside blocking I/O): never between  *)
(*       `stream = self.stream` and the call of stream.write.  Inside      *)
(*       flush() the writer object is busy: handler.close() raises         *)
(*       RuntimeError("reentrant call"), FileHandler.close() has set       *)
(*       handler.stream = None by then, reopen_files() is abandoned;       *)
(*   Mode = "thread": the record is emitted by another thread than the one *)
(*       that handles signals (gthread pool threads): the lock excludes.   *)
(* Dev:                                                                    *)
(*   "SignalAtAnyLine"  handlers may run between any two source lines      *)
(*       (interpreters before 3.10; also what line-level injection does).  *)
(*   "ReopenWithoutLock"  reopen_files does not take the handler's lock.   *)
(***************************************************************************)
EXTENDS Integers, Sequences, FiniteSets, TLC

CONSTANTS NRec, NRot, Mode, Dev

EPcs == <<"idle", "locked", "checked", "fetched", "written", "inflush", "flushed">>
Checkpoints == {"idle", "locked", "checked", "written", "inflush", "flushed"}
                 \cup (IF "SignalAtAnyLine" \in Dev THEN {"fetched"} ELSE {})
Gens == 1..(NRot + 1)

VARIABLE s
(* s.gen    generation of the file the configured path names now           *)
(* s.hs     handler.stream: the generation it was opened on, 0 = None      *)
(* s.open   generations whose stream object is still open                  *)
(* s.loc    the emitter's local variable `stream`                          *)
(* s.epc    emitter position, s.rpc position of reopen_files (thread mode) *)
(* s.lock   "none" | "e" | "r"                                             *)
(* s.landed generation -> records in that file; s.lost: write on a closed  *)
(*          stream (ValueError -> Handler.handleError, record gone)        *)

S0 == [gen |-> 1, hs |-> 1, open |-> {1}, loc |-> 0, epc |-> "idle", rpc |-> "idle", lock |-> "none",
       landed |-> [g \in Gens |-> 0], lost |-> 0, emitted |-> 0, rots |-> 0, pend |-> FALSE, aborted |-> 0]

(* one source line of the emitting path *)
EStep(x) ==
  CASE x.epc = "idle"    -> [x EXCEPT !.epc = "locked", !.lock = "e"]
    [] x.epc = "locked"  -> IF x.hs = 0 THEN [x EXCEPT !.epc = "checked", !.hs = x.gen, !.open = @ \cup {x.gen}]
                            ELSE [x EXCEPT !.epc = "checked"]
    [] x.epc = "checked" -> [x EXCEPT !.epc = "fetched", !.loc = x.hs]
    [] x.epc = "fetched" -> IF x.loc \in x.open
                            THEN [x EXCEPT !.epc = "written", !.landed[x.loc] = @ + 1]
                            ELSE [x EXCEPT !.epc = "written", !.lost = @ + 1]
    [] x.epc = "written" -> [x EXCEPT !.epc = "inflush"]
    [] x.epc = "inflush" -> [x EXCEPT !.epc = "flushed"]
    [] OTHER             -> [x EXCEPT !.epc = "idle", !.lock = "none", !.emitted = @ + 1, !.loc = 0]

(* the body of reopen_files for the handler: if handler.stream: handler.close(); handler.stream = handler._open() *)
ReopenBody(x) ==
  IF x.hs = 0 THEN x
  ELSE IF x.epc = "inflush" /\ Mode = "signal"
  THEN [x EXCEPT !.hs = 0, !.aborted = @ + 1]      \* close() raised: stream forgotten (not closed), nothing opened
  ELSE [x EXCEPT !.open = (@ \ {x.hs}) \cup {x.gen}, !.hs = x.gen]

(* the operator renames the file away: the path names a new generation from now on *)
Rotate(x) == [x EXCEPT !.gen = @ + 1, !.rots = @ + 1, !.pend = TRUE]

Init == s = S0

Emit == /\ s.emitted < NRec
        /\ (s.epc = "idle" => s.lock = "none")
        /\ s' = EStep(s)

Rot == /\ s.rots < NRot /\ ~s.pend /\ s.rpc = "idle"
       /\ s' = Rotate(s)

(* SIGUSR1 in signal mode: the whole of reopen_files between two lines of the emitter *)
SignalReopen ==
  /\ Mode = "signal" /\ s.pend
  /\ s.epc \in Checkpoints
  /\ s' = [ReopenBody(s) EXCEPT !.pend = FALSE]

(* thread mode: three steps, interleaved with the emitter *)
RAcquire == /\ Mode = "thread" /\ s.pend /\ s.rpc = "idle"
            /\ ("ReopenWithoutLock" \in Dev \/ s.lock = "none")
            /\ s' = [s EXCEPT !.rpc = "acq", !.lock = IF "ReopenWithoutLock" \in Dev THEN @ ELSE "r"]
RBody == /\ s.rpc = "acq" /\ s' = [ReopenBody(s) EXCEPT !.rpc = "done"]
RRelease == /\ s.rpc = "done"
            /\ s' = [s EXCEPT !.rpc = "idle", !.pend = FALSE, !.lock = IF s.lock = "r" THEN "none" ELSE @]
EmitT == /\ Emit /\ (Mode = "thread" /\ s.epc = "idle" => s.lock = "none")

Next == EmitT \/ Rot \/ SignalReopen \/ RAcquire \/ RBody \/ RRelease
Spec == Init /\ [][Next]_s

(***************************************************************************)
(* Properties                                                              *)
(***************************************************************************)
RECURSIVE SumTo(_, _)
SumTo(f, n) == IF n = 0 THEN 0 ELSE f[n] + SumTo(f, n - 1)
Landed == SumTo(s.landed, NRot + 1)

NoRecordLost == s.lost = 0
ExactlyOneRecordEach == s.epc = "idle" => Landed = s.emitted
(* once the reopen is through, records go to the file the path names *)
FollowsThePath == (s.epc = "fetched" /\ ~s.pend /\ s.rpc = "idle") => s.loc = s.gen
TypeOK == s.epc \in {EPcs[i] : i \in 1..7} /\ s.hs \in Gens \cup {0} /\ s.open \subseteq Gens
=============================================================================
