--------------------------- MODULE GThreadTrace ---------------------------
(***************************************************************************)
(* Property monitor (P) for C13 on traces recorded from the real           *)
(* gunicorn.workers.gthread.ThreadWorker (harness/drivers/gthread.py).     *)
(* One trace = one run:                                                    *)
(*   {cfg: {threads, wc, ka, nconn, K, R}, ev: [ {e, c, x, nr, now} ... ]} *)
(* Events are observations at the worker's boundary only (what it did to   *)
(* sockets / executor / selector, what the clients and the clock did):     *)
(*   env:    connect c . send c . leave c . tick . term . pdead .          *)
(*           steal c (another worker of the pool took c off the shared     *)
(*           listen queue, possibly after this worker's poller had already *)
(*           reported the listener readable: its accept() gets EAGAIN)     *)
(*   worker: loop (top of a main-loop iteration) . accept c . submit c .   *)
(*           reg c (socket handed to the poller) . close c . reclose c .   *)
(*           exit (run() returned) . crash (run() raised)                  *)
(*   pool:   start c . jobend c keep|close|exc (handler returned) .        *)
(*           finish c (completion callbacks done) . cancel c               *)
(*   driver: quiescent (every client left >= nconn*(ka+2)+3 iterations ago) *)
(* nr = worker.nr_conns and now = virtual clock, read after the event.     *)
(* The envelope states C13 and nothing else; an implementation may close   *)
(* earlier on error / departure / shutdown, reap in any order, poll        *)
(* differently, dispatch in any order.  Clause names = verdicts.           *)
(* Batch protocol: Init picks tid; register tid holds <<verdict, step>>.   *)
(***************************************************************************)
EXTENDS Integers, Sequences, FiniteSets, TLC, Json, IOUtils, TLCExt

Traces == ndJsonDeserialize(IOEnv.TRACE_FILE)
NT == Len(Traces)

VARIABLES tid, l, verdict,
          st,      \* c -> "fresh" | "backlog" | "open" | "handled" | "keeping" | "idle" | "closing" | "closed"
                   \*   handled: submitted, handler not returned; keeping / closing: handler returned
                   \*   (keep-alive or not), completion not yet published; idle: waiting for the next request
          pend,    \* c -> a complete request has arrived and was not yet dispatched
          left,    \* c -> the client closed its end
          dl,      \* c -> earliest legitimate keep-alive expiry (handler return + ka)
          dll,     \* c -> latest start of the keep-alive period + ka (re-armed in the poller)
          wait,    \* c -> consecutive loop tops with (request pending, thread free)
          exp,     \* c -> consecutive loop tops with the keep-alive time passed
          late,    \* c -> the handler returned, or its completion began to be published, after the worker was told to stop
          busy,    \* jobs in the executor (submitted, completion not yet done)
          acc, cls, stopping, termed
vars == <<tid, l, verdict, st, pend, left, dl, dll, wait, exp, late, busy, acc, cls, stopping, termed>>

T == Traces[tid]
C == T.cfg
Conns == 1..C.nconn
Open(s) == s \in {"open", "handled", "keeping", "idle", "closing"}

Init ==
  /\ tid \in 1..NT /\ l = 1 /\ verdict = "ok"
  /\ st = [c \in 1..Traces[tid].cfg.nconn |-> "fresh"]
  /\ pend = [c \in 1..Traces[tid].cfg.nconn |-> FALSE]
  /\ left = [c \in 1..Traces[tid].cfg.nconn |-> FALSE]
  /\ dl = [c \in 1..Traces[tid].cfg.nconn |-> 0]
  /\ dll = [c \in 1..Traces[tid].cfg.nconn |-> 0]
  /\ wait = [c \in 1..Traces[tid].cfg.nconn |-> 0]
  /\ exp = [c \in 1..Traces[tid].cfg.nconn |-> 0]
  /\ late = [c \in 1..Traces[tid].cfg.nconn |-> FALSE]
  /\ busy = 0 /\ acc = 0 /\ cls = 0 /\ stopping = FALSE /\ termed = FALSE

Same(vs) == UNCHANGED vs

(* ---- clauses --------------------------------------------------------- *)
\* close of c at time `now`
CloseVerdict(c, now) ==
  IF st[c] = "closed" THEN "NoDoubleClose"
  ELSE IF st[c] = "handled" THEN "NoCloseWhileHandled"
  ELSE IF st[c] = "idle" /\ ~left[c] /\ ~stopping /\ now < dl[c] THEN "KeepAliveNotBefore"
  \* closed unserved although the request had been pending, with a thread free, since before the
  \* top of this iteration (the poll of this iteration had to see it)
  ELSE IF st[c] \in {"open", "idle"} /\ pend[c] /\ wait[c] >= 1 /\ ~stopping THEN "ServedIfThreadFree"
  ELSE "ok"

\* top of a main-loop iteration
WaitNext(c) == IF st[c] \in {"open", "idle"} /\ pend[c] /\ busy < C.threads /\ ~stopping
               THEN wait[c] + 1 ELSE 0
ExpNext(c, now) == IF st[c] = "idle" /\ now >= dll[c] /\ ~stopping THEN exp[c] + 1 ELSE 0

LoopVerdict(e) ==
  IF e.nr # acc - cls THEN "Accounting"
  ELSE IF \E c \in Conns : WaitNext(c) > C.K THEN "ServedIfThreadFree"
  ELSE IF \E c \in Conns : ExpNext(c, e.now) > C.R THEN "KeepAliveNotMuchAfter"
  ELSE "ok"

\* judgment point after the quiescent tail: every client has left long ago
QuiescentVerdict(e) ==
  IF e.nr # acc - cls THEN "Accounting"
  ELSE IF \E c \in Conns : Open(st[c]) /\ left[c] THEN "AllClosedAtEnd"
  ELSE IF (\A c \in Conns : Open(st[c]) => left[c]) /\ e.nr # 0 THEN "ReturnsToZero"
  ELSE "ok"

\* run() returned: a connection whose last response was produced must have been closed by the
\* worker; idle connections from before the stop request may be left to process exit
ExitVerdict(e) ==
  IF e.nr # acc - cls THEN "Accounting"
  ELSE IF \E c \in Conns : st[c] = "closing" \/ (st[c] \in {"idle", "keeping"} /\ late[c] /\ busy = 0) THEN "AllClosedAtEnd"
  ELSE "ok"

Step ==
  /\ verdict = "ok" /\ l <= Len(T.ev)
  /\ l' = l + 1 /\ UNCHANGED tid
  /\ LET e == T.ev[l]  c == e.c IN
     CASE e.e = "connect" ->
            /\ st' = [st EXCEPT ![c] = "backlog"] /\ verdict' = "ok"
            /\ Same(<<pend, left, dl, dll, wait, exp, late, busy, acc, cls, stopping, termed>>)
       [] e.e = "steal" ->
            /\ st' = [st EXCEPT ![c] = "closed"] /\ left' = [left EXCEPT ![c] = TRUE] /\ verdict' = "ok"
            /\ Same(<<pend, dl, dll, wait, exp, late, busy, acc, cls, stopping, termed>>)
       [] e.e = "send" ->
            /\ pend' = [pend EXCEPT ![c] = TRUE] /\ verdict' = "ok"
            /\ Same(<<st, left, dl, dll, wait, exp, late, busy, acc, cls, stopping, termed>>)
       [] e.e = "leave" ->
            /\ left' = [left EXCEPT ![c] = TRUE] /\ verdict' = "ok"
            /\ Same(<<st, pend, dl, dll, wait, exp, late, busy, acc, cls, stopping, termed>>)
       [] e.e \in {"term", "pdead"} ->
            /\ stopping' = TRUE /\ verdict' = "ok" /\ termed' = (termed \/ e.e = "term")
            /\ Same(<<st, pend, left, dl, dll, wait, exp, late, busy, acc, cls>>)
       [] e.e = "accept" ->
            /\ st' = [st EXCEPT ![c] = "open"] /\ acc' = acc + 1
            /\ verdict' = (IF acc + 1 - cls > C.wc THEN "NeverExceedMax" ELSE "ok")
            /\ Same(<<pend, left, dl, dll, wait, exp, late, busy, cls, stopping, termed>>)
       [] e.e = "submit" ->
            /\ st' = [st EXCEPT ![c] = IF st[c] \in {"open", "idle"} THEN "handled" ELSE st[c]]
            /\ pend' = [pend EXCEPT ![c] = FALSE]
            /\ wait' = [wait EXCEPT ![c] = 0] /\ exp' = [exp EXCEPT ![c] = 0]
            /\ busy' = busy + 1 /\ verdict' = "ok"
            /\ Same(<<left, dl, dll, late, acc, cls, stopping, termed>>)
       [] e.e = "jobend" ->
            /\ st' = [st EXCEPT ![c] = IF st[c] # "handled" THEN st[c]
                                        ELSE IF e.x = "keep" THEN "keeping" ELSE "closing"]
            /\ dl' = [dl EXCEPT ![c] = e.now + C.ka] /\ dll' = [dll EXCEPT ![c] = e.now + C.ka]
            /\ late' = [late EXCEPT ![c] = termed]
            /\ verdict' = "ok"
            /\ Same(<<pend, left, wait, exp, busy, acc, cls, stopping, termed>>)
       [] e.e = "reg" ->
            /\ dll' = IF c \in Conns THEN [dll EXCEPT ![c] = IF st[c] \in {"idle", "keeping"} THEN e.now + C.ka ELSE dll[c]]
                      ELSE dll
            /\ verdict' = "ok"
            /\ Same(<<st, pend, left, dl, wait, exp, late, busy, acc, cls, stopping, termed>>)
       [] e.e = "fbegin" ->         \* finish_request (the future's done-callback) starts, in the pool thread: a stop
                                    \* request that arrives while it runs may find the connection parked again
            /\ late' = [late EXCEPT ![c] = late[c] \/ (st[c] = "keeping" /\ termed)]
            /\ verdict' = "ok"
            /\ Same(<<st, pend, left, dl, dll, wait, exp, busy, acc, cls, stopping, termed>>)
       [] e.e = "finish" ->
            /\ busy' = busy - 1 /\ verdict' = "ok"
            /\ st' = [st EXCEPT ![c] = IF st[c] = "keeping" THEN "idle" ELSE st[c]]
            /\ dll' = [dll EXCEPT ![c] = IF st[c] = "keeping" THEN e.now + C.ka ELSE dll[c]]
            /\ Same(<<pend, left, dl, wait, exp, late, acc, cls, stopping, termed>>)
       [] e.e = "cancel" ->         \* x = "shutdown": the worker itself cancelled the queued request when it shut its pool down
                                    \* (a fault injected by the environment has x = "")
            /\ busy' = busy - 1 /\ verdict' = IF e.x = "shutdown" THEN "QueuedRequestDroppedAtStop" ELSE "ok"
            /\ st' = [st EXCEPT ![c] = IF st[c] = "handled" THEN "closing" ELSE st[c]]
            /\ Same(<<pend, left, dl, dll, wait, exp, late, acc, cls, stopping, termed>>)
       [] e.e = "close" ->
            /\ verdict' = CloseVerdict(c, e.now)
            /\ st' = [st EXCEPT ![c] = "closed"] /\ cls' = cls + 1
            /\ Same(<<pend, left, dl, dll, wait, exp, late, busy, acc, stopping, termed>>)
       [] e.e = "reclose" ->
            /\ verdict' = "NoDoubleClose"
            /\ Same(<<st, pend, left, dl, dll, wait, exp, late, busy, acc, cls, stopping, termed>>)
       [] e.e = "loop" ->
            /\ verdict' = LoopVerdict(e)
            /\ wait' = [c2 \in Conns |-> WaitNext(c2)]
            /\ exp' = [c2 \in Conns |-> ExpNext(c2, e.now)]
            /\ Same(<<st, pend, left, dl, dll, late, busy, acc, cls, stopping, termed>>)
       [] e.e = "quiescent" ->
            /\ verdict' = QuiescentVerdict(e)
            /\ Same(<<st, pend, left, dl, dll, wait, exp, late, busy, acc, cls, stopping, termed>>)
       [] e.e = "exit" ->
            /\ verdict' = ExitVerdict(e)
            /\ Same(<<st, pend, left, dl, dll, wait, exp, late, busy, acc, cls, stopping, termed>>)
       [] e.e = "crash" ->
            /\ verdict' = "LoopCrashed"
            /\ Same(<<st, pend, left, dl, dll, wait, exp, late, busy, acc, cls, stopping, termed>>)
       [] OTHER ->
            /\ verdict' = "ok"
            /\ Same(<<st, pend, left, dl, dll, wait, exp, late, busy, acc, cls, stopping, termed>>)

Spec == Init /\ [][Step]_vars

Record == TLCSet(tid, <<verdict, l - 1>>)
Post == \A t \in 1..NT : PrintT(<<"VERDICT", t, TLCGet(t)>>)
=============================================================================
