--------------------------- MODULE LifecycleTrace ---------------------------
(***************************************************************************)
(* Follows Lifecycle.tla from the hook log of a REAL server: every hook of *)
(* the configuration file appends one line (name, arguments) to one file   *)
(* opened O_APPEND, so the file order is the order the hooks ran in, across *)
(* master and workers.  ev: [h: hook name, a: worker age | new count,      *)
(* b: old count (-1: None)]; the driver adds "halt" at the position the    *)
(* log had when it sent TERM, and killed: ages of the workers it SIGKILLed. *)
(* Verdict: "ok" | "drift:<hook>" when the model cannot take the step the  *)
(* log shows.                                                              *)
(***************************************************************************)
EXTENDS Lifecycle, Json, IOUtils, TLCExt
Traces == ndJsonDeserialize(IOEnv.TRACE_FILE)
NT == Len(Traces)
VARIABLES tid, l, verdict
tvars == <<tid, l, verdict, s>>
T == Traces[tid]
Killed9 == {T.killed[i] : i \in DOMAIN T.killed}

Try(ok, x, name) == IF ok THEN verdict' = "ok" /\ s' = x ELSE verdict' = "drift:" \o name /\ UNCHANGED s

TInit == tid \in 1..NT /\ l = 1 /\ verdict = "ok" /\ s = S0
TStep ==
  /\ verdict = "ok" /\ l <= Len(T.ev)
  /\ l' = l + 1 /\ UNCHANGED tid
  /\ LET e == T.ev[l]  h == e.h  a == e.a IN
     CASE h = "nworkers_changed" ->
            IF s.m = "new" THEN Try(e.b = -1, Setup(s, a), h)
            \* a reload (the next line is on_reload) or TTIN / TTOU
            ELSE IF l < Len(T.ev) /\ T.ev[l + 1].h = "on_reload" THEN Try(s.m = "ready" /\ e.b = s.n, Reconfigured(s, a), h)
            ELSE Try(s.m = "ready" /\ e.b = s.n /\ a # s.n, Resize(s, a), h)
       [] h = "on_starting" -> Try(s.m = "configured", OnStarting(s), h)
       [] h = "when_ready" -> Try(s.m = "starting", WhenReady(s), h)
       [] h = "pre_fork" -> Try(CanFork(s) /\ a = s.age + 1, PreFork(s), h)
       [] h = "post_fork" -> Try(a \in Ages /\ s.w[a] = "pre", PostFork(s, a), h)
       [] h = "post_worker_init" -> Try(a \in Ages /\ s.w[a] = "forked", PostInit(s, a), h)
       [] h = "pre_request" -> Try(a \in Ages /\ s.w[a] = "init" /\ s.req[a] < Threads, PreRequest(s, a), h)
       [] h = "post_request" -> Try(a \in Ages /\ s.w[a] \in {"init", "wexit"} /\ s.req[a] > 0, PostRequest(s, a), h)
       [] h = "worker_int" -> Try(a \in Ages /\ s.w[a] \in {"forked", "init"}, Signalled(s, a, "int"), h)
       [] h = "worker_abort" -> Try(a \in Ages /\ s.w[a] \in {"forked", "init"}, Signalled(s, a, "abort"), h)
       [] h = "worker_exit" -> Try(a \in Ages /\ s.w[a] \in {"forked", "init"}, WorkerExit(s, a), h)
       [] h = "child_exit" ->
            \* a worker the driver killed with SIGKILL ran no hook of its own: its death is the step Killed
            IF a \in Ages /\ a \in Killed9 /\ s.w[a] \in {"pre", "forked", "init"}
            THEN Try(CanChildExit(Killed(s, a), a), ChildExit(Killed(s, a), a), h)
            ELSE Try(a \in Ages /\ CanChildExit(s, a), ChildExit(s, a), h)
       [] h = "on_reload" -> Try(s.m = "reloading", OnReload(s), h)
       [] h = "pre_exec" -> Try(s.m = "ready", PreExec(s), h)
       [] h = "halt" -> Try(s.m = "ready", Halt(s), h)                                              \* (logged by the driver)
       [] h = "on_exit" -> Try(s.m = "halting", OnExit(s), h)
       [] OTHER -> verdict' = "drift:unknown-hook" /\ UNCHANGED s
TSpec == TInit /\ [][TStep]_tvars
Record == TLCSet(tid, <<verdict, l - 1>>)
Post == \A t \in 1..NT : PrintT(<<"VERDICT", t, TLCGet(t)>>)
=============================================================================
