#!/bin/sh
# the checks as they were before round 7 (commit 3fb1a6c) against the round-7 changes
for p in "$@"; do
  ( for k in 1 2; do SEED_ROUND=7 python3 /tmp/verif_old/harness/seedconfirm.py $p $k > /verif/out/r7old/${p}_$k.json 2>&1; done ) &
done
wait
