#!/bin/sh
# the checks as they were before round 6 (commit 45678bd) against the round-6 changes
for p in "$@"; do
  ( for k in 1 2; do SEED_ROUND=6 python3 /tmp/verif_old/harness/seedconfirm.py $p $k > /verif/out/r6old/${p}_$k.json 2>&1; done ) &
done
wait
