"""Regenerate /verif/MANIFEST.json from the table below (python3 harness/mkmanifest.py)."""
import json
import os

HOME = os.path.dirname(os.path.dirname(os.path.abspath(__file__)))

TLC_NOTE = ("Trusted base: TLC 1.8 (tla2tools.jar + CommunityModules), the TLA+ specifications under "
            "/verif/specs, the Python drivers under /verif/harness that abstract real executions into traces. "
            "Bounded: small-constant model instances; sampled concrete spellings / schedules for traces.")

CLAIMED = {
    "C01": dict(
        text="Exhaustive TLC exploration of specs/HttpParse.tla (implementation-shaped model of unreader, head "
             "parser, framing decision, length/chunked readers, pipelining) over bounded stream families x every "
             "segmentation, against the strict RFC 9112 reading (specs/HttpStream.tla); the same families are emitted "
             "by TLC, concretized to bytes (several spellings per line class) and pushed through the real "
             "gunicorn.http.RequestParser; every recorded trace is judged by TLC against specs/HttpTrace.tla."
             " The same streams are also served through the real handle() of the sync / gthread / async workers; the requests that reach the application (parse offset, body) are judged by the same monitor. Heads without continuation lines are also run under permit_obsolete_folding (what the switch does not relax stays refused). Connection level: specs/KeepAlive.tla (keep-alive loop of the three worker kinds, timer, reaper, stop request) checked by TLC and followed by the real handle() on a socket that scripts the passing of the keep-alive time (clause PhantomRequest).",
        design_ref="DESIGN.md 4 C01, 9",
        technique="TLA+ model checking (TLC) of a parser model vs. a strict-reading oracle + TLC trace validation of real parser runs"),
    "C06": dict(
        text="TLC explores every segmentation (reads of 1..MaxRecv symbols) of every stream of the bounded families; "
             "the terminal observation is pinned to a function of the stream alone. Real parser: each concretized stream is "
             "run whole, byte-by-byte, with every single cut, sampled pairs and random cuts, through IterUnreader and "
             "SocketUnreader; real-scale streams with delimiters at 8190..8193; TLC judges equality of observations per stream."
             " Worker-level runs (gthread / async handle() with keep-alive hand-backs) are digested per segmentation as well. The segmentation runs are repeated under every documented parser switch and around the buffer caps that small or switched-off limits give.",
        design_ref="DESIGN.md 4 C06, 9",
        technique="TLA+ model checking of all segmentations + TLC-validated differential traces of the real parser"),
    "C12": dict(
        text="TLC checks OverLimitRejected / CompleteOkDelivered (within limits => accepted) / BufferBounded on "
             "specs/HttpParse.tla over padded-line, many-field and never-ending stream families with small limits x all "
             "segmentations; the real parser is run with limit settings {0, small, default, max, out-of-range} on inputs at, "
             "just under and just over each limit and on lazy endless sources in each buffering phase (request line, header "
             "block, chunk-size line, trailer block); TLC judges every record against specs/HttpLimitsTrace.tla. Cases include limit_request_line = 0 with lines beyond the hard maximum and over-long fields whose names the header_map drops.",
        design_ref="DESIGN.md 4 C12, 9",
        technique="TLA+ model checking of limit/buffer invariants + TLC-validated boundary and endless-stream records from the real parser"),
    "C07": dict(
        text="TLC checks specs/BodyIO.tla (Body.read/readline/readlines/iteration over a block reader) for every program of "
             "<= MaxCalls calls with sizes {None, 0, 1, Block, Block+1, big} over every body of <= MaxBody symbols against "
             "io.BytesIO semantics (action properties PieceMatchesFileRef, EofForever; invariants NoLossNoDup, "
             "NeverReadsPastBody); TLC -simulate behaviours are replayed on the real wsgi.input; seeded real-scale programs "
             "(sizes around 1024/8192, Content-Length and chunked framings, 1-byte chunks, chunk boundaries at block "
             "boundaries, random segmentations, pipelined follower) are judged by TLC against specs/BodyTrace.tla, "
             "including the offset at which the next request is parsed."
             " Worker-level runs (late body tails on kept-alive connections through gthread / async handle()) use the same monitor. A share of the runs is repeated in an interpreter started with -O; the same programs run inside real servers of the four classes (slow segments, a default socket timeout set by the application).",
        design_ref="DESIGN.md 4 C07, 9",
        technique="TLA+ model checking of the wsgi.input algorithm vs. file semantics + TLC trace validation of real call sequences"),
    "C02": dict(
        text="TLC checks specs/Response.tla exhaustively: request facts (version, HEAD, Connection) x worker policy (sync / "
             "gthread / async, keep-alive, keep list full, alive) x application program (status class, declared "
             "Content-Length, iterable / write() / file wrapper with and without descriptor and offset, chunk sequences with "
             "empty chunks) against ExactlyOneHead, BodyEqualsAppOutputCutToCL, ConsistentDelimiting, ChunkedOnlyWhenAllowed, "
             "KeepAliveOnlyIfSafe, NeverExceedsContentLength. TLC -simulate behaviours and seeded larger programs are served by "
             "the real handle() of SyncWorker, ThreadWorker (+finish_request) and AsyncWorker on scripted sockets; the bytes the "
             "client received are read by an independent strict response reader and judged by TLC (specs/ResponseTrace.tla). Exchanges include request bodies read before / during / after the response, Expect: 100-continue, folded Connection headers under permit_obsolete_folding, short-reading file-like objects and --no-sendfile.",
        design_ref="DESIGN.md 4 C02, 9",
        technique="TLA+ model checking of the response writer + TLC trace validation of exchanges served by the real worker handle()"),
    "C09": dict(
        text="TLC checks specs/RespHead.tla (start_response / process_headers / send_headers as a decision procedure over "
             "string kinds, first and second calls with/without exc_info, before/after the head is sent) against "
             "RefusedBeforeAnyByte, HeadIsExactly, HopByHopNotForwarded, SecondCallRules; simulated and seeded cases are "
             "expanded to concrete strings (every CTL byte, CR/LF/NUL placements, non-latin-1, hop-by-hop names in case "
             "variants), passed to the real start_response inside the real handle() of the three worker families, and the "
             "received head is judged line by line by TLC (specs/RespHeadTrace.tla). Request-parsing switches are varied for the response checks; a real threaded server answers 8 clients at once (specs/ConcHeadTrace.tla: no line or body of another response).",
        design_ref="DESIGN.md 4 C09, 9",
        technique="TLA+ model checking of the header-acceptance decision table + TLC trace validation of real response heads"),
    "C05": dict(
        text="TLC checks specs/Conn.tla (the try/except/finally ladders of sync/gthread/async handle(), handle_request and "
             "handle_error over parse outcome x application outcome x error-page write outcome) against NoAppCallAfterReject, "
             "AtMostOneErrorPage, AlwaysClosed, HandleNeverRaises. The C01 stream families concretized (strict oracle), valid "
             "requests truncated at every offset, mutated requests and random bytes, combined with a client reset at every read "
             "and a dead socket at every written byte, are served by the real handle() of the three worker families; the same "
             "worker object then serves a normal connection; wire (strict response reader) and worker state are judged by TLC "
             "against specs/ConnTrace.tla."
             " PROXY-protocol peers (listed / unlisted) and, on real processes with TLS listeners, peers that do not complete the handshake (lazy and on-connect handshake) are included. Real servers include TLS listeners with on-connect handshakes for all four classes, clients that leave in the middle of a response (FIN / RST) and servers started with --daemon.",
        design_ref="DESIGN.md 4 C05, 9",
        technique="TLA+ model checking of the error-handling ladders + TLC trace validation of hostile connections served by the real handle()"),
    "C19": dict(
        text="TLC checks byte accounting (SentEqualsWire) on specs/Response.tla and the access-record sites "
             "(ExactlyOneRecordPerCompletedApp, AtMostOneRecordPerRejected) on specs/Conn.tla; records captured from the real "
             "gunicorn.access logger while the real handle() serves completed applications (every producer x framing x worker "
             "class), requests the server rejects itself, and client-controlled CR/LF/control bytes in target, header values and "
             "Basic-auth user under every access_log_format atom are judged by TLC (specs/AccessTrace.tla) against the status and "
             "body length read from the wire."
             " Real servers (access log file or a handler on the root logger through logconfig_dict, several log levels, idle keep-alive connections, a multi-megabyte file to a client that reads late) are judged the same way."
             " Log rotation against a record being written: specs/LogReopen.tla (line-grain emit path, handler lock, signal checkpoints) is checked by TLC; the real Logger.reopen_files() is called from another thread at every source-line boundary of the real Logger.access(), and real SIGUSR1s from another process rotate the file while records are written (specs/LogReopenTrace.tla).",
        design_ref="DESIGN.md 4 C19, 9",
        technique="TLA+ model checking of byte accounting / record sites + TLC trace validation of real access records vs. the wire"),
    "C08": dict(
        text="specs/HeaderMap.tla transcribes parse_headers (scheme headers, underscore policy), the PROXY-line checks, "
             "wsgi.create and the carrying of PROXY info over keep-alive as Model(case) and states the trust rules as "
             "Envelope(case, obs); TLC checks Envelope(case, Model(case)) for the complete products (peer x forwarded_allow_ips "
             "x forwarder_headers x header_map x secure_scheme_headers x header lists; proxy_protocol x proxy_allow_ips x PROXY "
             "line x request index x worker class). The same cases are emitted by TLC, turned into real Config objects and byte "
             "requests, served by the real handle() (two requests on one connection for index 2), and the environ the application "
             "saw is judged by TLC (specs/HeaderMapTrace.tla): envelope, then equality with the model (drift). The TLS dimension (scheme https unless a permitted forwarder says otherwise) is product T of HeaderMap.tla.",
        design_ref="DESIGN.md 4 C08, 9",
        technique="TLA+ decision-table model + envelope checked by TLC on the full product; TLC-emitted cases replayed into the real handle(); TLC judges observed environs"),
    "C15": dict(
        text="specs/Environ.tla is an executable RFC 3875 / PEP 3333 reference over symbolic request targets (unreserved, "
             "slashes, percent-escapes of ASCII / high bytes / %2F / %25 / malformed escapes, raw high bytes, sub-delims, HTAB, "
             "query delimiter) in origin, '//'-prefixed, absolute and asterisk form; TLC enumerates every target of <= MaxLen "
             "symbols, checks the reference's sanity invariants and emits the cases; each is concretized (several spellings per "
             "symbol), served through the real parser and wsgi.create via handle(), and the environ (PATH_INFO, QUERY_STRING, "
             "RAW_URI, REQUEST_METHOD, SERVER_PROTOCOL, SCRIPT_NAME, HTTP_* with repeated fields, CONTENT_TYPE/LENGTH) is "
             "abstracted back to symbols and judged by TLC (specs/EnvironTrace.tla). Target forms include absolute-form targets with an empty path and SCRIPT_NAME given by the header of a permitted forwarder.",
        design_ref="DESIGN.md 4 C15, 9",
        technique="TLA+ executable reference of the CGI mapping; TLC-enumerated targets replayed into the real code; TLC judges observed environs",
        note="Transcribed-function use of the technique (DESIGN.md 6): class-complete enumeration and an independent reference, no interleavings. " ),
    "C18": dict(
        text="TLC checks specs/Recycle.tla (accept / count / leave-the-loop rule of the sync, gthread and async families, all "
             "interleavings of four client connections, max_requests in {0..3}) against StopsAcceptingAfterLimit, "
             "NoClientVisibleDrop, LimitAndInflightAnswered, ExitsAndReplaced, NeverRecycledWhenUnset, EverybodyServed. "
             "Bound to the code in-process (the real counting rule in handle_request of each family with seeded jitter; the "
             "real SyncWorker.run loop on a scripted listener) and by real processes (python -m gunicorn --max-requests M "
             "--max-requests-jitter J for sync / gthread / gevent / eventlet under sequential and concurrent clients, every "
             "response naming the serving pid, process table read after a quiescent tail); TLC judges every run against "
             "specs/RecycleTrace.tla."
             " Real-process modes: sequential, concurrent, burst (queued jobs), parked keep-alive connection, long request draining past --timeout, two listeners, keep-alive 0, body-less answers on a keep-alive connection, unix-socket binds, a master that is not scheduled while both workers reach the limit, the WSGI exc_info pattern at the limit; Recycle.tla models keep-alive connections (WorkAfterLimitBounded).",
        design_ref="DESIGN.md 4 C18, 9",
        technique="TLA+ model checking of the recycling rule + TLC trace validation of in-process worker loops and real gunicorn processes"),
    "C14": dict(
        text="TLC checks specs/Upgrade.tla (generations of masters over one set of listening descriptors, the pid files and a "
             "unix socket file; USR2 / stop signals to either master interleaved with boot, SIGCHLD reaping and promotion) "
             "for tcp and unix binds against ListenRefcountPositive, SocketFileUsable, SocketFileRemovedAtLast, Pid2ThenRename, "
             "AtMostTwoGenerationsAlive, RollbackRestores, PromotedOwnsConfiguredName. Real two-master histories (plain upgrade, "
             "rollback, second USR2 while pending, rollback then upgrade again, chained upgrade, USR2 to the un-promoted master) "
             "run from the working tree under a background client load; pid files, socket file, process table and refused "
             "connections at quiescent checkpoints are validated by TLC against specs/UpgradeTrace.tla, whose ops drive the "
             "Upgrade actions (clauses on observed values = verdict; difference from the model state = drift)."
             " Histories include WINCH / HUP on a daemonized old master (back-out, then the next upgrade), a new release that cannot boot, runs without a configured pid file, --timeout 0, servers started from a symlinked release directory that is switched before every USR2, HUP while an upgrade is pending, and worker turnover during a pending upgrade (MasterLeftWithoutWorkers). Run alongside (outside the property, drift only): specs/Listeners.tla, where a starting master gets its listeners from (activation variables, fd:// binds, what is at the unix path, a taken port), followed on real starts; and specs/BindAddr.tla, what a bind string means (util.parse_address transcribed character by character; every string of <= 3 / 4 pieces replayed into the real function and through Config.address). Deployments include settings given through GUNICORN_CMD_ARGS.",
        design_ref="DESIGN.md 4 C14, 9",
        technique="TLA+ model checking of the two-master protocol + TLC trace validation of real upgrade histories"),
    "C16": dict(
        text="TLC checks specs/ConfigMerge.tla (effective value of a setting after the source steps in the code's order, 7 "
             "setting kinds x mentions per source x which config-file namings exist: complete product) against "
             "MostAuthoritativeWins, UnmentionedUntouched, InvalidStopsStartup, ValidStarts; TLC emits the cases, each is "
             "instantiated for every setting in KNOWN_SETTINGS with values per validator family and loaded through a real "
             "WSGIApplication (argv, GUNICORN_CMD_ARGS, generated config files, framework defaults); TLC judges every load "
             "(specs/ConfigMergeTrace.tla)."
             " Cases include invalid values that compare equal to the value in force, a reload after the chosen file stopped mentioning the setting (model action Reload), and the stand-in environment variables below the built-in default (SENDFILE, WEB_CONCURRENCY, PORT, FORWARDED_ALLOW_IPS: FallbackOnlyWhenUnmentioned, loads compared under two values of the variable); real servers are judged by specs/ConfigRunTrace.tla.",
        design_ref="DESIGN.md 4 C16, 9",
        technique="TLA+ decision-table model checked on the full product; TLC-emitted cases replayed into the real config loader for all 93 settings; TLC judges outcomes",
        note="Transcribed-function use of the technique (DESIGN.md 6). "),
    "C17": dict(
        text="TLC checks specs/Pidfile.tla (create / validate / unlink / rename / reload at system-call grain, two instances, a "
             "foreign writer, owner death, a crash before every system call of create; operation-atomic configuration with "
             "<= 6-7 operations) against RefusesLiveForeign, TakesOverStale, NeverPartialContent, UnlinkOnlyOwn, RenameOnlyOwn, "
             "NeverDeletesForeign, RenameMoves; TLC behaviours, enumerated short histories and seeded random histories are "
             "replayed on the real Pidfile class over a scratch directory (real file-system calls, simulated process table, crash "
             "and short-write injection at every call) and judged call by call by TLC (specs/PidfileTrace.tla)."
             " Two instances inside create() with every interleaving of their system calls (specs/PidfileConcTrace.tla, bound to the model's SharedTmp deviation) a real master's pid file through the life of its workers and daemonised starts polled by a reader (specs/PidfileRealTrace.tla), and kernel-level crash points of create() (strace fault injection; fresh, stale and symlinked paths, pid directory on the same / another file system) are included.",
        design_ref="DESIGN.md 4 C17, 9",
        technique="TLA+ model checking at system-call grain with crash injection + TLC trace validation of histories replayed on the real Pidfile class"),
    "C20": dict(
        text="TLC checks specs/Privs.tla (kernel credential rules for setuid/setgid/initgroups and the worker start path: "
             "heartbeat-file chown, fork, lookup, initgroups, setgid, setuid, load, first heartbeat) on the complete product "
             "(master identity x user/group spelling x target x initgroups x passwd entry) against WorkerCredsExact, "
             "DropBeforeLoad, MasterKeepsIdentity, HeartbeatWritable, PermittedDropSucceeds; every case runs on the real "
             "Worker.init_process / set_owner_process over a recording fake kernel and in real forked processes as root "
             "(www-data, nobody, uid without passwd entry), plus real gunicorn servers (initial, respawned and post-HUP "
             "workers read from /proc); TLC judges each record (specs/PrivsTrace.tla)."
             " Real servers include settings given through GUNICORN_CMD_ARGS, the workers of a USR2-started master and a HUP with an invalid configuration file; cases also run with the worker timeout switched off, with a capability missing (fake kernel), with ids beyond 2^31, with a master whose real and effective gid differ (rootsplit), and with settings read from ./gunicorn.conf.py across a HUP.",
        design_ref="DESIGN.md 4 C20, 9",
        technique="TLA+ model of kernel credential semantics checked on the full product + TLC trace validation of real credential drops"),
    "C13": dict(
        text="TLC checks specs/GThread.tla (main loop of the threaded worker one action per code segment - gate, select, accept, "
             "readable/dispatch, futures sweep, keep-alive reaper, shutdown - pool-thread start/handle/finish steps, clients, "
             "ticks, TERM, parent death, handler crash/cancel) for threads and worker_connections in 1..3, keep-alive 0/2: "
             "invariants ConnAccounting, NeverExceedMax, NoDoubleClose, KeepAliveNotBefore, action properties "
             "NoCloseWhileHandled, NoPendingDroppedAtExit, liveness ServedIfThreadFree, EventuallyClosed, ReturnsToZero, "
             "ReapedWhenExpired under fairness. TLC -simulate behaviours are replayed into the REAL ThreadWorker.run() over a "
             "scripted selector / sockets / executor with virtual time (projected state compared after every step), plus "
             "scripted scenarios and seeded random schedules; all runs are judged by TLC against specs/GThreadTrace.tla."
             " Real gthread processes (segmented requests on kept-alive connections, wall-clock keep-alive, pipelined requests, every connection slot taken beyond --timeout, two workers on a listener inherited in blocking mode) are judged against specs/GThreadRealTrace.tla.",
        design_ref="DESIGN.md 4 C13, 9",
        technique="TLA+ model checking (safety + liveness) of the threaded worker + TLC trace validation of the real ThreadWorker.run() under scheduled interleavings"),
    "C03": dict(
        text="TLC checks specs/Arbiter.tla (the master loop one action per code segment between two system calls - Fork and "
             "Assign separate, the SIGCHLD handler enabled between any two master actions incl. inside stop() - over a kernel "
             "model with process table, heartbeats and pending signals): invariants NoUntrackedChild, NoZombieAtRest, "
             "TargetIsRequested, RetireIsOldest, KillOnlyChildren ..., liveness Converges, BootFailureHalts under fairness with "
             "fault and signal budgets. The REAL Arbiter.run() runs in-process on a simulated kernel (fork/kill/waitpid/select/"
             "time/signal replaced inside gunicorn.arbiter only; real WorkerTmp heartbeat files in virtual time); TLC -simulate "
             "behaviours are replayed (projected state compared after every master operation), explicit dangerous windows "
             "and seeded random schedules are recorded; every run is judged by TLC against specs/ArbiterTrace.tla."
             " Real servers whose workers cannot boot are judged against specs/BootTrace.tla. Real servers whose workers cannot boot (application import, post_fork, post_worker_init) are judged by specs/BootTrace.tla. Run alongside (outside the property, differences reported as drift only): specs/Lifecycle.tla, the order of the server hooks, checked by TLC, as an inductive invariant by Apalache, and followed on the hook logs of real servers; a booted worker killed by a signal under statsd deployments (BootTrace event death).",
        design_ref="DESIGN.md 4 C03, 9",
        technique="TLA+ model checking (safety + liveness) of the master loop with an asynchronous SIGCHLD handler + TLC trace validation of the real Arbiter.run() on a simulated kernel"),
    "C04": dict(
        text="Master side: TLC on specs/Arbiter.tla (stop/halt path: TERM is graceful, KILL only after the deadline, no worker "
             "survives, listeners closed, pid file and unix socket removed, exit status 0, ShutdownCompletes) and the real "
             "Arbiter.run() on the simulated kernel with TERM/INT/QUIT injected at every master operation, judged by "
             "specs/ArbiterTrace.tla. Worker / client side: real gunicorn processes of sync, gthread, gevent (thorough: "
             "eventlet) with clients parked in each phase of a connection's life (idle, head partly received - rest arriving "
             "before / after the listener is closed -, application running, response partly written, keep-alive idle), "
             "applications that finish / overrun / never finish, optional TTIN+TTOU before the stop; exit status and time, "
             "survivors, listening socket, pid and socket files read at the moment the master is gone; judged by TLC against "
             "specs/ShutdownTrace.tla. Real shutdowns include --reuse-port, --reload, saturated connection pools and stop signals during a slow application import.",
        design_ref="DESIGN.md 4 C04, 9",
        technique="TLA+ model checking of the shutdown path + TLC trace validation of the real Arbiter on a simulated kernel and of real-process shutdowns"),
    "C10": dict(
        text="Master side: TLC on specs/Arbiter.tla (reload: listeners untouched when the address is unchanged, spawn before "
             "retire, old workers only TERMed, afterwards only the new generation in the new number; HUPs interleaved with "
             "deaths, TTIN/TTOU and SIGCHLD delivery) and the real Arbiter.reload() on the simulated kernel, judged by "
             "specs/ArbiterTrace.tla. Worker / client side: real gunicorn processes (numeric, host-name and unix binds) under "
             "a load of short, long and streaming requests during 1-3 HUPs that change worker count and a marker variable "
             "(refused / cut / complete per request, old workers gone, new count, new marker); the real SyncWorker.run() loop "
             "in-process with TERM delivered at every system-call boundary (every connection taken off the listen queue must be "
             "answered); judged by TLC against specs/ReloadTrace.tla. The real sync loop follows specs/SyncLoop.tla (AtMostOneAcceptAfterStop). Real reloads include a configuration file named relative to the start directory; line-level injection follows a HUP on the simulated kernel (clause MasterExitedUnasked). A client re-using one kept-alive connection across the reloads and HUP bursts faster than a worker boots; the connection-level loop of the three worker kinds follows specs/KeepAlive.tla (ServedAfterStop).",
        design_ref="DESIGN.md 4 C10, 9",
        technique="TLA+ model checking of reload + TLC trace validation of the real Arbiter on a simulated kernel, of real-process reloads under load and of the real sync loop with TERM injected at every system call"),
    "C11": dict(
        text="Master side: TLC on specs/Arbiter.tla with explicit time (timeouts 1..3): MurderOnlyStale, AbortBeforeKill, "
             "HungKilledInTime, HungReplaced, healthy workers never signalled; the real murder_workers / WorkerTmp pair on the "
             "simulated kernel in virtual time, judged by specs/ArbiterTrace.tla. Worker side on real processes (--timeout 2): "
             "blocked application, SIGSTOP, SIGABRT ignored, with and without a master that is woken several times per second; "
             "healthy workers idle, busy with back-to-back sub-timeout requests, busy on several listeners, busy with a never "
             "empty listen queue, for sync / gthread / gevent (thorough: eventlet); judged by TLC against specs/TimeoutTrace.tla. Real scenarios include a listening socket inherited in blocking mode and workers draining after a reload; the simulated kernel lets an aborted worker dump core. Worker side: specs/SyncLoop.tla (the sync worker's loop, TLC safety + liveness) with the events of the real SyncWorker.run() validated by specs/SyncLoopTrace.tla (BeatBeforeEveryBlockingOp, Leaves).",
        design_ref="DESIGN.md 4 C11, 9",
        technique="TLA+ timed model checking of the timeout scan + TLC trace validation of the real Arbiter in virtual time and of real-process hang / healthy scenarios"),
}

NOT_YET = {
}


def main():
    checks = []
    for pid in sorted(CLAIMED):
        c = CLAIMED[pid]
        checks.append({
            "property_id": pid,
            "quick_cmd": "./check %s --tier quick" % pid,
            "thorough_cmd": "./check %s --tier thorough" % pid,
            "evidence_file": "/verif/evidence/%s.json" % pid,
            "replay_cmd_template": "./check %s --replay {path}" % pid,
            "engine": "tlc",
            "level_claimed": {"category": "model_checking", "text": c["text"], "design_ref": c["design_ref"]},
            "level_note": c.get("note", "") + TLC_NOTE,
            "technique": c["technique"],
        })
    allp = ["C%02d" % i for i in range(1, 21)]
    na = [{"property_id": p, "reason": NOT_YET.get(p, "check not built yet in this round (planned in DESIGN.md section 4); not claimed until its check exists and passes on the unchanged tree")}
          for p in allp if p not in CLAIMED]
    man = {
        "version": 1,
        "setup_cmd": "./setup.sh",
        "hooks": {
            "guard": "BENOITC_GUNICORN_VERIF",
            "enable": "checks set BENOITC_GUNICORN_VERIF=1 and import gunicorn from /repo's working tree (pure Python, no build step)",
            "baseline_off_cmd": "cd /repo && env -u BENOITC_GUNICORN_VERIF /venv/bin/python -m pytest -ra -q -p no:cacheprovider --timeout=900 --continue-on-collection-errors",
            "source_commits": [],
            "add_only": True,
        },
        "engines": [{"name": "tlc", "path": "/verif/harness/tlc.py", "serves_properties": sorted(CLAIMED),
                     "kind_free_text": "TLC 1.8 model checker: exhaustive / simulate runs of /verif/specs/*.tla and batch trace validation"},
                    {"name": "apalache", "path": "/verif/harness/props/lifecycle.py", "serves_properties": ["C03"],
                     "kind_free_text": "Apalache 0.58: inductive invariant of specs/Lifecycle.tla (server hooks; run alongside C03, outside the property) through specs/apalache/MC_Lifecycle.tla"}],
        "checks": checks,
        "not_applicable": na,
        "notes": "All checks: ./check <id> [--tier quick|thorough] [--seed N] [--replay path]; exit 0 held / 1 VIOLATION / 2 machinery failure. known_findings.json lists recorded and fixed defects.",
    }
    with open(os.path.join(HOME, "MANIFEST.json"), "w") as f:
        json.dump(man, f, indent=1)
        f.write("\n")


if __name__ == "__main__":
    main()
