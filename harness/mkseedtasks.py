#!/usr/bin/env python3
"""Prepare one seeding round: for every property a scratch git worktree of /repo under /tmp and a TASK.md for a fresh
sub-agent (property text only + one-line summaries of the earlier changes for that property; nothing of /verif).
usage: harness/mkseedtasks.py <round> [properties...]"""
import glob
import json
import os
import subprocess
import sys

HOME = os.path.dirname(os.path.dirname(os.path.abspath(__file__)))
TEMPLATE = """You are a software engineer testing a verification tool. You are given a scratch git worktree of the gunicorn web server (pure Python 3.12, pre-fork WSGI HTTP server) at {wt} . Work ONLY inside {wt} and {out} ; do NOT read, list or use anything under /verif or /root (that is the tool being tested; what you write must be independent of it), and do not touch /repo. Do NOT use `git stash` (the stash is shared between worktrees); use `git -C {wt} checkout -- .` to get back to the clean tree.

PROPERTY of gunicorn that is supposed to hold ("{title}"):
{statement}
Quantifier: {quant}

YOUR TASK: produce TWO different, realistic code changes (mutations) to the gunicorn sources in the worktree, each of which BREAKS this property, while
 (a) gunicorn still imports and runs,
 (b) the repository's existing test suite still passes:  cd {wt} && PYTHONPATH={wt} /venv/bin/python -m pytest -q -p no:cacheprovider --no-cov tests/   (260 tests; run it for each mutation),
 (c) the breakage needs something SPECIFIC to manifest - a particular interleaving / schedule, a crash or fault at a particular point, a multi-step sequence of operations, an unusual input, a particular configuration (worker class, setting, platform feature), or two cooperating code sites that each look fine alone - NOT something that ordinary use (a plain GET / a normal start-stop) would expose at once. Think of the kind of subtle regression a plausible refactoring, "optimisation" or "cleanup" commit could introduce. The two mutations must use different mechanisms / code sites. Keep each change small (a few lines).

Be adversarial: assume the property is checked by a tool that runs the real code on systematically generated inputs and schedules and starts real gunicorn processes for a number of scenarios, under several deployments. Choose changes whose trigger such a tool could plausibly have overlooked: a rarely used but documented setting, an unusual combination of worker class and feature, a boundary value, a second-order effect of one module on another (a module the property's wording does not point to), a path only taken after an earlier error, a timing window between two specific steps, a dependence on the environment the server is started in. The change must still be a genuine violation of the property as worded above (within its quantifier), not of something the property does not say.

Earlier rounds already produced the following mutations for this property. Yours must be DIFFERENT from all of them: a different code site where possible, and in any case a different mechanism and a different triggering condition. Look for parts of the code base and of the property's statement that none of them touches:
{earlier}

For each mutation k in (1, 2) write into {out}/ :
  - m{{k}}.diff : the output of `git -C {wt} diff` for that mutation alone (apply one mutation at a time on a clean tree: `git -C {wt} checkout -- .` between them),
  - m{{k}}_demo.py : a small self-contained demonstration program (standard library + the gunicorn package only; it takes the path of a gunicorn source tree as argv[1], inserts it at sys.path[0], and may start real gunicorn processes with `/venv/bin/python -m gunicorn` using PYTHONPATH=argv[1] if needed; gevent and eventlet are installed in /venv) that exits 0 and prints PASS when the property holds for its scenario and exits 1 and prints FAIL when it does not. It must FAIL on the mutated tree and PASS on the clean tree (verify both: clean tree = after `git checkout -- .`). It should finish within 60 seconds and clean up the temporary files / processes it creates (use tempfile.mkdtemp and remove it; leave nothing in /tmp).
  - m{{k}}.json : {{"property": "{pid}", "summary": "...what was changed...", "needs": "...what specific input/schedule/config/sequence is needed for the violation to show...", "files": [...]}}
Leave the worktree clean (git checkout -- .) when done. Your final message: for each mutation one paragraph (what, why it breaks the property, what it needs to manifest, confirmation that tests pass and demo fails/passes as required).
"""


def main():
    rnd = sys.argv[1]
    props = {}
    with open(os.path.join(HOME, "properties.jsonl")) as f:
        for ln in f:
            d = json.loads(ln)
            props[d["id"]] = d
    for pid in (sys.argv[2:] or sorted(props)):
        d = props[pid]
        wt, out = "/tmp/seed%s_%s" % (rnd, pid), "/tmp/seed%s_%s_out" % (rnd, pid)
        subprocess.run("git -C /repo worktree remove --force %s" % wt, shell=True, capture_output=True)
        r = subprocess.run("git -C /repo worktree add -q --detach %s HEAD" % wt, shell=True, capture_output=True, text=True)
        if r.returncode:
            print(pid, "worktree:", r.stderr.strip())
            continue
        os.makedirs(out, exist_ok=True)
        earlier = []
        for m in sorted(glob.glob(os.path.join(HOME, "seeded", pid + "_*", "meta.json"))):
            try:
                earlier.append("- " + json.load(open(m))["breaks"][:260].replace("\n", " "))
            except Exception:   # noqa
                pass
        with open(os.path.join(out, "TASK.md"), "w") as f:
            f.write(TEMPLATE.format(wt=wt, out=out, title=d["title"], statement=d["statement"], quant=d["quantifier"]["text"],
                                    earlier="\n".join(earlier) or "- (none)", pid=pid))
        print(pid, wt, len(earlier), "earlier")


if __name__ == "__main__":
    main()
