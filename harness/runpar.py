#!/usr/bin/env python3
"""run every check once, J at a time, each with its own scratch directory; one line per check (as runall.sh).
usage: harness/runpar.py [tier] [J] [properties...]"""
import os
import shutil
import subprocess
import sys
import time
from concurrent.futures import ThreadPoolExecutor

HERE = os.path.dirname(os.path.dirname(os.path.abspath(__file__)))
ORDER = ["C06", "C01", "C13", "C03", "C12", "C07", "C02", "C05", "C04", "C14", "C10", "C11", "C16", "C17", "C18", "C19", "C20",
         "C08", "C09", "C15"]          # longest first


def one(p, tier):
    out_dir = os.path.join(HERE, "out", "par_" + p)
    t0 = time.time()
    r = subprocess.run([os.path.join(HERE, "check"), p, "--tier", tier, "--seed", os.environ.get("VERIF_SEED", "0")],
                       cwd=HERE, env=dict(os.environ, VERIF_OUT=out_dir), capture_output=True, text=True)
    out = r.stdout + r.stderr
    lines = out.splitlines()
    msg = "%s rc=%d %ds %d viol %d known %d drift | %s" % (
        p, r.returncode, time.time() - t0, sum(1 for x in lines if x.startswith("VIOLATION")),
        sum(1 for x in lines if x.startswith("KNOWN-FINDING")), sum(1 for x in lines if x.startswith("DRIFT")),
        (lines[-1] if lines else "")[:120])
    if r.returncode != 0:
        msg += "\n" + "\n".join("    %s: %s" % (p, x[:300]) for x in lines
                                if x.startswith(("VIOLATION", "MACHINERY")) or "signature:" in x or "Error" in x)[:3000]
    else:
        shutil.rmtree(out_dir, ignore_errors=True)
    print(msg, flush=True)
    return r.returncode


def main():
    tier = sys.argv[1] if len(sys.argv) > 1 else "quick"
    j = int(sys.argv[2]) if len(sys.argv) > 2 else 2
    props = sys.argv[3:] or ORDER
    with ThreadPoolExecutor(max_workers=j) as ex:
        rcs = list(ex.map(lambda p: one(p, tier), props))
    sys.exit(0 if not any(rcs) else 1)


if __name__ == "__main__":
    main()
