"""Real-process runs: start `python -m gunicorn` from the repository working tree, drive it with
raw-socket clients and signals, observe it from outside (responses carry the serving pid and the
configuration marker; /proc gives the process tree and credentials).  No repository hook needed."""
import errno
import os
import re
import shutil
import signal
import socket
import subprocess
import sys
import tempfile
import time

HOME = os.environ.get("VERIF_HOME", "/verif")
REPO = os.environ.get("VERIF_REPO", "/repo")
APPDIR = os.path.join(HOME, "harness", "realapp")
SCRATCH = os.path.join(os.environ.get("VERIF_OUT") or os.path.join(HOME, "out"), "real")
PY = "/venv/bin/python"


HOOKS = '''
import os as _os
def post_worker_init(worker):
    open(_os.path.join(%(dir)r, "booted.%%d" %% worker.pid), "w").close()
def worker_exit(server, worker):
    try:
        open(_os.path.join(%(dir)r, "exited.%%d" %% worker.pid), "w").close()
    except OSError:
        pass
'''


def free_port():
    s = socket.socket()
    s.bind(("127.0.0.1", 0))
    p = s.getsockname()[1]
    s.close()
    return p


def pids_matching(text):
    """pids of the processes whose command line contains `text`"""
    out = []
    for d in os.listdir("/proc"):
        if d.isdigit() and int(d) != os.getpid():
            try:
                with open("/proc/%s/cmdline" % d, "rb") as f:
                    if text.encode() in f.read():
                        out.append(int(d))
            except OSError:
                pass
    return out


def children_of(pid):
    """direct children (pids) of a process, from /proc"""
    if not os.path.isdir("/proc/%d" % pid):
        return []
    try:
        # (the kernel's own list where it is compiled in: no scan of the whole process table)
        kids = set()
        for t in os.listdir("/proc/%d/task" % pid):
            with open("/proc/%d/task/%s/children" % (pid, t)) as f:
                kids.update(int(x) for x in f.read().split())
        return sorted(kids)
    except (OSError, ValueError):
        pass
    out = []
    for d in os.listdir("/proc"):
        if not d.isdigit():
            continue
        try:
            with open("/proc/%s/stat" % d) as f:
                st = f.read()
            ppid = int(st[st.rfind(")") + 2:].split()[1])
            if ppid == pid:
                out.append(int(d))
        except (OSError, ValueError, IndexError):
            pass
    return sorted(out)


def proc_state(pid):
    try:
        with open("/proc/%d/stat" % pid) as f:
            st = f.read()
        return st[st.rfind(")") + 2:].split()[0]
    except OSError:
        return None


def proc_ids(pid):
    """-> dict(uid=[r,e,s,fs], gid=[...], groups=[...]) from /proc/<pid>/status"""
    out = {}
    try:
        with open("/proc/%d/status" % pid) as f:
            for ln in f:
                if ln.startswith("Uid:"):
                    out["uid"] = [int(x) for x in ln.split()[1:]]
                elif ln.startswith("Gid:"):
                    out["gid"] = [int(x) for x in ln.split()[1:]]
                elif ln.startswith("Groups:"):
                    out["groups"] = sorted(int(x) for x in ln.split()[1:])
    except OSError:
        return None
    return out


def ignore_master_signals():
    import signal
    for name in ("SIGCHLD", "SIGHUP", "SIGQUIT", "SIGINT", "SIGTERM", "SIGTTIN", "SIGTTOU", "SIGUSR1", "SIGUSR2", "SIGWINCH"):
        signal.signal(getattr(signal, name), signal.SIG_IGN)


class Server:
    def __init__(self, worker_class="sync", workers=1, threads=None, args=(), bind="tcp", pidfile=False,
                 config=None, env=None, name="srv", daemon=False, tls=False, release=False, relcfg=False, ignsig=False):
        # ignsig: the starter leaves the signals the master uses set to "ignore" (nohup, cron-style launchers, a wrapper that
        # ignores SIGCHLD not to collect zombies); dispositions set to ignore are inherited across fork and exec
        # (also selectable by a marker among the server arguments, for plans that only carry argument lists)
        args = list(args)
        if "@ignsig" in args:
            args.remove("@ignsig")
            ignsig = True
        self.ignsig = ignsig
        self.dir = tempfile.mkdtemp(prefix=name + "_", dir=_scratch())
        self.port = None
        self.sockpath = None
        self._lsock = None
        if bind == "fd":
            # a listening socket handed over by the starter (the documented fd://N bind; what systemd socket activation
            # does): created here, left in BLOCKING mode as a plain socket() is
            self._lsock = socket.socket(socket.AF_INET, socket.SOCK_STREAM)
            self._lsock.setsockopt(socket.SOL_SOCKET, socket.SO_REUSEADDR, 1)
            self._lsock.bind(("127.0.0.1", 0))
            self._lsock.listen(64)
            self._lsock.set_inheritable(True)
            self.port = self._lsock.getsockname()[1]
            self.bind = "fd://%d" % self._lsock.fileno()
        elif bind in ("tcp", "localhost"):
            self.port = free_port()
            # "localhost": the configured address differs textually from what getsockname() reports
            self.bind = ("127.0.0.1:%d" if bind == "tcp" else "localhost:%d") % self.port
        else:
            self.sockpath = os.path.join(self.dir, "g.sock")
            self.bind = "unix:" + self.sockpath
        self.pidfile = os.path.join(self.dir, "g.pid") if pidfile else None
        self.cfgfile = os.path.join(self.dir, "conf.py")
        # gunicorn's own server hooks leave marker files: booted.<pid> / exited.<pid>
        self.hooks = HOOKS % {"dir": self.dir}
        self.config_text = self.hooks + (config or "")
        with open(self.cfgfile, "w") as f:
            f.write(self.config_text)
        self.cmd = [PY, "-m", "gunicorn", "--chdir", APPDIR, "-c", self.cfgfile, "-b", self.bind, "-k", worker_class,
                    "-w", str(workers), "--log-level", "debug", "--error-logfile", os.path.join(self.dir, "err.log"),
                    "--worker-tmp-dir", self.dir]       # (heartbeat files of killed workers go away with the scratch dir)
        if threads:
            self.cmd += ["--threads", str(threads)]
        if self.pidfile:
            self.cmd += ["-p", self.pidfile]
        self.daemon = daemon
        self.tls = tls
        if tls:
            self.cmd += ["--certfile", os.path.join(REPO, "examples", "server.crt"),
                         "--keyfile", os.path.join(REPO, "examples", "server.key")]
        self._pid = None
        if daemon:
            # the launcher exits after the double fork; the master is found through its pid file
            if not self.pidfile:
                self.pidfile = os.path.join(self.dir, "g.pid")
                self.cmd += ["-p", self.pidfile]
            self.cmd += ["--daemon"]
        self.cmd += list(args) + ["vapp:app"]
        self.env = dict(os.environ)
        self.env.update({"PYTHONPATH": REPO, "PYTHONDONTWRITEBYTECODE": "1", "PYTHONUNBUFFERED": "1"})
        self.cwd = REPO
        if relcfg:
            # the configuration file is named relative to the start directory, while --chdir names another one
            self.cmd[self.cmd.index("-c") + 1] = os.path.basename(self.cfgfile)
            self.cwd = self.dir
        self.release = 0
        if release:
            # a "current -> releases/N" deployment: the server is started from the symlinked directory (as a shell
            # would after "cd current": $PWD names the symlink) and finds the application there
            self.release = 1
            self._mkrelease(1)
            self.cwd = os.path.join(self.dir, "current")
            os.symlink(os.path.join(self.dir, "releases", "1"), self.cwd)
            k = self.cmd.index("--chdir")
            del self.cmd[k:k + 2]
            self.env["PWD"] = self.cwd
        self.env.pop("GUNICORN_CMD_ARGS", None)
        if env:
            self.env.update(env)
        self.proc = None
        self.t0 = None
        self.probe = "/pid"                 # what start() asks for until the server answers

    def _mkrelease(self, n):
        d = os.path.join(self.dir, "releases", str(n))
        os.makedirs(d)
        shutil.copy(os.path.join(APPDIR, "vapp.py"), d)
        return d

    def switch_release(self):
        """deploy the next release: repoint the symlink atomically, remove the previous release directory"""
        old = os.path.join(self.dir, "releases", str(self.release))
        self.release += 1
        new = self._mkrelease(self.release)
        os.symlink(new, self.cwd + ".new")
        os.rename(self.cwd + ".new", self.cwd)
        shutil.rmtree(old, ignore_errors=True)

    def rewrite_config(self, text):
        with open(self.cfgfile, "w") as f:
            f.write(self.hooks + text)

    def booted(self):
        return sorted(int(x.split(".")[1]) for x in os.listdir(self.dir) if x.startswith("booted."))

    def exited(self):
        return sorted(int(x.split(".")[1]) for x in os.listdir(self.dir) if x.startswith("exited."))

    def wait_booted(self, n, timeout=15):
        """wait until n workers have finished booting (post_worker_init ran)"""
        deadline = time.time() + timeout
        while time.time() < deadline:
            live = [p for p in self.booted() if p in self.workers()]
            if len(live) >= n:
                return live
            time.sleep(0.05)
        raise RuntimeError("workers did not boot: %s" % self.errlog()[-1500:])

    def start(self, timeout=15):
        self.t0 = time.time()
        self.proc = subprocess.Popen(self.cmd, cwd=self.cwd, env=self.env, stdout=subprocess.DEVNULL,
                                     pass_fds=[self._lsock.fileno()] if self._lsock else (),
                                     preexec_fn=ignore_master_signals if self.ignsig else None,
                                     stderr=subprocess.DEVNULL)
        deadline = time.time() + timeout
        if self.daemon:
            self.proc.wait(timeout)
            while time.time() < deadline and self._pid is None:
                try:
                    with open(self.pidfile) as f:
                        self._pid = int(f.read().strip())
                except (OSError, ValueError):
                    time.sleep(0.05)
        while time.time() < deadline:
            if not self.daemon and self.proc.poll() is not None:
                raise RuntimeError("gunicorn exited at start with %s: %s" % (self.proc.returncode, self.errlog()[-2000:]))
            try:
                st, body, _ = self.get(self.probe, timeout=1.0)
                if st == 200:
                    return self
            except OSError:
                pass
            time.sleep(0.05)
        raise RuntimeError("gunicorn did not start: %s" % self.errlog()[-2000:])

    @property
    def pid(self):
        return self._pid if self.daemon else self.proc.pid

    def now(self):
        """milliseconds since start"""
        return int((time.time() - self.t0) * 1000)

    def errlog(self):
        try:
            with open(os.path.join(self.dir, "err.log")) as f:
                return f.read()
        except OSError:
            return ""

    def workers(self):
        return children_of(self.pid)

    def signal(self, sig, pid=None):
        os.kill(pid or self.pid, sig)

    def connect(self, timeout=5.0, port=None, raw=False):
        if self.port or port:
            s = socket.socket(socket.AF_INET, socket.SOCK_STREAM)
            s.settimeout(timeout)
            s.connect(("127.0.0.1", port or self.port))
        else:
            s = socket.socket(socket.AF_UNIX, socket.SOCK_STREAM)
            s.settimeout(timeout)
            s.connect(self.sockpath)
        if self.tls and not raw:
            import ssl
            ctx = ssl.SSLContext(ssl.PROTOCOL_TLS_CLIENT)
            ctx.check_hostname = False
            ctx.verify_mode = ssl.CERT_NONE
            try:
                s = ctx.wrap_socket(s)
            except (ssl.SSLError, OSError) as e:
                s.close()
                raise ConnectionResetError("tls handshake failed: %s" % e)
        return s

    def get(self, path, timeout=5.0, sock=None, keepalive=False, method="GET", body=b"", port=None):
        """-> (status, body bytes, info).  Raises OSError subclasses on connect failure."""
        own = sock is None
        s = sock or self.connect(timeout, port=port)
        try:
            s.settimeout(timeout)
            req = ("%s %s HTTP/1.1\r\nHost: h\r\n%s%s\r\n" % (
                method, path, "" if keepalive else "Connection: close\r\n",
                "Content-Length: %d\r\n" % len(body) if body else "")).encode() + body
            s.sendall(req)
            return read_response(s)
        finally:
            if own:
                s.close()

    def wait_exit(self, timeout):
        try:
            return self.proc.wait(timeout)
        except subprocess.TimeoutExpired:
            return None

    def cleanup(self):
        if self.daemon and self._pid and proc_state(self._pid) not in (None, "Z"):
            try:
                for c in self.workers():
                    try:
                        os.kill(c, signal.SIGKILL)
                    except OSError:
                        pass
                os.kill(self._pid, signal.SIGKILL)
            except Exception:
                pass
        if self.proc and self.proc.poll() is None:
            try:
                for c in self.workers():
                    try:
                        os.kill(c, signal.SIGKILL)
                    except OSError:
                        pass
                self.proc.kill()
                self.proc.wait(5)
            except Exception:
                pass
        if self._lsock is not None:
            try:
                self._lsock.close()
            except OSError:
                pass
        shutil.rmtree(self.dir, ignore_errors=True)


def _scratch():
    os.makedirs(SCRATCH, exist_ok=True)
    return SCRATCH


def read_response(s):
    """read one HTTP response from socket s -> (status, body, info dict(complete, closed, reset))"""
    buf = b""
    info = {"complete": False, "closed": False, "reset": False, "timeout": False}
    try:
        while b"\r\n\r\n" not in buf:
            d = s.recv(65536)
            if not d:
                info["closed"] = True
                return (0, buf, info)
            buf += d
        head, _, rest = buf.partition(b"\r\n\r\n")
        lines = head.split(b"\r\n")
        status = int(lines[0].split()[1])
        hdrs = {}
        for ln in lines[1:]:
            k, _, v = ln.partition(b":")
            hdrs[k.strip().lower()] = v.strip()
        info["headers"] = {k.decode("latin-1"): v.decode("latin-1") for k, v in hdrs.items()}
        if status in (204, 304) or 100 <= status < 200:
            info["complete"] = True            # no body by definition
            return (status, b"", info)
        if b"content-length" in hdrs:
            n = int(hdrs[b"content-length"])
            while len(rest) < n:
                d = s.recv(65536)
                if not d:
                    info["closed"] = True
                    return (status, rest, info)
                rest += d
            info["complete"] = True
            return (status, rest[:n], info)
        if hdrs.get(b"transfer-encoding", b"").lower() == b"chunked":
            body = b""
            while True:
                while b"\r\n" not in rest:
                    d = s.recv(65536)
                    if not d:
                        info["closed"] = True
                        return (status, body, info)
                    rest += d
                line, _, rest = rest.partition(b"\r\n")
                n = int(line.split(b";")[0], 16)
                while len(rest) < n + 2:
                    d = s.recv(65536)
                    if not d:
                        info["closed"] = True
                        return (status, body + rest, info)
                    rest += d
                if n == 0:
                    info["complete"] = True
                    return (status, body, info)
                body += rest[:n]
                rest = rest[n + 2:]
        # until close
        while True:
            d = s.recv(65536)
            if not d:
                info["closed"] = True
                info["complete"] = True
                return (status, rest, info)
            rest += d
    except socket.timeout:
        info["timeout"] = True
        return (0, buf, info)
    except ConnectionResetError:
        info["reset"] = True
        return (0, buf, info)


def parse_ident(body):
    m = re.search(rb"pid=(\d+) marker=(\S+)", body)
    if not m:
        return None, None
    return int(m.group(1)), m.group(2).decode()
