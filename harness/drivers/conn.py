"""Serve one scripted connection through the REAL handle() of a gunicorn worker class
(SyncWorker, ThreadWorker incl. finish_request, AsyncWorker) without processes or real sockets.

The driver owns the socket (scripted recv segments, recorded sends, scheduled send/recv faults),
the listener, the application and the logger handlers; it returns everything observable:
wire bytes, whether/when the socket was closed, application calls, access-log records, the
environ the application saw, exceptions that escaped handle(), worker state (nr, alive).
"""
import contextlib
import errno
import io
import logging
import os
import socket
import sys
import tempfile
import threading
from collections import deque
from concurrent import futures

from gunicorn.config import Config
from gunicorn import glogging
from gunicorn.workers.sync import SyncWorker
from gunicorn.workers.gthread import ThreadWorker, TConn
from gunicorn.workers.base_async import AsyncWorker

SCRATCH = os.path.join(os.environ.get("VERIF_OUT") or os.path.join(os.environ.get("VERIF_HOME", "/verif"), "out"), "tmp")
os.makedirs(SCRATCH, exist_ok=True)


class FakeSock:
    family = socket.AF_INET

    def __init__(self, segments, recv_fault=None, send_fail_at=None, send_errno=errno.EPIPE,
                 eof_kind="eof"):
        self.segs = list(segments)
        self._buf = b""                     # (not "pending": that is a method of TLS sockets)
        self.readable = True                # the poller reported the socket readable (consumed by the next new segment)
        self.wire = bytearray()
        self.closed = 0
        self.shut = False
        self.recv_fault = recv_fault        # (after_n_recvs, errno) -> raise OSError
        self.send_fail_at = send_fail_at    # fail once this many bytes have been accepted
        self.send_errno = send_errno
        self.eof_kind = eof_kind            # what recv does when the script is exhausted: eof | reset
        self.nrecv = 0
        self.sends = []                     # sizes of individual send calls
        self.blocking = True
        self.sent_after_close = 0
        self.recv_after_send = False        # the worker went back to reading after its last write
        self.delivered = 0                  # bytes handed to the reader so far

    # -- reading
    def recv(self, n):
        if self.closed:
            raise OSError(errno.EBADF, "Bad file descriptor")
        self.nrecv += 1
        if self.wire:
            self.recv_after_send = True
        if self.recv_fault and self.nrecv > self.recv_fault[0]:
            raise OSError(self.recv_fault[1], os.strerror(self.recv_fault[1]))
        if not self._buf:
            # a new segment is needed.  Segments arrive separated in time: a socket left in non-blocking mode only has
            # what the poller announced; asking for more raises EAGAIN (a blocking socket waits for the next segment)
            if not self.blocking and not self.readable:
                raise BlockingIOError(errno.EAGAIN, "Resource temporarily unavailable")
            self.readable = False
            if not self.segs:
                if self.eof_kind == "reset":
                    raise OSError(errno.ECONNRESET, "Connection reset by peer")
                return b""
            self._buf = self.segs.pop(0)
        out, self._buf = self._buf[:n], self._buf[n:]
        self.delivered += len(out)
        return out

    def more_input(self):
        return bool(self._buf or self.segs)

    # -- writing
    def _accept(self, data):
        if self.closed:
            self.sent_after_close += len(data)
            raise OSError(errno.EBADF, "Bad file descriptor")
        if self.send_fail_at is not None:
            room = self.send_fail_at - len(self.wire)
            if len(data) > room:
                self.wire += data[:max(room, 0)]
                raise OSError(self.send_errno, os.strerror(self.send_errno))
        self.wire += data
        self.sends.append(len(data))
        self.recv_after_send = False

    def sendall(self, data):
        self._accept(bytes(data))

    def send(self, data):
        self._accept(bytes(data))
        return len(data)

    def sendfile(self, file, offset=0, count=None):
        # socket.sendfile semantics: send `count` bytes of the file starting at `offset`
        fd = file.fileno()
        data = os.pread(fd, count if count is not None else (os.fstat(fd).st_size - offset), offset)
        self._accept(data)
        return len(data)

    # -- misc
    def close(self):
        self.closed += 1

    def shutdown(self, how):
        if self.closed:
            raise OSError(errno.EBADF, "Bad file descriptor")
        self.shut = True

    def setblocking(self, flag):
        self.blocking = bool(flag)

    def settimeout(self, t):
        pass

    def gettimeout(self):
        return None if self.blocking else 0.0

    def getsockname(self):
        return ("127.0.0.1", 8000)

    def getpeername(self):
        return ("127.0.0.1", 45678)

    def fileno(self):
        return 987

    def setsockopt(self, *a):
        pass


class FakeListener:
    def __init__(self, name=("127.0.0.1", 8000)):
        self.name = name

    def getsockname(self):
        return self.name


class AccessCapture(logging.Handler):
    def __init__(self):
        super().__init__()
        self.records = []

    def emit(self, record):
        try:
            self.records.append(record.getMessage())
        except Exception as e:   # formatting failed
            self.records.append("<format-error %s>" % type(e).__name__)


class QuietLogger(glogging.Logger):
    """the real gunicorn Logger (access() / atoms() unchanged); error log silenced"""

    def setup(self, cfg):
        self.loglevel = logging.CRITICAL + 1
        self.error_log.setLevel(self.loglevel)
        self.access_log.setLevel(logging.INFO)
        self.error_log.handlers = [logging.NullHandler()]


class AsyncW(AsyncWorker):
    def timeout_ctx(self):
        return contextlib.nullcontext()


WORKERS = {"sync": SyncWorker, "gthread": ThreadWorker, "async": AsyncW}


def make_cfg(**kw):
    cfg = Config()
    cfg.set("accesslog", "/dev/null")
    for k, v in kw.items():
        cfg.set(k, v)
    return cfg


_cap = None


def make_worker(kind, cfg, app):
    global _cap
    log = QuietLogger(cfg)
    acc = logging.getLogger("gunicorn.access")
    acc.handlers = []
    _cap = AccessCapture()
    acc.addHandler(_cap)
    acc.propagate = False
    w = WORKERS[kind](1, os.getpid(), [FakeListener()], None, 15, cfg, log)
    w.wsgi = app
    w._cap = _cap
    if kind == "gthread":
        w.poller = _NullPoller()
        w._lock = threading.RLock()
    return w


class _NullPoller:
    def __init__(self):
        self.registered = []

    def register(self, sock, ev, data=None):
        self.registered.append(sock)

    def unregister(self, sock):
        if sock in self.registered:
            self.registered.remove(sock)


class Result:
    pass


def serve(kind, cfg, segments, app, peer=("127.0.0.1", 45678), worker=None, maxloops=20, eof_dispatch=False,
          **sockkw):
    """One connection through the real handle().  Returns a Result with
    wire, closed, escaped (exception class that escaped handle, or None), access (records),
    nr, alive, kept (connection left open by the worker), loops (handle() invocations)."""
    w = worker or make_worker(kind, cfg, app)
    sock = FakeSock(segments, **sockkw)
    lst = w.sockets[0]
    r = Result()
    r.escaped = None
    r.kept_until_eof = False
    r.eof_dispatched = False
    r.loops = 0
    nacc0 = len(w._cap.records)
    try:
        if kind in ("sync", "async"):
            r.loops = 1
            w.handle(lst, sock, peer)
            # the async keep-alive loop lives inside handle(): the connection was kept open after the
            # last response iff the worker went back to reading the socket
            r.kept = False
            r.kept_until_eof = kind == "async" and sock.recv_after_send
        else:
            conn = TConn(cfg, sock, peer, lst.getsockname())
            w.nr_conns += 1
            r.kept = True
            while r.loops < maxloops:
                r.loops += 1
                # the main loop dispatches the connection because the poller reported its socket readable;
                # handle() itself calls conn.init() (blocking mode, TLS wrap, parser)
                sock.readable = True
                fs = futures.Future()
                fs.conn = conn
                try:
                    fs.set_result(w.handle(conn))
                except BaseException as e:   # noqa  (the pool would store it in the future)
                    fs.set_exception(e)
                    r.escaped = type(e).__name__
                w.finish_request(fs)
                if conn in w._keep and not sock.closed:
                    # kept alive: the main loop would dispatch it again when it becomes readable
                    w._keep.remove(conn)
                    w.poller.unregister(conn.sock)
                    if not sock.more_input():
                        # idle keep-alive connection; client sends nothing more
                        r.kept = True
                        if not eof_dispatch:
                            break
                        # the client closes: the poller reports the socket readable, the request is
                        # dispatched again and the handler meets end of file
                        r.eof_dispatched = True
                    continue
                r.kept = False
                break
    except BaseException as e:   # noqa
        r.escaped = type(e).__name__
        r.kept = False
    r.wire = bytes(sock.wire)
    r.closed = sock.closed > 0
    r.nclose = sock.closed
    r.sent_after_close = sock.sent_after_close
    r.access = list(w._cap.records[nacc0:])
    r.nr = w.nr
    r.alive = w.alive
    r.sock = sock
    r.worker = w
    return r


# ---------------------------------------------------------------------------------------------
# application programs

class AppSpec:
    """status, headers, producer ("iter" | "write" | "file" | "filenofd"), chunks (list of bytes) or
    file content, failure point (None | "before_start" | "after_start" | "mid_body" | "close_raises"),
    second start_response call (None | "exc_info_before" | "no_exc_info")"""

    def __init__(self, status="200 OK", headers=(), prod="iter", chunks=(b"hello",), fail=None, second=None,
                 file_offset=0, read_input=False):
        self.status, self.headers, self.prod, self.chunks = status, list(headers), prod, list(chunks)
        self.fail, self.second, self.file_offset, self.read_input = fail, second, file_offset, read_input


class AppError(Exception):
    pass


def make_app(spec, calls, environs=None):
    def app(environ, start_response):
        calls.append(environ.get("RAW_URI"))
        if environs is not None:
            environs.append(environ)
        if spec.read_input:
            environ["wsgi.input"].read()
        if spec.fail == "before_start":
            raise AppError("boom")
        write = start_response(spec.status, list(spec.headers))
        if spec.second == "exc_info_before":
            try:
                raise AppError("late")
            except AppError:
                write = start_response("500 Internal Server Error", [("Content-Type", "text/plain"), ("Content-Length", "3")],
                                       sys.exc_info())
            return [b"err"]
        if spec.second == "no_exc_info":
            start_response(spec.status, list(spec.headers))
        if spec.fail == "after_start":
            raise AppError("boom")
        if spec.prod == "write":
            for i, c in enumerate(spec.chunks):
                if spec.fail == "mid_body" and i == 1:
                    raise AppError("boom")
                write(c)
            return []
        if spec.prod in ("file", "filenofd"):
            data = b"".join(spec.chunks)
            if spec.prod == "file":
                f = tempfile.TemporaryFile(dir=SCRATCH)
                f.write(data)
                f.flush()
                f.seek(spec.file_offset)
            else:
                f = io.BytesIO(data)
                f.seek(spec.file_offset)
            return environ["wsgi.file_wrapper"](f)

        def gen():
            for i, c in enumerate(spec.chunks):
                if spec.fail == "mid_body" and i == 1:
                    raise AppError("boom")
                yield c

        if spec.second == "exc_info_after_empty":
            # headers are on the wire after the first (empty) item; the late start_response(exc_info) must
            # re-raise, the application swallows that and carries on with the response it started
            def gen2():
                yield b""
                try:
                    raise AppError("late")
                except AppError:
                    try:
                        start_response("500 Internal Server Error", [("Content-Type", "text/plain")], sys.exc_info())
                    except AppError:
                        pass
                for c in spec.chunks:
                    yield c
            return gen2()
        if spec.fail == "close_raises":
            class It:
                def __iter__(self_):
                    return iter(list(spec.chunks))

                def close(self_):
                    raise AppError("close")
            return It()
        return gen() if spec.fail == "mid_body" else list(spec.chunks)
    return app
