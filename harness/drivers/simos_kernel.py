"""SimOS kernel: a deterministic in-process "operating system" for the real gunicorn master.

The real `gunicorn.arbiter.Arbiter.run()` executes unmodified on the calling thread.  The module
objects `os`, `time`, `select`, `signal`, `random`, `sock` *as seen from gunicorn.arbiter*
(and `os` in gunicorn.pidfile, `time` in gunicorn.workers.workertmp) are replaced by proxies that
forward everything except the calls listed below to the real modules - nothing global is patched,
so TLC subprocesses running in other threads are not disturbed.

  os.fork            fresh small pid to the parent only; process table entry "run"
  os.kill            ESRCH for reaped/unknown pids, no-op for zombies, TERM/QUIT recorded,
                     ABRT kills unless the process ignores it, KILL kills
  os.waitpid         (-1, WNOHANG): lowest zombie / (0, 0) / ECHILD
  os.getpid/getppid  fixed small numbers
  select.select      returns at once when the (real) wake-up pipe is readable, otherwise virtual time
                     advances tick by tick up to the timeout
  time.time/monotonic/sleep   virtual clock (integer ticks, T ticks per second); the two clocks have
                     different origins, as on a real machine
  signal.signal      handlers are recorded, never installed
  random.random      0.0 (spawn_workers naps for 0 ticks; the nap is still an injection point)
  sock.create_sockets fake listeners (close() observable; a unix listener owns a real file)

Every patched call is an INJECTION POINT (before and after): the kernel asks its `sched` object
which environment steps happen there (worker dies, worker hangs, heartbeat, signal to the master,
SIGCHLD delivery = calling the handler the arbiter registered).  Each point and each environment
step appends one event to the trace:  [name, p, a, b, now, num_workers, len(SIG_QUEUE)].
"""
import errno
import math
import os as _os
import select as _select
import signal as _signal
import sys
import time as _time

MASTER_PID = 9000
PARENT_PID = 8999
EPOCH = 100000          # origin of the virtual wall clock (seconds); monotonic starts at MONO0
MONO0 = 50

SIGNUM = {"HUP": 1, "INT": 2, "QUIT": 3, "ABRT": 6, "KILL": 9, "USR1": 10, "USR2": 12, "TERM": 15,
          "TTIN": 21, "TTOU": 22, "WINCH": 28}
SIGNAME = {v: k for k, v in SIGNUM.items()}


class EndOfRun(BaseException):
    """raised out of select()/sleep() when the run's budget of virtual time is used up"""


class _Proxy:
    def __init__(self, real, **over):
        self.__dict__["_real"] = real
        self.__dict__.update(over)

    def __getattr__(self, name):
        return getattr(self._real, name)


class HookDict(dict):
    """WORKERS with observable insert / remove (both are injection points)"""

    def __init__(self, kernel):
        super().__init__()
        self.k = kernel

    def __setitem__(self, pid, w):
        new = pid not in self
        if new:
            self.k.cur_op = ("assign", self.k.inn(pid))
            self.k.inject("assign.pre")
        super().__setitem__(pid, w)
        if new:
            self.k.point("assign", self.k.inn(pid), getattr(w, "age", 0))

    def pop(self, pid, *default):
        had = pid in self
        r = super().pop(pid, *default)
        if had:
            self.k.point("untrack", self.k.inn(pid))
        return r

    def __delitem__(self, pid):
        super().__delitem__(pid)
        self.k.point("untrack", self.k.inn(pid))

    def ids(self):
        """tracked workers as kernel-internal ids (fork ordinals)"""
        return sorted(self.k.inn(p) for p in self.keys())

    def aborted_ids(self):
        return set(self.k.inn(p) for p, w in self.items() if w.aborted)


class FakeListener:
    def __init__(self, kernel, idx, name):
        self.k, self.idx, self.name, self.open = kernel, idx, name, True

    def getsockname(self):
        return self.name

    def close(self):
        if self.open:
            self.k.cur_op = ("lclose", self.idx)
            self.k.inject("lclose.pre")
            self.open = False
            self.k.point("lclose", self.idx)

    def fileno(self):
        return 700 + self.idx

    def __str__(self):
        return "fake:%s" % (self.name,)


class Proc:
    __slots__ = ("pid", "st", "status", "got", "tmp", "ignore", "beats", "born", "last_beat", "hung_at", "boot_until")

    def __init__(self, pid, tmp, now):
        self.pid, self.st, self.status, self.got = pid, "run", 0, set()
        self.tmp, self.ignore, self.beats, self.born, self.last_beat = tmp, False, 0, now, now
        self.hung_at = None


class SimKernel:
    def __init__(self, sched, T=2, scratch=None, line_points=False):
        self.sched = sched
        self.T = T
        self.ticks = 0
        self.procs = {}
        self.next_pid = 1
        self.chld_pending = False
        self.in_handler = 0
        self.handlers = {}
        self.events = []
        self.arb = None
        self.npoints = 0
        self.listeners = []
        self.nlisten = 0
        self.scratch = scratch
        self.deadline = None        # virtual tick at which the run ends (set when the tail starts)
        self.max_events = 4000
        self.last_worker = None
        self.counts = {}
        self.cur_op = None
        self.in_emit = False

    # ---------------------------------------------------------------- trace
    def emit(self, name, p=0, a=0, b=0):
        arb = self.arb
        nw = q = 0
        if arb is not None:
            self.in_emit = True            # reading the property runs arbiter code: not an injection point
            try:
                nw = arb.num_workers if isinstance(arb.num_workers, int) else 0
            finally:
                self.in_emit = False
            q = len(arb.SIG_QUEUE)
        self.events.append([name, p, a, b, self.ticks, nw, q])
        if len(self.events) > self.max_events:
            raise EndOfRun("event budget")

    def point(self, name, p=0, a=0, b=0, phase="post"):
        """a visible operation of the master: log it, then let the environment act"""
        if phase == "post":
            self.emit(name, p, a, b)
        self.inject(name + "." + phase)

    def inject(self, label):
        if self.in_emit:
            return
        self.npoints += 1
        n = self.counts[label] = self.counts.get(label, 0) + 1
        self.sched.at(self, label, n, self.npoints)

    # ---------------------------------------------------------------- environment steps
    def live(self):
        return [p for p in self.procs.values() if p.st in ("run", "hung")]

    def env_die(self, pid, status):
        p = self.procs.get(pid)
        if p is None or p.st not in ("run", "hung"):
            return False
        p.st, p.status = "zombie", status
        self.chld_pending = True
        self.emit("die", pid, status)
        return True

    def env_hang(self, pid, ignore):
        p = self.procs.get(pid)
        if p is None or p.st != "run":
            return False
        p.st, p.ignore, p.hung_at = "hung", bool(ignore), self.ticks
        self.emit("hang", pid, 2 if ignore else 1)
        return True

    def env_beat(self, pid):
        p = self.procs.get(pid)
        if p is None or p.st != "run":
            return False
        try:
            p.tmp.notify()           # the REAL WorkerTmp.notify on the file shared with the master
        except (OSError, ValueError):
            pass
        p.beats += 1
        p.last_beat = self.ticks
        self.emit("beat", pid)
        return True

    def env_signal(self, name, payload=0):
        """a signal to the master: call the handler it registered"""
        num = SIGNUM[name]
        h = self.handlers.get(num)
        if h is None:
            return False
        before = len(self.arb.SIG_QUEUE)
        h(num, None)
        queued = 1 if len(self.arb.SIG_QUEUE) > before else 0
        self.emit("sig", payload, num, queued)
        return queued

    def env_tick(self, n=1):
        for _ in range(n):
            self.advance(1)

    def deliver_chld(self):
        # (a Python-level signal handler can be interrupted by the handler of a later signal, its own included: one level
        # of nesting is delivered)
        if not self.chld_pending or self.in_handler >= 2:
            return False
        h = self.handlers.get(_signal.SIGCHLD)
        if h is None:
            return False
        self.chld_pending = False
        self.in_handler += 1
        self.emit("chld")
        try:
            h(_signal.SIGCHLD, None)
        finally:
            self.in_handler -= 1
            self.emit("chldret")
        return True

    def advance(self, n):
        for _ in range(n):
            self.sched.before_tick(self)
            self.ticks += 1
            self.sched.after_tick(self)
            if self.deadline is not None and self.ticks >= self.deadline:
                raise EndOfRun("deadline")

    # ---------------------------------------------------------------- patched calls
    # The arbiter may see pids in another order than the order of creation (pid wrap-around / reuse in the
    # real kernel): ext() maps the kernel-internal id (fork ordinal, used in every trace event) to the number
    # handed to the arbiter, inn() back.  pid_style: "asc" (identity), "desc", "wrap".
    pid_style = "asc"

    def ext(self, o):
        if self.pid_style == "desc":
            return 5000 - o
        if self.pid_style == "wrap":
            return 32765 + o if o <= 2 else 100 + o
        return o

    def inn(self, pid):
        if self.pid_style == "desc":
            return 5000 - pid if 0 < 5000 - pid < 4000 else pid
        if self.pid_style == "wrap":
            return pid - 32765 if pid > 32765 else (pid - 100 if 100 < pid < 4000 else pid)
        return pid

    def fork(self):
        self.cur_op = ("fork", self.next_pid)
        self.inject("fork.pre")
        pid = self.next_pid
        self.next_pid += 1
        w = self.last_worker
        self.procs[pid] = Proc(pid, w.tmp if w is not None else None, self.ticks)
        # between fork() and Worker.init_signals() the child still runs the master's queueing signal handler:
        # a TERM / QUIT delivered in that window is swallowed (boot_ticks = length of the window, 0 = none)
        self.procs[pid].boot_until = self.ticks + getattr(self, "boot_ticks", 0)
        self.point("fork", pid)
        return self.ext(pid)

    def kill(self, pid, sig):
        sig = int(sig)
        if pid not in (MASTER_PID, PARENT_PID):
            pid = self.inn(pid)
        if sig == 0:                                   # Pidfile.validate probing
            if pid == MASTER_PID or (pid in self.procs and self.procs[pid].st != "reaped"):
                return
            raise OSError(errno.ESRCH, "No such process")
        self.cur_op = ("kill", pid, sig)
        self.inject("kill.pre")
        p = self.procs.get(pid)
        if p is None or p.st == "reaped":
            self.point("kill", pid, sig, 1)
            raise OSError(errno.ESRCH, "No such process")
        if p.st in ("run", "hung"):
            if sig == 9:
                p.st, p.status = "zombie", 9
                self.chld_pending = True
            elif sig == 6:
                if not (p.st == "hung" and p.ignore):
                    # (abrt_core: SIGABRT takes its default action with core dumps enabled: status 6 | 0x80)
                    p.st, p.status = "zombie", 134 if getattr(self, "abrt_core", False) else 6
                    self.chld_pending = True
            elif sig in (15, 3) and self.ticks < getattr(p, "boot_until", 0):
                pass                                   # swallowed by the still booting child
            else:
                p.got.add(sig)
        self.point("kill", pid, sig, 0)

    def waitpid(self, pid, options):
        self.inject("wait.pre")
        kids = [p for p in self.procs.values() if p.st != "reaped"]
        if not kids:
            self.point("wait", -1, 0)
            raise ChildProcessError(errno.ECHILD, "No child processes")
        z = sorted(p.pid for p in kids if p.st == "zombie")
        z = self.sched.pick_zombie(self, z) if z else None
        if z is None:
            self.point("wait", 0, 0)          # (the point after the call: a child may die right after "no child has changed state")
            return 0, 0
        p = self.procs[z]
        p.st = "reaped"
        self.point("wait", z, p.status)
        return self.ext(z), p.status

    def select(self, r, w, x, timeout=None):
        self.emit("select")
        self.cur_op = ("select",)
        self.inject("select.pre")
        n = int(math.ceil((timeout if timeout is not None else 1.0) * self.T - 1e-9))
        for i in range(n + 1):
            rr, _, _ = _select.select(r, [], [], 0)
            if rr:
                return rr, [], []
            if i == n:
                break
            self.advance(1)
            self.inject("select.tick")
        return [], [], []

    def sleep(self, dt):
        n = int(math.ceil(dt * self.T - 1e-9)) if dt > 0 else 0
        self.cur_op = ("sleep", n)
        self.inject("sleep.pre")
        if n:
            self.advance(n)
        self.point("sleep", 0, n)

    def time(self):
        return EPOCH + self.ticks / float(self.T)

    def monotonic(self):
        return MONO0 + self.ticks / float(self.T)

    def signal(self, num, handler):
        self.handlers[int(num)] = handler

    def unlink(self, path, *a, **kw):
        self.cur_op = ("unlink",)
        self.inject("unlink.pre")
        _os.unlink(path, *a, **kw)
        self.emit("unlink")

    def create_sockets(self, conf, log, fds=None):
        if self.listeners:
            self.cur_op = ("lopen",)
            self.inject("lopen.pre")
        out = []
        for addr in conf.address:
            self.nlisten += 1
            if isinstance(addr, str) and self.scratch:
                with open(addr, "w") as f:
                    f.write("")
            ls = FakeListener(self, self.nlisten, addr)
            out.append(ls)
            self.listeners.append(ls)
        self.emit("lopen", 0, len(out))
        return out

    # ---------------------------------------------------------------- installation
    def install(self):
        import gunicorn.arbiter as ga
        import gunicorn.pidfile as gp
        import gunicorn.workers.workertmp as gw
        import gunicorn.sock as gs
        self._saved = [(ga, "os", ga.os), (ga, "time", ga.time), (ga, "select", ga.select),
                       (ga, "signal", ga.signal), (ga, "random", ga.random), (ga, "sock", ga.sock),
                       (gp, "os", gp.os), (gw, "time", gw.time)]
        fos = _Proxy(_os, fork=self.fork, kill=self.kill, waitpid=self.waitpid,
                     getpid=lambda: MASTER_PID, getppid=lambda: PARENT_PID)
        ftime = _Proxy(_time, time=self.time, monotonic=self.monotonic, sleep=self.sleep)
        ga.os = fos
        ga.time = ftime
        ga.select = _Proxy(_select, select=self.select)
        ga.signal = _Proxy(_signal, signal=self.signal)
        ga.random = _Proxy(__import__("random"), random=lambda: 0.0)
        ga.sock = _Proxy(gs, create_sockets=self.create_sockets)
        gp.os = _Proxy(_os, fork=self.fork, kill=self.kill, waitpid=self.waitpid,
                       getpid=lambda: MASTER_PID, getppid=lambda: PARENT_PID, unlink=self.unlink)
        gw.time = ftime

    def uninstall(self):
        for mod, name, val in self._saved:
            setattr(mod, name, val)
