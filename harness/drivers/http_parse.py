"""Drive the real gunicorn.http parser over a concrete stream under a given segmentation and
record what it hands over: per request the offset at which its parse started and the body
bytes the application got; the way the stream ended.  No repository hook is needed: the
driver owns the byte source and reads the push-back buffer through the parser object."""
import io

from gunicorn.config import Config
from gunicorn.http.parser import RequestParser
from gunicorn.http.message import Request
from gunicorn.http import errors as herr


class Source:
    """iterator source for IterUnreader: yields the given segments, counts delivered bytes"""

    def __init__(self, data, cuts):
        self.segs = segments(data, cuts)
        self.delivered = 0
        self.i = 0

    def __iter__(self):
        return self

    def __next__(self):
        if self.i >= len(self.segs):
            raise StopIteration
        s = self.segs[self.i]
        self.i += 1
        self.delivered += len(s)
        return s


class FakeSock:
    """socket-like source for SocketUnreader: recv(n) returns the next segment (capped at n)"""

    def __init__(self, data, cuts):
        self.segs = segments(data, cuts)
        self.delivered = 0
        self._buf = b""            # (not "pending": that is a method of TLS sockets)
        self.i = 0

    def recv(self, n):
        if not self._buf:
            if self.i >= len(self.segs):
                return b""
            self._buf = self.segs[self.i]
            self.i += 1
        out, self._buf = self._buf[:n], self._buf[n:]
        self.delivered += len(out)
        return out


class TlsSock(FakeSock):
    """like ssl.SSLSocket: a segment is a TLS record; pending() tells how many decrypted bytes of the current record
    have not been handed out yet"""

    def pending(self):
        return len(self._buf)


def segments(data, cuts):
    data = bytes(data)
    pts = [0] + sorted(set(c for c in cuts if 0 < c < len(data))) + [len(data)]
    return [data[a:b] for a, b in zip(pts, pts[1:]) if b > a]


def make_cfg(**kw):
    cfg = Config()
    for k, v in kw.items():
        cfg.set(k, v)
    return cfg


HEAD_REJECT = (herr.ParseException,)


def classify(exc, in_body):
    n = type(exc).__name__
    if isinstance(exc, StopIteration):
        return "stop"
    if isinstance(exc, herr.NoMoreData):
        return "bodyeof" if in_body else "nomore"
    if isinstance(exc, (herr.InvalidChunkSize, herr.ChunkMissingTerminator)):
        return "bodyreject"
    if isinstance(exc, herr.ParseException):
        return "bodyreject" if in_body else "reject"
    return "crash:" + n


def run(data, cuts, cfg=None, mode="read", source="iter", peer=("127.0.0.1", 5000), maxreq=50,
        program=None):
    """-> dict(out=[{start, body(bytes), hdrs, method, uri, version, trailers}], fin, exc, held)"""
    cfg = cfg or make_cfg()
    src = Source(data, cuts) if source == "iter" else TlsSock(data, cuts) if source == "tls" else FakeSock(data, cuts)
    parser = RequestParser(cfg, src, peer)
    starts = []
    un = parser.unreader

    class Rec(Request):
        def __init__(self, *a, **k):
            starts.append(src.delivered - len(un.buf.getvalue()))
            super().__init__(*a, **k)

    parser.mesg_class = Rec
    out = []
    fin, exc = "run", None
    for _ in range(maxreq):
        try:
            req = next(parser)
        except BaseException as e:     # noqa
            # a body error surfacing from the discard loop belongs to the previous request
            in_body = isinstance(e, (herr.InvalidChunkSize, herr.ChunkMissingTerminator))
            fin, exc = classify(e, in_body), type(e).__name__
            break
        rec = {"start": starts[-1], "body": b"", "method": req.method, "uri": req.uri,
               "version": list(req.version), "hdrs": list(req.headers), "trailers": None,
               "bodydone": False}
        out.append(rec)
        if mode == "read":
            try:
                if program:
                    rec["body"] = program(req.body)
                else:
                    chunks = []
                    while True:
                        d = req.body.read(8192)
                        if not d:
                            break
                        chunks.append(d)
                    rec["body"] = b"".join(chunks)
                rec["bodydone"] = True
                rec["trailers"] = list(req.trailers)
            except BaseException as e:   # noqa
                fin, exc = classify(e, True), type(e).__name__
                break
    else:
        fin = "toomany"
    return {"out": out, "fin": fin, "exc": exc, "consumed": src.delivered - len(un.buf.getvalue()),
            "delivered": src.delivered}


def digest(obs):
    """segmentation-independent digest of an observation (C06): every field, body byte, trailer"""
    return {"fin": obs["fin"], "exc": obs["exc"],
            "reqs": [[r["start"], r["method"], r["uri"], r["version"], r["hdrs"], r["body"].hex(),
                      r["trailers"], r["bodydone"]] for r in obs["out"]]}
