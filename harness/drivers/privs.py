"""Drivers for C20 (worker identity).

(a) fake: the REAL gunicorn code -- workers.workertmp.WorkerTmp, workers.base.Worker.init_process,
    util.set_owner_process -- runs on a recording fake of os / pwd that implements the kernel
    credential semantics of specs/Privs.tla (ids 0 root, 1 other account, 2 non-root master).
(b) real: the same code in real forked processes (the sandbox runs as root): a child plays the
    master (optionally after becoming `nobody`), builds the Worker (heartbeat file), forks the
    worker, which runs the real init_process; os.getresuid/getresgid/getgroups are recorded when
    the application would be loaded and when run() starts, the first heartbeat is attempted.
(c) server: real `python -m gunicorn` runs, /proc/<pid>/status of master and workers for the
    initial workers, a worker respawned after kill -9, and the generation after HUP.
Invoked as a script for (b) and (c) so that forking never happens inside the harness process.
"""
import errno
import json
import os
import signal
import subprocess
import sys
import time

REPO = os.environ.get("VERIF_REPO", "/repo")
HOME = os.environ.get("VERIF_HOME") or os.path.dirname(os.path.dirname(os.path.dirname(os.path.abspath(__file__))))
SCRATCH = os.path.join(os.environ.get("VERIF_OUT") or os.path.join(HOME, "out"), "privs")

CRED_KEYS = ("ruid", "euid", "suid", "rgid", "egid", "sgid")


# ---------------------------------------------------------------------------------------------
# (a) fake kernel
# ---------------------------------------------------------------------------------------------

class FakeKernel:
    """Linux credential rules for one process (the model's KSetuid / KSetgid / KInitgroups)"""

    def __init__(self, creds, ug, known_uids):
        self.c = {k: creds[k] for k in CRED_KEYS}
        self.c["groups"] = set(creds["groups"])
        self.ug = ug                      # uid -> supplementary groups from the group database
        self.known = known_uids           # uids with a passwd entry
        self.calls = []
        self.eperm = False
        self.owner = {}                   # path -> (uid, gid) set by chown
        self.capless = ()                 # privilege calls the kernel refuses even to uid 0 (capability not held)

    def snapshot(self):
        d = {k: self.c[k] for k in CRED_KEYS}
        d["groups"] = sorted(self.c["groups"])
        return d

    def _deny(self, name):
        self.calls.append(name)
        self.eperm = True
        raise PermissionError(errno.EPERM, "Operation not permitted")

    def priv(self, call=None):
        return self.c["euid"] == 0 and call not in self.capless

    # getters
    def getuid(self): return self.c["ruid"]
    def geteuid(self): return self.c["euid"]
    def getgid(self): return self.c["rgid"]
    def getegid(self): return self.c["egid"]
    def getresuid(self): return (self.c["ruid"], self.c["euid"], self.c["suid"])
    def getresgid(self): return (self.c["rgid"], self.c["egid"], self.c["sgid"])
    def getgroups(self): return sorted(self.c["groups"])

    def setuid(self, u):
        if self.priv("setuid"):
            self.c.update(ruid=u, euid=u, suid=u)
        elif u in (self.c["ruid"], self.c["suid"]):
            self.c["euid"] = u
        else:
            self._deny("setuid")
        self.calls.append("setuid")

    def setgid(self, g):
        if self.priv("setgid"):
            self.c.update(rgid=g, egid=g, sgid=g)
        elif g in (self.c["rgid"], self.c["sgid"]):
            self.c["egid"] = g
        else:
            self._deny("setgid")
        self.calls.append("setgid")

    def initgroups(self, username, g):
        if not self.priv("initgroups"):
            self._deny("initgroups")
        uid = int(username[1:])
        self.c["groups"] = set(self.ug.get(uid, ())) | {g}
        self.calls.append("initgroups")

    def setgroups(self, groups):
        if not self.priv("initgroups"):
            self._deny("setgroups")
        self.c["groups"] = set(groups)
        self.calls.append("setgroups")

    def setresuid(self, r, e, s):
        if not self.priv() and not {r, e, s} <= {self.c["ruid"], self.c["euid"], self.c["suid"], -1}:
            self._deny("setresuid")
        for k, v in (("ruid", r), ("euid", e), ("suid", s)):
            if v != -1:
                self.c[k] = v
        self.calls.append("setresuid")

    def setresgid(self, r, e, s):
        if not self.priv() and not {r, e, s} <= {self.c["rgid"], self.c["egid"], self.c["sgid"], -1}:
            self._deny("setresgid")
        for k, v in (("rgid", r), ("egid", e), ("sgid", s)):
            if v != -1:
                self.c[k] = v
        self.calls.append("setresgid")

    def setreuid(self, r, e):
        return self.setresuid(r, e, e if self.priv() else -1)

    def setregid(self, r, e):
        return self.setresgid(r, e, e if self.priv() else -1)

    def chown(self, path, uid, gid):
        ok = self.priv() or (uid in (-1, self.c["euid"]) and gid in ({-1, self.c["egid"]} | self.c["groups"]))
        if not ok:
            self._deny("chown")
        self.owner[path] = (uid, gid)
        self.calls.append("chown")

    def getpwuid(self, uid):
        self.calls.append("getpwuid")
        if uid not in self.known:
            raise KeyError("getpwuid(): uid not found: %d" % uid)

        class _P:
            pw_name = "u%d" % uid
            pw_uid = uid
        return _P


FAKED = ("getuid", "geteuid", "getgid", "getegid", "getresuid", "getresgid", "getgroups", "setuid", "setgid",
         "initgroups", "setgroups", "setresuid", "setresgid", "setreuid", "setregid", "chown")


class _OsProxy:
    def __init__(self, holder):
        self._h = holder

    def __getattr__(self, name):
        if name in FAKED:
            return getattr(self._h["k"], name)
        return getattr(os, name)


class _PwdProxy:
    def __init__(self, holder):
        self._h = holder

    def __getattr__(self, name):
        import pwd
        if name == "getpwuid":
            return self._h["k"].getpwuid
        return getattr(pwd, name)


class _Log:
    def __getattr__(self, name):
        return lambda *a, **k: None


def wtmp_dir():
    """a directory every user can reach and write to (the scratch tree may live under a private home directory)"""
    base = "/dev/shm" if os.path.isdir("/dev/shm") and os.access("/dev/shm", os.W_OK) else SCRATCH
    d = os.path.join(base, "verif_wtmp_%s" % (os.environ.get("VERIF_WTMP_TAG") or os.getppid()))
    if not os.path.isdir(d):
        os.makedirs(d, exist_ok=True)
        os.chmod(d, 0o1777)
    return d


def make_cfg(uid, gid, initgroups, timeout=None):
    from gunicorn.config import Config
    cfg = Config()
    if timeout is not None:
        cfg.set("timeout", timeout)        # 0: the documented "no worker timeout"; the workers still heartbeat
    # heartbeat files go to a scratch directory any user may write to (a master that fails to hand the file over leaves
    # it behind)
    cfg.set("worker_tmp_dir", wtmp_dir())
    cfg.set("user", uid)
    cfg.set("group", gid)
    cfg.set("initgroups", initgroups)
    return cfg


def make_worker_class(rec, creds_fn, beat_fn, on_load=None):
    from gunicorn.workers.base import Worker

    class W(Worker):
        def init_signals(self):
            pass

        def load_wsgi(self):
            rec["loaded"] = True
            rec["atload"] = creds_fn()
            if on_load:
                on_load()

        def run(self):
            rec["w"] = creds_fn()
            rec["beat"] = beat_fn(self)
            rec["end"] = "running"
    return W


def run_fake(row, capless=()):
    """row: one case of PrivsCases (abstract ids).  Runs Worker.__init__ (heartbeat file + chown) as the
    master and Worker.init_process as the forked worker on the fake kernel.  capless: privilege calls the kernel
    refuses although the caller is uid 0 (CAP_SETUID / CAP_SETGID not in the bounding set, user namespaces)."""
    import gunicorn.util as gutil
    import gunicorn.workers.workertmp as gtmp
    m = row["m"]
    known = {0, 2} | ({1} if row["known"] else set())
    holder = {"k": FakeKernel(m, {row["uid"]: row["ug"]}, known)}
    master = holder["k"]
    rec = {"mode": "fake", "case": row["case"], "uid": row["uid"], "gid": row["gid"], "ug": sorted(row["ug"]),
           "known": row["known"], "m0": master.snapshot(), "end": "", "loaded": False, "beat": False,
           "atload": master.snapshot(), "w": master.snapshot(), "exc": ""}
    saved = (gutil.os, gutil.pwd, gtmp.os)
    gutil.os, gutil.pwd, gtmp.os = _OsProxy(holder), _PwdProxy(holder), _OsProxy(holder)
    worker = None
    try:
        cfg = make_cfg(row["uid"], row["gid"], row["case"]["init"], row.get("timeout"))

        def beat(w):
            # futimens with explicit times: owner of the file or root
            k = holder["k"]
            owner = [o for p, o in master.owner.items()]
            own_uid = owner[-1][0] if owner else m["euid"]
            return k.c["euid"] == 0 or k.c["euid"] == own_uid

        W = make_worker_class(rec, lambda: holder["k"].snapshot(), beat,
                              on_load=lambda: holder["k"].calls.append("load"))
        try:
            worker = W(1, 1, [], None, 15, cfg, _Log())        # master side: WorkerTmp(cfg)
        except Exception as e:   # noqa
            rec["end"], rec["exc"] = "masterfail", type(e).__name__
        if worker is not None:
            child = FakeKernel(master.snapshot(), master.ug, known)   # fork
            child.calls = master.calls
            cap = row["case"].get("cap", "all")
            child.capless = tuple(capless) or {"nosetuid": ("setuid",), "nosetgid": ("setgid",), "noinitgroups": ("initgroups",)}.get(cap, ())
            holder["k"] = child
            try:
                worker.init_process()
            except BaseException as e:   # noqa
                rec["end"], rec["exc"] = "bootfail", type(e).__name__
                if isinstance(e, UnboundLocalError):
                    child.calls.append("unbound")
                rec["w"] = child.snapshot()
    finally:
        gutil.os, gutil.pwd, gtmp.os = saved
        if worker is not None:
            try:
                worker.tmp.close()
                for fd in getattr(worker, "PIPE", ()) or ():
                    os.close(fd)
            except Exception:   # noqa
                pass
    k = holder["k"]
    rec["eperm"] = k.eperm or master.eperm
    rec["capless"] = bool(capless) or row["case"].get("cap", "all") != "all"
    rec["calls"] = [c for c in (master.calls if k is master else k.calls)]
    rec["m1"] = master.snapshot()
    rec["variant"] = "timeout=0" if row.get("timeout") == 0 else ""
    return rec


# ---------------------------------------------------------------------------------------------
# (b) real forked processes
# ---------------------------------------------------------------------------------------------

def real_creds():
    r, e, s = os.getresuid()
    rg, eg, sg = os.getresgid()
    return {"ruid": r, "euid": e, "suid": s, "rgid": rg, "egid": eg, "sgid": sg, "groups": sorted(os.getgroups())}


def run_real_child(spec, out_fd):
    """in a forked child: play the master, fork the worker, report through out_fd"""
    sys.path.insert(0, REPO)
    rec = {"mode": "real", "case": spec["case"], "uid": spec["uid"], "gid": spec["gid"], "ug": spec["ug"],
           "known": spec["known"], "variant": spec.get("variant", ""), "end": "", "loaded": False, "beat": False, "exc": "", "eperm": False, "capless": False,
           "calls": []}
    try:
        import gunicorn.config, gunicorn.workers.base, gunicorn.workers.workertmp, gunicorn.util   # noqa: before the drop
        if spec["case"]["master"] == "rootsplit":
            os.setegid(spec["master_gid"])        # real gid 0, effective gid G: a supervisor that only called setegid
        if spec["case"]["master"] == "user":
            os.setgroups([spec["master_gid"]])
            os.setresgid(*[spec["master_gid"]] * 3)
            os.setresuid(*[spec["master_uid"]] * 3)
        rec["m0"] = real_creds()
        rec["atload"] = rec["w"] = rec["m0"]
        cfg = make_cfg(spec.get("user_spelling", spec["uid"]), spec.get("group_spelling", spec["gid"]),
                       spec["case"]["init"], spec.get("timeout"))

        def beat(w):
            try:
                w.tmp.notify()
                return True
            except OSError:
                return False

        W = make_worker_class(rec, real_creds, beat)
        worker = None
        try:
            worker = W(1, os.getpid(), [], None, 15, cfg, _Log())
        except Exception as e:   # noqa
            rec["end"], rec["exc"] = "masterfail", type(e).__name__
        if worker is not None:
            r, w = os.pipe()
            pid = os.fork()
            if pid == 0:
                os.close(r)
                try:
                    worker.init_process()
                except BaseException as e:   # noqa
                    rec["end"], rec["exc"] = "bootfail", type(e).__name__
                    rec["w"] = real_creds()
                os.write(w, json.dumps(rec).encode())
                os._exit(0)
            os.close(w)
            data = b""
            while True:
                b = os.read(r, 65536)
                if not b:
                    break
                data += b
            os.waitpid(pid, 0)
            m0 = rec["m0"]
            rec = json.loads(data.decode())
            rec["m0"] = m0
        rec["m1"] = real_creds()
    except BaseException as e:   # noqa
        rec["end"], rec["exc"] = "harness-error", repr(e)
    os.write(out_fd, json.dumps(rec).encode())


def run_real(specs):
    out = []
    for spec in specs:
        r, w = os.pipe()
        pid = os.fork()
        if pid == 0:
            os.close(r)
            try:
                run_real_child(spec, w)
            finally:
                os._exit(0)
        os.close(w)
        data = b""
        while True:
            b = os.read(r, 65536)
            if not b:
                break
            data += b
        os.close(r)
        os.waitpid(pid, 0)
        out.append(json.loads(data.decode()) if data else {"mode": "real", "end": "harness-error", "case": spec["case"]})
    return out


def run_sock(uid, gid):
    """the real UnixSocket.bind chown: -> [st_uid, st_gid] of the socket path"""
    sys.path.insert(0, REPO)
    from gunicorn import sock as gsock
    os.makedirs(SCRATCH, exist_ok=True)
    path = os.path.join(SCRATCH, "own_%d.sock" % os.getpid())
    cfg = make_cfg(uid, gid, False)
    s = gsock.UnixSocket(path, cfg, _Log())
    st = os.stat(path)
    s.close()
    try:
        os.unlink(path)
    except OSError:
        pass
    return [st.st_uid, st.st_gid]


# ---------------------------------------------------------------------------------------------
# (c) real servers
# ---------------------------------------------------------------------------------------------

APP = '''
import json, os
def _creds():
    return {"pid": os.getpid(), "ppid": os.getppid(), "res": list(os.getresuid()) + list(os.getresgid()),
            "groups": sorted(os.getgroups())}
try:
    with open(os.environ["VERIF_PRIVS_LOG"], "a") as f:
        f.write(json.dumps(_creds()) + "\\n")
except Exception:
    pass
def app(environ, start_response):
    body = json.dumps(_creds()).encode()
    start_response("200 OK", [("Content-Length", str(len(body)))])
    return [body]
'''


def proc_status(pid):
    d = {}
    try:
        with open("/proc/%d/status" % pid) as f:
            for ln in f:
                k, _, v = ln.partition(":")
                if k in ("Uid", "Gid", "Groups", "PPid"):
                    d[k] = [int(x) for x in v.split()]
    except OSError:
        return None
    return d


def children(pid):
    out = []
    for p in os.listdir("/proc"):
        if p.isdigit():
            st = proc_status(int(p))
            if st and st.get("PPid") == [pid]:
                out.append(int(p))
    return sorted(out)


def wait_for(fn, timeout=15.0, step=0.1):
    t0 = time.time()
    while time.time() - t0 < timeout:
        v = fn()
        if v:
            return v
        time.sleep(step)
    return fn()


def run_server(spec):
    """spec: {user, group, initgroups, worker_class, workers, tag}.  -> observation dict"""
    d = os.path.join(SCRATCH, "srv_%s" % spec["tag"])
    subprocess.run(["rm", "-rf", d])
    os.makedirs(d)
    os.chmod(d, 0o755)
    with open(os.path.join(d, "privsapp.py"), "w") as f:
        f.write(APP)
    log = os.path.join(d, "creds.log")
    open(log, "w").close()
    os.chmod(log, 0o666)
    sockp = os.path.join(d, "g.sock")
    cmd = [sys.executable, "-m", "gunicorn", "--chdir", d, "-w", str(spec.get("workers", 2)),
           "-k", spec.get("worker_class", "sync"), "--bind", "unix:" + sockp, "--pid", os.path.join(d, "g.pid"),
           "--error-logfile", os.path.join(d, "err.log"), "--worker-tmp-dir", wtmp_dir()]
    envargs = []
    tgt = envargs if spec.get("via_env") else cmd        # via_env: the settings come from GUNICORN_CMD_ARGS
    if spec.get("user") is not None:
        tgt += ["--user", str(spec["user"])]
    if spec.get("group") is not None:
        tgt += ["--group", str(spec["group"])]
    if spec.get("initgroups"):
        tgt += ["--initgroups"]
    if spec.get("cwdconf"):
        # user / group / chdir come from the default configuration file ./gunicorn.conf.py of the start directory (no -c);
        # the application lives in the directory the file's chdir names
        os.makedirs(os.path.join(d, "src"))
        os.chmod(os.path.join(d, "src"), 0o755)
        os.rename(os.path.join(d, "privsapp.py"), os.path.join(d, "src", "privsapp.py"))
        with open(os.path.join(d, "gunicorn.conf.py"), "w") as f:
            f.write("user = %r\ngroup = %r\nchdir = %r\n" % (spec["user"], spec["group"], os.path.join(d, "src")))
        i = cmd.index("--chdir")
        del cmd[i:i + 2]
        for flag in ("--user", "--group"):
            if flag in tgt:
                i = tgt.index(flag)
                del tgt[i:i + 2]
    conf = os.path.join(d, "conf.py")
    if spec.get("badhup"):
        # a configuration file that is valid at start and invalid when HUP re-reads it
        with open(conf, "w") as f:
            f.write("timeout = 30\n")
        cmd += ["-c", conf]
    cmd += ["privsapp:app"]
    env = dict(os.environ, PYTHONPATH=REPO, VERIF_PRIVS_LOG=log, PYTHONDONTWRITEBYTECODE="1")
    env.pop("GUNICORN_CMD_ARGS", None)
    if envargs:
        env["GUNICORN_CMD_ARGS"] = " ".join(envargs)
    newmaster = None
    p = subprocess.Popen(cmd, cwd=d, env=env, stdout=subprocess.DEVNULL, stderr=subprocess.DEVNULL)
    obs = {"spec": spec, "gens": [], "master": [], "error": ""}
    nw = spec.get("workers", 2)

    def snap(kind, exclude=()):
        ws = wait_for(lambda: [c for c in children(p.pid) if c not in exclude] if
                      len([c for c in children(p.pid) if c not in exclude]) >= (nw if kind != "respawn" else 1)
                      else None)
        time.sleep(0.5)                       # let init_process finish the drop
        ws = [c for c in children(p.pid) if c not in exclude]
        for c in ws:
            obs["gens"].append({"kind": kind, "pid": c, "status": proc_status(c)})
        obs["master"].append(proc_status(p.pid))
        return ws

    try:
        first = snap("initial")
        if not first or p.poll() is not None:
            obs["error"] = "server did not start"
        else:
            try:
                st = os.stat(sockp)
                obs["sock"] = [st.st_uid, st.st_gid]
            except OSError:
                obs["sock"] = None
            os.kill(first[0], signal.SIGKILL)
            wait_for(lambda: first[0] not in children(p.pid))
            snap("respawn", exclude=first)
            before = set(children(p.pid))
            if spec.get("badhup"):
                with open(conf, "w") as f:
                    f.write("timeout = 'thirty'\n")
                os.kill(p.pid, signal.SIGHUP)
                # whatever the master does about the error: a worker it starts from now on has the configured identity
                t_end = time.time() + 4.0
                seen = set()
                while time.time() < t_end:
                    for c in children(p.pid):
                        if c not in before and c not in seen:
                            time.sleep(0.4)
                            st = proc_status(c)
                            if st:
                                seen.add(c)
                                obs["gens"].append({"kind": "hup", "pid": c, "status": st})
                                obs["master"].append(proc_status(p.pid))
                    if p.poll() is not None:
                        break
                    time.sleep(0.1)
                obs["badhup_master_exit"] = p.poll()
            else:
                os.kill(p.pid, signal.SIGHUP)
                wait_for(lambda: len(set(children(p.pid)) - before) >= nw and not (set(children(p.pid)) & before), 20)
                snap("hup", exclude=before)
                if spec.get("usr2"):
                    # binary upgrade: the workers of the master started by USR2
                    os.kill(p.pid, signal.SIGUSR2)

                    def new_master():
                        try:
                            with open(os.path.join(d, "g.pid.2")) as f:
                                return int(f.read().strip() or 0) or None
                        except (OSError, ValueError):
                            return None
                    newmaster = wait_for(new_master, 15)
                    if newmaster:
                        ws = wait_for(lambda: children(newmaster) if len(children(newmaster)) >= nw else None, 15) or []
                        time.sleep(0.5)
                        for c in children(newmaster):
                            obs["gens"].append({"kind": "usr2", "pid": c, "status": proc_status(c)})
                        obs["master"].append(proc_status(newmaster))
                    else:
                        obs["error"] = "no upgraded master appeared"
    finally:
        if newmaster:
            try:
                os.kill(newmaster, signal.SIGTERM)
                wait_for(lambda: proc_status(newmaster) is None, 8)
            except OSError:
                pass
        if p.poll() is None:
            p.terminate()
            try:
                p.wait(10)
            except subprocess.TimeoutExpired:
                p.kill()
                p.wait()
        obs["exit"] = p.returncode
    try:
        with open(log) as f:
            obs["atload"] = [json.loads(x) for x in f if x.strip()]
    except OSError:
        obs["atload"] = []
    try:
        with open(os.path.join(d, "err.log")) as f:
            obs["errlog_tail"] = f.read()[-1500:]
    except OSError:
        obs["errlog_tail"] = ""
    return obs


if __name__ == "__main__":
    mode = sys.argv[1]
    arg = json.loads(sys.stdin.read())
    sys.path.insert(0, REPO)
    if mode == "real":
        print(json.dumps(run_real(arg)))
    elif mode == "sock":
        print(json.dumps([run_sock(u, g) for u, g in arg]))
    elif mode == "server":
        print(json.dumps([run_server(s) for s in arg]))
