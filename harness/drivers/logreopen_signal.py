"""C19 under log rotation with REAL signals: the main thread writes N access records through the real Logger.access()
(FileHandler); another thread sends SIGUSR1 to the main thread at random instants; the handler renames the file away and
calls the real Logger.reopen_files() -- what logrotate plus gunicorn's SIGUSR1 handler do in the master, the sync and the
async workers.  The handler runs wherever this interpreter lets a Python signal handler run.  Prints one JSON object:
n (records written), total (records found in all files), rotations."""
import datetime
import json
import os
import random
import signal
import subprocess
import sys
import time

sys.path.insert(0, os.environ.get("VERIF_REPO", "/repo"))
SENDER = """
import os, random, signal, sys, time
pid, rng = int(sys.argv[1]), random.Random(int(sys.argv[2]))
while True:
    time.sleep(rng.uniform(0.0001, 0.001))
    try:
        os.kill(pid, signal.SIGUSR1)
    except OSError:
        break
"""


def main():
    d, n, seed = sys.argv[1], int(sys.argv[2]), int(sys.argv[3])
    from gunicorn.config import Config
    from gunicorn.glogging import Logger
    os.makedirs(d, exist_ok=True)
    path = os.path.join(d, "access.log")
    cfg = Config()
    cfg.set("accesslog", path)
    cfg.set("errorlog", os.path.join(d, "error.log"))
    cfg.set("access_log_format", "%(s)s|%(B)s|%(U)s")
    log = Logger(cfg)
    st = {"rot": 0, "busy": False, "stop": False}

    def usr1(sig, frame):
        if st["busy"]:
            return
        st["busy"] = True
        try:
            if os.path.exists(path):
                st["rot"] += 1
                os.rename(path, "%s.%d" % (path, st["rot"]))
            log.reopen_files()
        finally:
            st["busy"] = False
    signal.signal(signal.SIGUSR1, usr1)
    # the signals come from another process (as `kill -USR1` from logrotate's postrotate script does): their arrival is
    # not tied to the instants at which this process releases the interpreter lock
    sender = subprocess.Popen([sys.executable, "-c", SENDER, str(os.getpid()), str(seed)])

    class Resp:
        status, sent, headers, response_length = "200 OK", 5, [("Content-Length", "5")], 5

    class Req:
        headers = [("HOST", "h")]
    env = {"REQUEST_METHOD": "GET", "RAW_URI": "/x", "SERVER_PROTOCOL": "HTTP/1.1", "PATH_INFO": "/x", "QUERY_STRING": "",
           "REMOTE_ADDR": "127.0.0.1"}
    saved = sys.stderr
    sys.stderr = open(os.path.join(d, "stderr.txt"), "w")
    dt = datetime.timedelta(seconds=1)
    time.sleep(0.05)
    for _ in range(n):
        log.access(Resp(), Req(), env, dt)
    signal.signal(signal.SIGUSR1, signal.SIG_IGN)
    sender.kill()
    sender.wait()
    sys.stderr.close()
    sys.stderr = saved
    for lg in (log.access_log, log.error_log):
        for h in list(lg.handlers):
            h.close()
    total = 0
    for name in os.listdir(d):
        if name.startswith("access.log"):
            with open(os.path.join(d, name)) as f:
                total += sum(1 for ln in f if ln.startswith("200|5|/x"))
    with open(os.path.join(d, "stderr.txt")) as f:
        err = f.read()
    print(json.dumps({"n": n, "total": total, "rotations": st["rot"], "reentrant": err.count("--- Logging error ---"),
                      "stderr": err[-300:],
                      "python": list(sys.version_info[:3])}))


if __name__ == "__main__":
    main()
