"""Kernel-level crash points for Pidfile.create() (C17: "the file only ever appears with complete content, whatever
instant the process dies"): a child process imports gunicorn.pidfile, stops itself, is attached by strace with
`-e inject=<file and write system calls>:signal=KILL:when=N` and continued: it is killed at the N-th invocation of any
of those system calls, whichever Python module made it.  The pid path is then read.  The pid directory may be on
another file system than the temporary directory (tmpfs /dev/shm vs. the scratch directory on disk)."""
import os
import signal
import subprocess
import sys
import tempfile
import time

REPO = os.environ.get("VERIF_REPO", "/repo")
HOME = os.environ.get("VERIF_HOME") or os.path.dirname(os.path.dirname(os.path.dirname(os.path.abspath(__file__))))
SCRATCH = os.path.join(os.environ.get("VERIF_OUT") or os.path.join(HOME, "out"), "pidfile_kernel")
CALLS = "openat,open,creat,write,pwrite64,writev,rename,renameat,renameat2,link,linkat,unlink,unlinkat,chmod,fchmod,fchmodat," \
        "sendfile,copy_file_range,ftruncate,truncate,close"
SCRIPT = r'''
import os, signal, sys
sys.path.insert(0, %(repo)r)
import gunicorn.pidfile as gp
import shutil, tempfile          # (whatever the module may use is imported before the trace starts)
os.kill(os.getpid(), signal.SIGSTOP)
gp.Pidfile(sys.argv[1]).create(os.getpid())
os._exit(0)
'''
import threading
_LOCK = threading.Lock()
STALE_PID = 4194000          # above the default pid_max: never a live process


def state(pid):
    try:
        with open("/proc/%d/stat" % pid) as f:
            return f.read().rsplit(")", 1)[1].split()[0]
    except OSError:
        return None


def run(call, n, piddir, tmpdir, stale):
    """the child is killed on entering its n-th `call` system call.
    -> dict(call, n, killed, content class: 0 absent / 1 complete own pid / 2 complete stale pid / -1 empty / -3 other, raw)"""
    os.makedirs(piddir, exist_ok=True)
    os.makedirs(tmpdir, exist_ok=True)
    # stale: False fresh path / True a stale regular file / "link": the path is a symbolic link to a stale pid file
    # (current/tmp/pids/app.pid -> shared/pids/app.pid) / "dangling": a symbolic link whose target does not exist yet
    tag = {False: "0", True: "1"}.get(stale, stale)
    path = os.path.join(piddir, "g_%d_%s_%d_%s.pid" % (os.getpid(), call, n, tag))
    target = path + ".target"
    for p in (path, target):
        try:
            os.unlink(p)
        except OSError:
            pass
    if stale in ("link", "dangling"):
        os.symlink(target, path)
    if stale in (True, "link"):
        with open(path, "w") as f:
            f.write("%d\n" % STALE_PID)
    script = os.path.join(tmpdir, "create_%d.py" % os.getpid())
    with _LOCK:
        if not os.path.exists(script):
            with open(script, "w") as f:
                f.write(SCRIPT % {"repo": REPO})
    env = dict(os.environ, TMPDIR=tmpdir, PYTHONDONTWRITEBYTECODE="1")
    child = subprocess.Popen([sys.executable, script, path], env=env, stdout=subprocess.DEVNULL, stderr=subprocess.PIPE)
    try:
        t0 = time.time()
        while state(child.pid) != "T" and time.time() - t0 < 10:
            if child.poll() is not None:
                raise RuntimeError("pid-file child died early: %s" % child.stderr.read()[-300:])
            time.sleep(0.01)
        trace = os.path.join(tmpdir, "trace_%d_%s_%d_%s" % (os.getpid(), call, n, tag))
        st = subprocess.Popen(["strace", "-f", "-p", str(child.pid), "-o", trace, "-e", "trace=" + CALLS,
                               "-e", "inject=%s:signal=KILL:when=%d" % (call, n)],
                              stdout=subprocess.DEVNULL, stderr=subprocess.PIPE)
        t0 = time.time()
        while time.time() - t0 < 5:
            # attached when the tracee shows a tracer
            try:
                with open("/proc/%d/status" % child.pid) as f:
                    if ("TracerPid:\t%d" % st.pid) in f.read():
                        break
            except OSError:
                break
            time.sleep(0.01)
        os.kill(child.pid, signal.SIGCONT)
        rc = child.wait(20)
        try:
            st.wait(5)
        except subprocess.TimeoutExpired:
            st.kill()
        ncalls = 0
        try:
            with open(trace) as f:
                ncalls = sum(1 for ln in f if "(" in ln and "---" not in ln and "+++" not in ln)
            os.unlink(trace)
        except OSError:
            pass
        try:
            with open(path, "rb") as f:
                raw = f.read()
        except OSError:
            raw = None
        if raw is None:
            cls = 0
        elif raw == b"%d\n" % child.pid:
            cls = 1
        elif raw == b"%d\n" % STALE_PID:
            cls = 2
        elif raw == b"":
            cls = -1
        else:
            cls = -3
        # litter left by the killed process is removed
        for nme in os.listdir(piddir):
            if nme.startswith("tmp") or nme.startswith(os.path.basename(path)):
                try:
                    os.unlink(os.path.join(piddir, nme))
                except OSError:
                    pass
        return {"call": call, "n": n, "killed": rc == -signal.SIGKILL, "rc": rc, "cls": cls, "raw": None if raw is None else raw[:40].decode("latin-1"),
                "syscalls": ncalls}
    finally:
        if child.poll() is None:
            child.kill()


def available():
    try:
        subprocess.run(["strace", "-V"], stdout=subprocess.DEVNULL, stderr=subprocess.DEVNULL, timeout=5)
    except (OSError, subprocess.TimeoutExpired):
        return False
    return os.path.isdir("/dev/shm") and os.access("/dev/shm", os.W_OK)
