"""Drive the REAL gunicorn.pidfile.Pidfile on a scratch directory (C17).

The driver owns the environment of the class and nothing else:
  * the file system is real (a scratch directory under /verif/out);
  * `os.getpid()` answers the pid of the instance whose operation is running and
    `os.kill(pid, 0)` consults a simulated process table (alive same user -> ok, alive other
    user -> EPERM, not alive -> ESRCH) -- "instances" are therefore deterministic;
  * every file-related call the module makes (`open`, `os.write/rename/close/chmod/unlink/...`,
    `tempfile.mkstemp`) is a *system-call point*: the directory is snapshotted around it, a
    crash (SystemExit subclass) can be injected just before it, and an environment hook can run
    there (TOCTOU replays).
Abstract values are those of specs/Pidfile.tla: content 0 absent, 1..5 exactly "<pid>\\n",
11..15 names pid n-10 in another spelling, -1 empty, -3 anything else.
"""
import builtins
import errno
import os
import shutil
import sys
import tempfile as _tempfile

import gunicorn.pidfile as gp

# (the foreign pids 3 and 5 extend the digits of the instances' pids 1 and 2: "41001" is a prefix of "410015")
REAL = {1: 41001, 2: 41002, 3: 410015, 4: 51004, 5: 410029}
ABS = {v: k for k, v in REAL.items()}
NAMES = {"p": "gunicorn.pid", "q": "gunicorn.pid.2"}

CALL2STEP = {"kill": "vprobe", "mkstemp": "mkstemp", "write": "write", "rename": "rename",
             "replace": "rename", "close": "close", "chmod": "chmod", "unlink": "uunlink",
             "remove": "uunlink"}
OS_POINTS = ("write", "rename", "replace", "close", "chmod", "unlink", "remove", "open", "fdopen",
             "link", "symlink", "truncate", "ftruncate", "fsync", "fchmod", "rmdir", "mkdir")


class Crash(SystemExit):
    """the process dies here"""


def classify(data):
    if data is None:
        return 0
    if data == b"":
        return -1
    try:
        txt = data.decode("ascii")
    except UnicodeDecodeError:
        return -3
    if txt.endswith("\n") and txt[:-1].isdigit() and txt[:-1] == str(int(txt[:-1])):
        return ABS.get(int(txt), 5)          # an unknown pid is a pid that is not alive (5)
    try:
        n = int(txt)
    except ValueError:
        return -3
    return 10 + ABS.get(n, 5)


def content_bytes(c, variant=0):
    if c in (1, 2, 3, 4, 5):
        return b"%d\n" % REAL[c]
    if 11 <= c <= 15:
        return [b"%d", b" %d\n", b"%d\n\n", b"0%d\n"][variant % 4] % REAL[c - 10]
    if c == -1:
        return b""
    return [b"junk\n", b"None\n", b"12x\n", b"41 001\n", b"\xff\xfe"][variant % 5]


class World:
    def __init__(self, root):
        self.root = root
        shutil.rmtree(root, ignore_errors=True)
        os.makedirs(root)
        self.path = {k: os.path.join(root, v) for k, v in NAMES.items()}
        self.rpath = {v: k for k, v in self.path.items()}
        self.alive = {1, 2, 3, 4}
        self.pf = {i: gp.Pidfile(self.path["p"]) for i in (1, 2)}
        self.cur = 0
        self.events = []
        self.pending = None
        self.ctx = None            # fields of the running operation copied into its events
        self.nsys = 0
        self.plan = None           # ("index", k) | ("name", step) | ("short", None)
        self.hooks = {}            # syscall index -> callable(world)
        self.fds = set()
        self.variant = 0
        self.raw = []              # raw contents seen (reporting)

    # ---- observation -----------------------------------------------------------------------
    def read(self, x):
        try:
            with builtins.open(self.path[x], "rb") as f:
                return f.read()
        except FileNotFoundError:
            return None

    def files(self):
        return {"p": classify(self.read("p")), "q": classify(self.read("q"))}

    def proj(self):
        f = self.files()
        others = [n for n in os.listdir(self.root) if n not in NAMES.values()]
        f["l"] = len(others)
        f["al"] = sorted(self.alive)
        f["fn"] = [self.rpath.get(self.pf[i].fname, "?") for i in (1, 2)]
        f["mp"] = [self._abs_pid(self.pf[i].pid) for i in (1, 2)]
        return f

    @staticmethod
    def _abs_pid(pid):
        if pid is None:
            return 0
        return ABS.get(pid, -1)

    # ---- events ----------------------------------------------------------------------------
    def _event(self, e, **kw):
        ev = {"e": e, "i": 0, "k": "", "from": "p", "to": "p", "s": "", "fin": "", "rt": 0, "x": "",
              "c": 0, "pre": self.files(), "mid": None, "st": None, "opre": {"p": 0, "q": 0}, "al0": []}
        if self.ctx and e in ("start", "sys", "crash"):
            ev.update(self.ctx)
        ev.update(kw)
        return ev

    def _flush(self, fin="", rt=0):
        ev = self.pending
        if ev is not None:
            ev["st"] = self.proj()
            if ev["mid"] is None:
                ev["mid"] = {"p": ev["st"]["p"], "q": ev["st"]["q"]}
            ev["fin"] = fin
            ev["rt"] = rt
            self.events.append(ev)
            self.pending = None

    def _emit(self, ev):
        ev["st"] = self.proj()
        ev["mid"] = {"p": ev["st"]["p"], "q": ev["st"]["q"]}
        self.events.append(ev)

    # ---- system-call points ----------------------------------------------------------------
    def point(self, name, fn, *a, **kw):
        self._flush()
        k = self.nsys
        plan = self.plan
        if plan and ((plan[0] == "index" and plan[1] == k) or (plan[0] == "name" and plan[1] == name)):
            self.plan = None
            self._crash(name)
        hook = self.hooks.pop(k, None)
        if hook:
            hook(self)
        self.nsys += 1
        ev = self._event("sys", s=name)
        self.pending = ev
        if plan and plan[0] == "short" and name == "write":
            self.plan = None
            data = a[1]
            os.write(a[0], data[:max(1, len(data) // 2)])
            ev["mid"] = self.files()
            self._flush()
            self._crash("rename")
        try:
            return fn(*a, **kw)
        finally:
            ev["mid"] = self.files()

    def _crash(self, name):
        for fd in list(self.fds):
            try:
                os.close(fd)
            except OSError:
                pass
        self.fds.clear()
        self.alive.discard(self.cur)
        self._emit(self._event("crash", s=name, fin="crash"))
        raise Crash(name)

    # ---- environment -----------------------------------------------------------------------
    def foreign(self, x, c):
        ev = self._event("foreign", x=x, c=c)
        data = content_bytes(c, self.variant)
        self.variant += 1
        with builtins.open(self.path[x], "wb") as f:
            f.write(data)
        ev["raw"] = data.decode("latin-1")
        self._emit(ev)

    def die(self, p):
        ev = self._event("die", c=p)
        self.alive.discard(p)
        self._emit(ev)

    # ---- operations ------------------------------------------------------------------------
    def run_op(self, i, k, to=None, plan=None, hooks=None):
        """run one operation of instance i on the real class; returns (fin, rt, events of the op)"""
        pf = self.pf[i]
        frm = self.rpath.get(pf.fname, "?")
        to = to if k in ("rename", "reload") else frm
        self.cur = i
        self.nsys = 0
        self.plan = plan
        self.hooks = dict(hooks or {})
        self.ctx = {"i": i, "k": k, "from": frm, "to": to, "opre": self.files(), "al0": sorted(self.alive)}
        first = len(self.events)
        self._emit(self._event("start"))
        fin, rt, exc = "ok", 0, None
        try:
            with Patched(self):
                if k == "create":
                    pf.create(REAL[i])
                elif k == "unlink":
                    pf.unlink()
                elif k == "validate":
                    r = pf.validate()
                    rt = 0 if r is None else ABS.get(r, -1)
                elif k == "rename":
                    pf.rename(self.path[to])
                elif k == "reload":
                    # arbiter.py reload 471-478: unlink the old file, new Pidfile object, create
                    pf.unlink()
                    self.pf[i] = gp.Pidfile(self.path[to])
                    self.pf[i].create(REAL[i])
                else:
                    raise ValueError(k)
        except Crash:
            fin = "crash"
            self.pending = None
        except RuntimeError as e:
            fin, exc = "raised", repr(e)
        except Exception as e:     # noqa: any other failure of the operation
            fin, exc = "error:" + type(e).__name__, repr(e)
        if fin != "crash":
            if self.pending is None:
                # an operation that made no system call at all: give it an end event
                self.pending = self._event("sys", s="none")
            self._flush(fin, rt)
        self.plan = None
        self.hooks = {}
        self.ctx = None
        self.cur = 0
        evs = self.events[first:]
        if exc:
            evs[-1]["exc"] = exc
        return fin, rt, evs


class _OsProxy:
    def __init__(self, w):
        self._w = w

    def __getattr__(self, name):
        return getattr(os, name)

    def getpid(self):
        return REAL[self._w.cur]

    def kill(self, pid, sig):
        return self._w.point("vprobe", self._kill, pid, sig)

    def _kill(self, pid, sig):
        n = ABS.get(pid)
        if n is None or n not in self._w.alive:
            raise OSError(errno.ESRCH, "No such process")
        if n == 4:
            raise OSError(errno.EPERM, "Operation not permitted")
        if sig != 0:
            raise AssertionError("pidfile sent signal %r" % sig)

    def close(self, fd):
        self._w.fds.discard(fd)
        return self._w.point("close", os.close, fd)

    def open(self, *a, **kw):
        fd = self._w.point("os.open", os.open, *a, **kw)
        self._w.fds.add(fd)
        return fd


def _mk_os_point(name):
    def call(self, *a, **kw):
        return self._w.point(CALL2STEP.get(name, "os." + name), getattr(os, name), *a, **kw)
    call.__name__ = name
    return call


for _n in OS_POINTS:
    if _n not in ("close", "open"):
        setattr(_OsProxy, _n, _mk_os_point(_n))


class _TmpProxy:
    def __init__(self, w):
        self._w = w

    def __getattr__(self, name):
        return getattr(_tempfile, name)

    def mkstemp(self, *a, **kw):
        fd, name = self._w.point("mkstemp", _tempfile.mkstemp, *a, **kw)
        self._w.fds.add(fd)
        return fd, name


class _WFile:
    """file object opened for writing by the module: every method that can reach the disk is a point"""

    def __init__(self, w, f):
        self._w, self._f = w, f

    def __getattr__(self, name):
        return getattr(self._f, name)

    def write(self, data):
        r = self._w.point("f.write", self._f.write, data)
        return r

    def flush(self):
        return self._w.point("f.flush", self._f.flush)

    def close(self):
        return self._w.point("f.close", self._f.close)

    def __enter__(self):
        return self

    def __exit__(self, *a):
        self.close()
        return False


def _make_open(w):
    def _open(file, mode="r", *a, **kw):
        if any(ch in mode for ch in "wax+"):
            f = w.point("open-w", builtins.open, file, mode, *a, **kw)
            return _WFile(w, f)
        caller = sys._getframe(1).f_code.co_name
        return w.point("uopen" if caller == "unlink" else "vopen", builtins.open, file, mode, *a, **kw)
    return _open


class Patched:
    def __init__(self, w):
        self.w = w

    def __enter__(self):
        self.saved = (gp.os, gp.tempfile, gp.__dict__.get("open"))
        gp.os = _OsProxy(self.w)
        gp.tempfile = _TmpProxy(self.w)
        gp.open = _make_open(self.w)
        return self

    def __exit__(self, *a):
        gp.os, gp.tempfile = self.saved[0], self.saved[1]
        if self.saved[2] is None:
            del gp.open
        else:
            gp.open = self.saved[2]
        return False


# ---------------------------------------------------------------------------------------------
# domain of C17's histories (mirrors the guards of Start in specs/Pidfile.tla)
# ---------------------------------------------------------------------------------------------

class Domain:
    """which operations an instance may start: a failed create only cleans up (unlink) and exits;
    rename only after a create that returned."""

    def __init__(self):
        self.stat = {1: "new", 2: "new"}

    def allowed(self, w, i):
        if i not in w.alive:
            return []
        if self.stat[i] == "failed":
            return ["unlink"]
        ops = ["create", "unlink", "validate", "reload"]
        if self.stat[i] == "held":
            ops.append("rename")
        return ops

    def after(self, i, k, fin):
        if fin not in ("ok", "crash"):
            self.stat[i] = "failed"
        elif fin == "ok" and k in ("create", "rename", "reload"):
            self.stat[i] = "held"


def random_history(rng, root, nops=7, own_stale=False):
    w = World(root)
    dom = Domain()
    w.variant = rng.randrange(20)
    for _ in range(nops):
        r = rng.random()
        if r < 0.22:
            cs = [3, 4, 5, 13, -1, -3] + ([1, 2] if own_stale else [])
            w.foreign(rng.choice("pq"), rng.choice(cs))
        elif r < 0.30 and w.alive:
            w.die(rng.choice(sorted(w.alive)))
        else:
            cand = [(i, k) for i in (1, 2) for k in dom.allowed(w, i)]
            if not cand:
                continue
            i, k = rng.choice(cand)
            to = rng.choice("pq")
            plan = None
            if k in ("create", "rename", "reload") and rng.random() < 0.2:
                plan = ("short", None) if rng.random() < 0.2 else ("index", rng.randrange(0, 9))
            fin, _, _ = w.run_op(i, k, to, plan=plan)
            dom.after(i, k, fin)
    return w
