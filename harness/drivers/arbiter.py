"""Driver for the master process: runs the REAL gunicorn.arbiter.Arbiter.run() on the simulated
kernel of drivers/simos_kernel.py under an environment SCHEDULE and records the trace.

run_one(spec) -> {"cfg": {...}, "ev": [[name, p, a, b, now, num_workers, qlen], ...], "meta": {...}}

spec keys (all optional):
  nw        initial number of workers            timeout   seconds (cfg.timeout)
  graceful  seconds (cfg.graceful_timeout)       T         ticks per virtual second
  unix      bind to a unix socket path           pidfile   use a pid file
  sched     {"kind": "explicit", "steps": [{"at": [label, nth] | ["#", idx], "do": [step, ...]}, ...],
             "autochld": bool}
         or {"kind": "random", "seed": n, ...parameters of RandomSched...}
  tail_s    length of the quiescent tail in virtual seconds (default timeout + 4)

steps:  ["die", pidref, status] ["hang", pidref, ignore] ["beat", pidref] ["sig", NAME, workers, addrchg]
        ["chld"] ["tick", n] ["tail"]         pidref: pid | "last" | "oldest" | "youngest"
Injection point labels: fork.pre fork.post assign.post untrack.post kill.pre kill.post wait.pre
        wait.post select.pre select.tick sleep.pre sleep.post lclose.post log (+ line.<n> when tracing)
"""
import os
import random
import shutil
import sys

from drivers import simos_kernel as sk

HOME = os.environ.get("VERIF_HOME") or os.path.dirname(os.path.dirname(os.path.dirname(os.path.abspath(__file__))))
SCRATCH = os.path.join(os.environ.get("VERIF_OUT") or os.path.join(HOME, "out"), "arbiter_scratch", str(os.getpid()))

_CUR = {"kernel": None, "settings": None, "hups": None, "nreload": 0}


class QuietLog:
    """logger_class replacement: keeps error-level records for diagnosis, prints nothing"""

    def __init__(self, cfg):
        self.records = []

    def _rec(self, lvl, msg, *a, **kw):
        # writing a log record takes time: a signal may be handled in the middle of it.  The standard library's handlers
        # catch whatever Exception is raised inside emit() (Handler.handleError) - a BaseException passes through
        k = _CUR.get("kernel")
        if k is not None and getattr(k, "arb", None) is not None and not k.in_emit:
            try:
                k.inject("log")
            except Exception:      # noqa
                self.records.append("swallowed: exception raised inside a logging call")
        if len(self.records) < 50:
            try:
                self.records.append(lvl + ": " + (msg % a if a else str(msg)))
            except Exception:
                self.records.append(lvl + ": " + str(msg))

    def critical(self, msg, *a, **kw):
        self._rec("critical", msg, *a)

    def error(self, msg, *a, **kw):
        self._rec("error", msg, *a)
        if kw.get("exc_info"):
            import traceback
            self.records.append(traceback.format_exc()[-1500:])

    def exception(self, msg, *a, **kw):
        self.error(msg, *a, exc_info=True)

    def warning(self, msg, *a, **kw):
        pass

    info = debug = log = access = warning

    def reopen_files(self):
        pass

    def close_on_exec(self):
        pass


class FakeWorker:
    """worker_class: only what the master touches.  `tmp` is the REAL WorkerTmp (heartbeat file):
    the environment step "beat" calls tmp.notify() as the child would through the shared
    descriptor, the master's timeout scan reads tmp.last_update()."""

    def __init__(self, age, ppid, sockets, app, timeout, cfg, log):
        from gunicorn.workers.workertmp import WorkerTmp
        self.age = age
        self.pid = "[booting]"
        self.ppid = ppid
        self.sockets = sockets
        self.app = app
        self.timeout = timeout
        self.cfg = cfg
        self.booted = False
        self.aborted = False
        self.log = log
        self.tmp = WorkerTmp(cfg)
        k = _CUR["kernel"]
        k.last_worker = self
        k.all_tmps.append(self.tmp)

    def init_process(self):
        raise RuntimeError("the child side never runs in SimOS")


def _app_class():
    from gunicorn.app.base import BaseApplication

    class App(BaseApplication):
        def load_config(self):
            st = dict(_CUR["settings"])
            if _CUR["nreload"] > 0:
                hups = _CUR["hups"]
                idx = min(_CUR["nreload"], len(hups)) - 1
                if idx >= 0:
                    st.update(hups[idx])
                    _CUR["applied"] = dict(hups[idx])
                _CUR["kernel"].emit("cfgread", 0, st["workers"])
            _CUR["nreload"] += 1
            for k, v in st.items():
                self.cfg.set(k, v)

        def load(self):
            return lambda environ, start_response: None

    return App


# --------------------------------------------------------------------------------------------
# schedules
# --------------------------------------------------------------------------------------------

class BaseSched:
    def __init__(self, spec):
        self.spec = spec
        self.T = spec.get("T", 2)
        self.to_ticks = spec.get("timeout", 2) * self.T
        self.in_tail = False
        self.applied = []            # [[point index, step], ...]  -> explicit replay of this run
        self.tail_ticks = int(spec.get("tail_s", spec.get("timeout", 2) + 4) * self.T)
        self.autochld = True
        self._idx = 0
        self.lazy_beat = spec.get("lazy_beat", True)
        self.hup_count = 0

    # -- helpers
    def resolve(self, k, ref):
        if isinstance(ref, int):
            return ref
        live = sorted(p.pid for p in k.live())
        if ref == "last":
            return k.next_pid - 1
        if not live:
            return -1
        return live[0] if ref == "oldest" else live[-1]

    def apply(self, k, step, record=True):
        op = step[0]
        done = False
        if op == "die":
            pid = self.resolve(k, step[1])
            done = k.env_die(pid, step[2])
            step = ["die", pid, step[2]]
        elif op == "hang":
            pid = self.resolve(k, step[1])
            done = k.env_hang(pid, step[2])
            step = ["hang", pid, step[2]]
        elif op == "beat":
            pid = self.resolve(k, step[1])
            done = k.env_beat(pid)
            step = ["beat", pid]
        elif op == "sig":
            name = step[1]
            nwn = step[2] if len(step) > 2 else 0
            chg = step[3] if len(step) > 3 else 0
            if name == "HUP":
                # the value the NEXT reload will read is fixed when the signal is queued
                hv = {"workers": nwn or _CUR["settings"]["workers"]}
                if chg:
                    self.hup_count += 1
                    hv["bind"] = _alt_bind(self.spec, self.hup_count)
                elif _CUR["hups"] and "bind" in _CUR["hups"][-1]:
                    hv["bind"] = _CUR["hups"][-1]["bind"]
                _CUR["hups"].append(hv)
                q = k.env_signal(name, hv["workers"] + 10 * (1 if chg else 0))
                if not q:
                    _CUR["hups"].pop()
            else:
                k.env_signal(name, 0)
            done = True
        elif op == "chld":
            done = k.deliver_chld()
        elif op == "tick":
            k.env_tick(step[1] if len(step) > 1 else 1)
            done = True
        elif op == "tail":
            self.start_tail(k)
            return True
        if done and record:
            self.applied.append([self._idx, list(step)])
        return done

    def start_tail(self, k):
        if self.in_tail:
            return
        self.in_tail = True
        self.applied.append([self._idx, ["tail"]])
        k.emit("tail")
        k.deadline = k.ticks + self.tail_ticks
        self.tail_react(k)

    def tail_react(self, k):
        """quiescent tail: no new faults; healthy workers that were asked to stop do stop"""
        for p in sorted(k.live(), key=lambda p: p.pid):
            if p.st == "run" and (15 in p.got or 3 in p.got):
                k.env_die(p.pid, 0)
        k.deliver_chld()

    def before_tick(self, k):
        """healthy workers never let their heartbeat get older than the timeout"""
        for p in k.live():
            if p.st == "run":
                lag = k.ticks - p.last_beat
                if lag >= self.to_ticks or not self.lazy_beat:
                    k.env_beat(p.pid)

    def after_tick(self, k):
        pass

    def pick_zombie(self, k, zs):
        return zs[0]

    def at(self, k, label, nth, idx):
        self._idx = idx
        if self.in_tail:
            self.tail_react(k)
            return
        self.step(k, label, nth, idx)
        if k.chld_pending and (self.autochld or label.startswith("select")):
            k.deliver_chld()

    def step(self, k, label, nth, idx):
        pass


class ExplicitSched(BaseSched):
    def __init__(self, spec):
        super().__init__(spec)
        s = spec["sched"]
        self.steps = [dict(x) for x in s.get("steps", [])]
        self.autochld = s.get("autochld", True)
        self.left = len(self.steps)
        self.done_flags = [False] * len(self.steps)
        self.has_tail = any(st[0] == "tail" for x in self.steps for st in x["do"])

    def step(self, k, label, nth, idx):
        for i, ent in enumerate(self.steps):
            if self.done_flags[i]:
                continue
            at = ent["at"]
            if (at[0] == "#" and at[1] == idx) or (at[0] == label and at[1] == nth):
                self.done_flags[i] = True
                self.left -= 1
                for st in ent["do"]:
                    self.apply(k, st)
                    if self.in_tail:
                        return
        if self.left == 0 and not self.has_tail and label == "select.pre" and not self.in_tail:
            if k.chld_pending:
                k.deliver_chld()
            self.start_tail(k)


# exit codes (status = code << 8), plain signals, signals with the core-dump bit (139 = SIGSEGV | 0x80, 134 = SIGABRT | 0x80),
# real-time signals (34, 64) and the largest exit code
DEFAULT_STATUSES = [0, 256, 256, 9, 15, 11, 139, 134, 34, 64, 65280, 512]


class RandomSched(BaseSched):
    """seeded random environment.  Parameters (spec["sched"]):
       events   budget of fault/signal steps        p_act    probability of acting at a point
       sigs     list of master signal names to draw from (with multiplicity)
       statuses list of wait statuses for spontaneous deaths
       hang     probability weight of hang steps, ign = probability that a hang ignores ABRT/TERM
       window   extra weight for acting at fork.post (the fork/assign window)
       max_points  start the tail at the latest after this many injection points"""

    def __init__(self, spec):
        super().__init__(spec)
        s = spec["sched"]
        self.rng = random.Random(s.get("seed", 0))
        self.budget = s.get("events", 6)
        self.p_act = s.get("p_act", 0.12)
        self.sigs = s.get("sigs", ["TTIN", "TTOU", "HUP"])
        self.statuses = s.get("statuses", DEFAULT_STATUSES)
        self.w_die = s.get("die", 3)
        self.w_hang = s.get("hang", 0)
        self.w_sig = s.get("sig", 3) if self.sigs else 0
        self.ign = s.get("ign", 0.4)
        self.window = s.get("window", 0.3)
        self.no_window = s.get("no_window", False)
        self.max_points = s.get("max_points", 400)
        self.p_exit = s.get("p_exit", 0.35)
        self.jitter = s.get("jitter", 0)
        self.max_nw = s.get("max_nw", 4)
        self.addrchg = s.get("addrchg", 0.0)
        self.burst = s.get("burst", 0.1)
        self.hup_workers = s.get("hup_workers", [1, 2, 3])

    def step(self, k, label, nth, idx):
        rng = self.rng
        # reactions: workers that were asked to stop do so after a while
        for p in sorted(k.live(), key=lambda p: p.pid):
            if p.st == "run" and (15 in p.got or 3 in p.got) and rng.random() < self.p_exit:
                self.apply(k, ["die", p.pid, 0])
        if self.budget <= 0 or idx > self.max_points:
            if label in ("select.pre", "sleep.pre") or idx > self.max_points + 50:
                self.start_tail(k)
            return
        p_here = self.p_act
        if label in ("fork.post", "assign.pre"):
            p_here = 0.0 if self.no_window else max(self.p_act, self.window)
        if rng.random() >= p_here:
            return
        n = 1
        if rng.random() < self.burst:
            n = rng.randint(2, 7)
        for _ in range(n):
            if self.budget <= 0:
                break
            self.one(k, label)
        if self.jitter > 0 and rng.random() < 0.3:
            self.jitter -= 1
            self.apply(k, ["tick", 1])

    def one(self, k, label):
        rng = self.rng
        live = sorted(p.pid for p in k.live())
        running = sorted(p.pid for p in k.live() if p.st == "run")
        choices = []
        if live and self.w_die:
            choices += ["die"] * self.w_die
        if running and self.w_hang:
            choices += ["hang"] * self.w_hang
        if self.w_sig:
            choices += ["sig"] * self.w_sig
        if not choices:
            return
        c = rng.choice(choices)
        self.budget -= 1
        if c == "die":
            if label in ("fork.post", "assign.pre") and rng.random() < 0.8:
                pid = k.next_pid - 1
            else:
                pid = rng.choice(live)
            self.apply(k, ["die", pid, rng.choice(self.statuses)])
        elif c == "hang":
            self.apply(k, ["hang", rng.choice(running), 1 if rng.random() < self.ign else 0])
        else:
            name = rng.choice(self.sigs)
            if name == "HUP":
                self.apply(k, ["sig", "HUP", rng.choice(self.hup_workers),
                               1 if rng.random() < self.addrchg else 0])
            else:
                self.apply(k, ["sig", name])


def _alt_bind(spec, n):
    if spec.get("unix"):
        return "unix:" + os.path.join(SCRATCH, "g%d.sock" % n)
    return "127.0.0.1:%d" % (8001 + n)


# --------------------------------------------------------------------------------------------

def run_one(spec, sched=None, line_points=False):
    """Run the real Arbiter.run() once.  Returns the trace dict."""
    from gunicorn.arbiter import Arbiter
    os.makedirs(SCRATCH, exist_ok=True)
    T = spec.get("T", 2)
    line_points = line_points or spec.get("line_points", False)
    settings = {
        "workers": spec.get("nw", 2),
        "timeout": spec.get("timeout", 2),
        "graceful_timeout": spec.get("graceful", 1),
        "worker_class": FakeWorker,
        "logger_class": QuietLog,
        "worker_tmp_dir": SCRATCH,
        "bind": ("unix:" + os.path.join(SCRATCH, "g0.sock")) if spec.get("unix") else "127.0.0.1:8000",
    }
    pidpath = os.path.join(SCRATCH, "master.pid")
    for f in os.listdir(SCRATCH):
        try:
            os.unlink(os.path.join(SCRATCH, f))
        except OSError:
            pass
    if spec.get("pidfile", True):
        settings["pidfile"] = pidpath
    if sched is None:
        kind = spec.get("sched", {}).get("kind", "explicit")
        sched = RandomSched(spec) if kind == "random" else ExplicitSched(
            dict(spec, sched=spec.get("sched", {"steps": []})))
    k = sk.SimKernel(sched, T=T, scratch=SCRATCH)
    if "pid_style" not in spec:
        sd = spec.get("sched", {})
        # seeded random schedules also vary the order in which the kernel hands out pids
        spec["pid_style"] = ("asc", "desc", "wrap")[sd.get("seed", 0) % 3] if sd.get("kind") == "random" else "asc"
    k.pid_style = spec["pid_style"]
    if "boot_ticks" not in spec:
        sd = spec.get("sched", {})
        # only where the property quantifies over TTIN / TTOU / HUP histories without promising generations (C03)
        on = os.environ.get("VERIF_BOOT_SWALLOW") == "1" and sd.get("kind") == "random"
        spec["boot_ticks"] = (0, 0, 2, 3)[(sd.get("seed", 0) // 3) % 4] if on else 0
    k.boot_ticks = spec["boot_ticks"]
    if "abrt_core" not in spec:
        sd = spec.get("sched", {})
        spec["abrt_core"] = bool(sd.get("kind") == "random" and (sd.get("seed", 0) // 5) % 3 == 0)
    k.abrt_core = spec["abrt_core"]
    k.all_tmps = []
    _CUR.update(kernel=k, settings=settings, hups=[], nreload=0, applied=None)
    os.environ.pop("GUNICORN_PID", None)
    saved_env = os.environ.get("SERVER_SOFTWARE")
    end, status, exc = "end", 0, ""
    arb = None
    k.install()
    tracer = None
    try:
        app = _app_class()()
        arb = Arbiter(app)
        arb.WORKERS = sk.HookDict(k)
        arb.SIG_QUEUE = []
        arb.LISTENERS = []
        arb.PIPE = []
        k.arb = arb
        if line_points:
            tracer = _line_tracer(k)
            sys.settrace(tracer)
        try:
            arb.run()
            end, exc = "escape", "returned"
        except SystemExit as e:
            c = e.code
            end, status = "exit", (0 if c is None else c if isinstance(c, int) else 1)
        except sk.EndOfRun as e:
            end, exc = "end", str(e)
        except BaseException as e:          # HaltServer & co escaping run(): interpreter exit status 1
            end, status, exc = "escape", 1, type(e).__name__
    finally:
        if tracer is not None:
            sys.settrace(None)
        k.uninstall()
        if saved_env is None:
            os.environ.pop("SERVER_SOFTWARE", None)
    pf = 1 if os.path.exists(pidpath) else 0
    us = 1 if any(f.endswith(".sock") for f in os.listdir(SCRATCH)) else 0
    decided = 1 if (end != "end" or (sched.in_tail and exc == "deadline")) else 0
    k.events.append([end, pf, status & 0xff if end == "exit" else status, us, k.ticks,
                     arb.num_workers if arb is not None else 0, decided])
    # cleanup
    if arb is not None:
        for fd in arb.PIPE:
            try:
                os.close(fd)
            except OSError:
                pass
    for t in k.all_tmps:
        try:
            t.close()
        except Exception:
            pass
    cfg = {"nw": settings["workers"], "to": settings["timeout"] * T, "gr": settings["graceful_timeout"] * T,
           "T": T, "unix": 1 if spec.get("unix") else 0, "pidfile": 1 if spec.get("pidfile", True) else 0,
           "jit": spec.get("sched", {}).get("jitter", 0) if isinstance(spec.get("sched"), dict) else 0,
           "prop": spec.get("prop", "ALL")}
    meta = {"end": end, "exc": exc, "status": status, "points": k.npoints,
            "applied": sched.applied, "log": arb.log.records[:8] if arb is not None else [],
            "workers_final": arb.WORKERS.ids() if arb is not None else [],
            "procs": {p.pid: p.st for p in k.procs.values()}}
    return {"cfg": cfg, "ev": k.events, "meta": meta}


def explicit_from(trace, spec):
    """the explicit schedule that reproduces a recorded run (absolute injection-point indices)"""
    steps = [{"at": ["#", i], "do": [st]} for i, st in trace["meta"]["applied"]]
    s = dict(spec)
    s["sched"] = {"kind": "explicit", "steps": steps, "autochld": True}
    return s


def _line_tracer(k):
    """thorough tier: every source line of arbiter.py is an injection point (signal handlers run
    between bytecodes of the main thread)"""
    import gunicorn.arbiter as ga
    fn = ga.__file__

    def local(frame, event, arg):
        if event == "line" and not k.in_handler:
            k.inject("line:" + frame.f_code.co_name)       # (one label per function: schedules can aim at a function)
        return local

    def tracer(frame, event, arg):
        if frame.f_code.co_filename == fn and frame.f_code.co_name not in ("handle_chld", "reap_workers",
                                                                          "signal", "wakeup"):
            return local
        return None

    return tracer


def cleanup():
    shutil.rmtree(SCRATCH, ignore_errors=True)


# --------------------------------------------------------------------------------------------
# spec -> code: replay of a TLC behaviour of specs/Arbiter.tla
# --------------------------------------------------------------------------------------------

STATUS_OF = {"ok": 0, "err": 256, "sig": 9, "b3": 768, "b4": 1024}
ENV_ACTIONS = {"Die", "ExitOnSig", "Hang", "Beat", "SendSig", "Chld"}
OP_OF = {"Fork": "fork", "Assign": "assign", "Nap": "sleep", "Kill": "kill", "SelectTimeout": "select",
         "SelectWake": "select", "StopSleep": "sleep", "LClose": "lclose", "LOpen": "lopen",
         "Unlink": "unlink", "Exit": "exit"}
KST = {"run": "run", "hung": "hung", "zombie": "zomb", "reaped": "reaped"}


class Drift(Exception):
    pass


def _set(v):
    return set(v["__set__"]) if isinstance(v, dict) and "__set__" in v else set(v)


class ReplaySched(BaseSched):
    """The behaviour decides everything the environment does; the real master must perform the
    same visible operations in the same order and be in the same projected state before each."""

    def __init__(self, spec, beh, autobeat):
        super().__init__(spec)
        self.beh = beh                  # [(action, state), ...], beh[0] = Init
        self.cur = 1                    # next step to consume
        self.autobeat = autobeat
        self.drift = None
        self.ops = 0

    def before_tick(self, k):
        pass

    def after_tick(self, k):
        if self.autobeat:
            for p in k.live():
                if p.st == "run":
                    k.env_beat(p.pid)

    def fail(self, what):
        if self.drift is None:
            self.drift = "step %d (%s): %s" % (self.cur, self.beh[min(self.cur, len(self.beh) - 1)][0], what)
        raise sk.EndOfRun("drift")

    def compare(self, k):
        st = self.beh[self.cur - 1][1]
        m = st["m"]
        arb = k.arb
        got_w = set(arb.WORKERS.ids())
        if got_w != _set(m["W"]):
            self.fail("WORKERS %s, model %s" % (sorted(got_w), sorted(_set(m["W"]))))
        if arb.num_workers != m["nw"]:
            self.fail("num_workers %s, model %s" % (arb.num_workers, m["nw"]))
        if len(arb.SIG_QUEUE) != len(m["sigq"]):
            self.fail("len(SIG_QUEUE) %s, model %s" % (len(arb.SIG_QUEUE), len(m["sigq"])))
        ab = arb.WORKERS.aborted_ids()
        if ab != (_set(m["ab"]) & got_w):
            self.fail("aborted %s, model %s" % (sorted(ab), sorted(_set(m["ab"]) & got_w)))
        for i, s in enumerate(st["st"]):
            pid = i + 1
            have = KST[k.procs[pid].st] if pid in k.procs else "none"
            if have != s:
                self.fail("process %d is %s, model %s" % (pid, have, s))
        lo = any(ls.open for ls in k.listeners)
        if lo != m["lopen"]:
            self.fail("listeners open %s, model %s" % (lo, m["lopen"]))

    def env_step(self, k, act, prev, nxt):
        if act in ("Die", "ExitOnSig"):
            for i, (a, b) in enumerate(zip(prev["st"], nxt["st"])):
                if a != b:
                    k.env_die(i + 1, STATUS_OF[nxt["xs"][i]])
        elif act == "Hang":
            for i, (a, b) in enumerate(zip(prev["st"], nxt["st"])):
                if a != b:
                    k.env_hang(i + 1, nxt["ign"][i])
        elif act == "Beat":
            for i, (a, b) in enumerate(zip(prev["lag"], nxt["lag"])):
                if a != b:
                    k.env_beat(i + 1)
        elif act == "SendSig":
            q0, q1 = prev["m"]["sigq"], nxt["m"]["sigq"]
            if len(q1) > len(q0):
                name, w, c = q1[-1]
                self.apply(k, ["sig", name, w, c], record=False)
            else:
                self.apply(k, ["sig", "TTIN"], record=False)
        elif act == "Chld":
            if not k.chld_pending:
                self.fail("model delivers SIGCHLD, none pending in the kernel")
            k.deliver_chld()

    def at(self, k, label, nth, idx):
        if k.in_handler or not label.endswith(".pre"):
            return
        op = k.cur_op[0]
        self.compare(k)
        while True:
            if self.cur >= len(self.beh):
                raise sk.EndOfRun("replayed")
            act, nxt = self.beh[self.cur]
            if act not in ENV_ACTIONS:
                break
            prev = self.beh[self.cur - 1][1]
            self.cur += 1
            self.env_step(k, act, prev, nxt)      # Chld may raise HaltServer into the master
            self.compare(k)
        if op == "unlink" and act != "Unlink":
            return                                 # pid file handling inside reload() is not modelled
        if OP_OF.get(act) != op:
            self.fail("master performs %s, model expects %s" % (k.cur_op, act))
        pm = self.beh[self.cur - 1][1]
        if act == "Kill":
            want = (pm["m"]["kp"], sk.SIGNUM[pm["m"]["ks"]])
            if (k.cur_op[1], k.cur_op[2]) != want:
                self.fail("kill%s, model kill%s" % (k.cur_op[1:], want))
        if act == "Fork" and k.cur_op[1] != pm["nextPid"]:
            self.fail("fork -> %s, model %s" % (k.cur_op[1], pm["nextPid"]))
        if act in ("Nap", "StopSleep") and (k.cur_op[1] > 0) != (act == "StopSleep"):
            self.fail("sleep(%d ticks), model %s" % (k.cur_op[1], act))
        if act == "SelectWake" or act == "SelectTimeout":
            import select as _s
            readable = bool(_s.select([k.arb.PIPE[0]], [], [], 0)[0])
            if readable != (act == "SelectWake"):
                self.fail("wake-up pipe readable=%s, model %s" % (readable, act))
        self.cur += 1
        self.ops += 1

    def finish(self, k, end, status, exc):
        """called by run_one when run() has ended"""
        if self.drift is not None or end == "end":
            return
        try:
            # the process is gone: environment steps the model still has before Exit cannot be applied
            skipped_chld = False
            while self.cur < len(self.beh) and self.beh[self.cur][0] in ENV_ACTIONS:
                skipped_chld = skipped_chld or self.beh[self.cur][0] == "Chld"
                self.cur += 1
            act, nxt = self.beh[self.cur] if self.cur < len(self.beh) else (None, None)
            last = self.beh[self.cur - 1][1]
            if end == "exit":
                if act != "Exit" and skipped_chld:
                    return                        # handler between the last operation and sys.exit: not reachable
                if act != "Exit":
                    self.fail("master exits(%s), model expects %s (pc %s)" % (status, act, last["m"]["pc"]))
                if last["m"]["xstat"] != status:
                    self.fail("exit status %s, model %s" % (status, last["m"]["xstat"]))
            elif end == "escape":
                if last["m"]["pc"] != "Escaped":
                    self.fail("%s escapes run(), model pc %s" % (exc, last["m"]["pc"]))
        except sk.EndOfRun:
            pass


def replay_behaviour(beh, consts):
    """-> (drift text or None, trace).  consts: Timeout, Graceful, InitWorkers, AutoBeat of the cfg."""
    spec = {"nw": consts["InitWorkers"], "timeout": consts["Timeout"], "graceful": consts["Graceful"],
            "T": 1, "pidfile": True, "prop": "ALL"}
    sched = ReplaySched(spec, beh, consts.get("AutoBeat", True))
    tr = run_one(spec, sched=sched)
    sched.finish(None, tr["meta"]["end"], tr["meta"]["status"], tr["meta"]["exc"])
    tr["meta"]["replayed_ops"] = sched.ops
    return sched.drift, tr
