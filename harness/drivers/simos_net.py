"""simos.net: scripted client sockets, scripted listener, scripted selector, virtual time.

The component under test (a worker main loop) runs unmodified; every call it makes into this
module is a *visible operation*.  The objects keep the simulated network state and call back
into an `owner` (the area driver) at the operations that are injection points:

    owner.ip(kind, c=None)              injection point *before* the operation takes effect
    owner.vop(kind, c=None)             visible operation about to happen (fine-grained mode: a
                                        point at which the baton may pass to another thread)
    owner.emit(event, c=0, x="")        observable event *after* the operation took effect

Nothing here knows about gunicorn.
"""
import errno
import selectors


class VClock:
    """virtual time: stands in for the `time` module of the component (time(), sleep())"""

    def __init__(self, owner=None, start=1000.0):
        self.now = start
        self.start = start
        self.owner = owner

    def time(self):
        return self.now

    def monotonic(self):
        return self.time()

    def sleep(self, dt):
        self.now += dt

    def ticks(self):
        return int(round(self.now - self.start))


class Net:
    """simulated network of one listener and connections 1..n.

    per connection: phase in fresh -> backlog -> accepted; client side: inbuf (bytes the
    client has sent and the server has not read), left (client closed its end), wire (bytes
    the server sent), fd (descriptor number while open; lowest-free allocation like a kernel)."""

    def __init__(self, owner, nconn):
        self.owner = owner
        self.conns = {c: ClientSocket(self, c) for c in range(1, nconn + 1)}
        self.backlog = []
        self.fds = {}            # fd -> object
        self.listener = Listener(self)

    def alloc_fd(self, obj):
        fd = 3
        while fd in self.fds:
            fd += 1
        self.fds[fd] = obj
        return fd

    def free_fd(self, fd):
        self.fds.pop(fd, None)

    # --- client side (environment steps) ----------------------------------------------------
    def connect(self, c):
        s = self.conns[c]
        assert s.phase == "fresh"
        s.phase = "backlog"
        self.backlog.append(c)

    def steal(self, c):
        """another worker of the pool (the listening socket is shared) took the connection off the queue"""
        s = self.conns[c]
        assert s.phase == "backlog" and c in self.backlog
        self.backlog.remove(c)
        s.phase = "stolen"
        s.left = True
        s.closed = True

    def send(self, c, data):
        s = self.conns[c]
        assert s.phase != "fresh" and not s.left
        s.inbuf += data

    def leave(self, c):
        s = self.conns[c]
        assert s.phase != "fresh" and not s.left
        s.left = True

    def readable(self, obj):
        if obj is self.listener:
            return bool(self.backlog) and not obj.closed
        return (not obj.closed) and (bool(obj.inbuf) or obj.left)


class Listener:
    def __init__(self, net):
        self.net = net
        self.closed = False
        self.fd = net.alloc_fd(self)
        self.cid = 0
        # as a supervisor hands a listening socket over (fd://N, socket activation): in blocking mode, unless the worker
        # itself says otherwise
        self.blocking = True

    def setblocking(self, flag):
        self.blocking = bool(flag)

    def getsockname(self):
        return ("127.0.0.1", 8000)

    def fileno(self):
        return -1 if self.closed else self.fd

    def accept(self):
        self.net.owner.ip("accept")
        if self.closed:
            raise OSError(errno.EBADF, "closed listener")
        if not self.net.backlog:
            if self.blocking:
                # (another worker of the pool took the connection): the main thread sleeps in accept() until the next
                # client connects, its kept-alive connections and its heartbeat wait with it
                from drivers import simos_threads as sthr
                raise sthr.SimDeadlock("accept() on a listener left in blocking mode, nothing queued")
            raise BlockingIOError(errno.EAGAIN, "no connection")
        c = self.net.backlog.pop(0)
        s = self.net.conns[c]
        s.phase = "accepted"
        s.fd = self.net.alloc_fd(s)
        self.net.owner.emit("accept", c)
        return s, ("10.0.0.%d" % c, 40000 + c)

    def close(self):
        self.net.owner.ip("lclose")
        if not self.closed:
            self.net.free_fd(self.fd)
        self.closed = True
        self.net.owner.emit("lclose")

    def __repr__(self):
        return "<Listener>"


class ClientSocket:
    """the server's end of connection c"""

    def __init__(self, net, c):
        self.net = net
        self.cid = c
        self.phase = "fresh"
        self.inbuf = b""
        self.left = False
        self.wire = b""
        self.closed = False
        self.nclose = 0
        self.fd = None
        self.blocking = True
        self.fail_send = False       # next sendall raises EPIPE (scheduled)

    def fileno(self):
        return -1 if (self.closed or self.fd is None) else self.fd

    def setblocking(self, flag):
        if self.closed:
            raise OSError(errno.EBADF, "Bad file descriptor")
        self.blocking = bool(flag)

    def settimeout(self, t):
        pass

    def getpeername(self):
        return ("10.0.0.%d" % self.cid, 40000 + self.cid)

    def recv(self, n, *a):
        if self.closed:
            raise OSError(errno.EBADF, "Bad file descriptor")
        if self.inbuf:
            out, self.inbuf = self.inbuf[:n], self.inbuf[n:]
            return out
        if self.left:
            return b""
        # a blocking recv on a silent open connection would hang the handler thread for ever;
        # the simulation reports it instead
        self.net.owner.emit("wouldblock", self.cid)
        raise BlockingIOError(errno.EAGAIN, "simulated recv would block")

    def recv_into(self, buf, *a):
        d = self.recv(len(buf))
        buf[:len(d)] = d
        return len(d)

    def sendall(self, data, *a):
        if self.closed:
            raise OSError(errno.EBADF, "Bad file descriptor")
        if self.fail_send and self.left:
            raise BrokenPipeError(errno.EPIPE, "Broken pipe")
        self.wire += bytes(data)

    def send(self, data, *a):
        self.sendall(data)
        return len(data)

    def shutdown(self, how):
        if self.closed:
            raise OSError(errno.EBADF, "Bad file descriptor")
        if self.fail_send and self.left:
            # the peer has reset the connection: the socket is no longer connected
            raise OSError(errno.ENOTCONN, "Transport endpoint is not connected")

    def close(self):
        self.net.owner.ip("close", self.cid)
        self.nclose += 1
        again = self.closed
        if not self.closed:
            self.closed = True
            self.net.free_fd(self.fd)
        self.net.owner.emit("reclose" if again else "close", self.cid)

    def __repr__(self):
        return "<Conn %d>" % self.cid


class ScriptedSelector(selectors._BaseSelectorImpl):
    """the real selector bookkeeping (register / unregister / KeyError / ValueError semantics of
    selectors._BaseSelectorImpl, keyed by file descriptor) with a scripted select(): it is an
    injection point and returns exactly the registered objects that are ready in the simulated
    network, in the order the schedule dictates.  Like a kernel, a descriptor that was closed
    while registered is never reported (but its stale map entry stays and collides on fd reuse)."""

    def __init__(self, net):
        super().__init__()
        self.net = net
        self.closed = False

    def register(self, fileobj, events, data=None):
        cid = getattr(fileobj, "cid", 0)
        if cid:
            self.net.owner.vop("reg", cid)          # visible operation (fine-grained mode)
        if self.closed:
            raise ValueError("I/O operation on closed selector")
        key = super().register(fileobj, events, data)
        self.net.owner.emit("reg", getattr(fileobj, "cid", 0))
        return key

    def unregister(self, fileobj):
        cid = getattr(fileobj, "cid", 0)
        if cid:
            self.net.owner.vop("unreg", cid)
        key = super().unregister(fileobj)
        self.net.owner.emit("unreg", getattr(fileobj, "cid", 0))
        return key

    def registered_ids(self):
        return sorted(getattr(k.fileobj, "cid", 0) for k in self._fd_to_key.values())

    def ready_keys(self):
        return [k for k in self._fd_to_key.values() if self.net.readable(k.fileobj)]

    def select(self, timeout=None):
        if self.closed:
            raise ValueError("I/O operation on closed selector")
        order = self.net.owner.ip("select")
        keys = self.ready_keys()
        keys.sort(key=lambda k: k.fileobj.cid)
        if order:
            pos = {c: i for i, c in enumerate(order)}
            keys.sort(key=lambda k: pos.get(k.fileobj.cid, 99))
        self.net.owner.emit("select", 0, ",".join(str(k.fileobj.cid) for k in keys))
        return [(k, selectors.EVENT_READ) for k in keys]

    def close(self):
        self.net.owner.ip("pclose")
        self.closed = True
        super().close()
        self.net.owner.emit("pclose")
