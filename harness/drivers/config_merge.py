"""Driver for C16: instantiate abstract ConfigMerge cases for a concrete setting and load the REAL
gunicorn application configuration in-process.

Run as a script with cwd = a private scratch directory (gunicorn.config evaluates util.getcwd() at
import time and Application.load_config chdirs there before it looks for ./gunicorn.conf.py):

    python config_merge.py describe          -> per setting: kind, what each source can express
    python config_merge.py run < jobs.json   -> one result per job

A job is [setting name, case] with case = {fw, file, env, cli in no|A|B|dflt|bad, files: [cli|env|cwd]}.
The input is built by the DOCUMENTED rule (the file named by the command line, else by
GUNICORN_CMD_ARGS, else ./gunicorn.conf.py carries the file mention; the other files are decoys
that mention the setting with the other valid value); the observation is
cfg.settings[name].get() -- abstracted to the labels A / B / D whose value, normalised by the
setting's own command-line type and validator, equals it -- or the startup failure.
"""
import io
import json
import os
import shlex
import sys

REPO = os.environ.get("VERIF_REPO", "/repo")
MISSING = "<inexpressible>"
APP_ARG = "app:app"


class Unusable(Exception):
    pass


try:
    import paste.deploy   # noqa
    HAVE_PASTE = True
except Exception:   # noqa
    HAVE_PASTE = False


FALLBACK_SETTINGS = {"workers": "WEB_CONCURRENCY", "bind": "PORT", "forwarded_allow_ips": "FORWARDED_ALLOW_IPS",
                     "sendfile": "SENDFILE"}
FALLBACKS = {"1": {"WEB_CONCURRENCY": "7", "PORT": "8011", "FORWARDED_ALLOW_IPS": "10.9.9.1", "SENDFILE": "1"},
             "2": {"WEB_CONCURRENCY": "9", "PORT": "8012", "FORWARDED_ALLOW_IPS": "10.9.9.2", "SENDFILE": "0"}}


def _imports():
    if REPO not in sys.path:
        sys.path.insert(0, REPO)
    from gunicorn import config as gconfig
    from gunicorn import util as gutil
    from gunicorn.app.wsgiapp import WSGIApplication
    return gconfig, gutil, WSGIApplication


# ---------------------------------------------------------------------------------------------
# concrete values per validator family
# ---------------------------------------------------------------------------------------------

def hook_src(name, label, arity):
    params = ", ".join("a%d" % i for i in range(arity))
    return "def hook%s(%s):\n    pass\n%s = hook%s\n" % (label, params, name, label)


def family_values(S, wd, gutil):
    """-> {"A": (py, cli tokens), "B": ..., "bad": (py | MISSING, cli tokens | None)}; cli tokens are
    the words after the flag(s), a list of lists for append-type settings"""
    v = getattr(S.validator, "__name__", "?")
    n = S.name
    d = lambda *p: os.path.join(wd, *p)
    if n == "config":
        return {"A": (d("cfgA.conf.py"), [d("cfgA.conf.py")]), "B": (d("cfgB.conf.py"), [d("cfgB.conf.py")]),
                "bad": (5, None)}
    if n == "paste":
        return {"A": (d("pasteA.ini"), [d("pasteA.ini")]), "B": (d("pasteB.ini"), [d("pasteB.ini")]),
                "bad": (5, None)}
    if v == "validate_pos_int":
        # (B is the falsy valid value: "0 given" is not "not given")
        return {"A": (3, ["3"]), "B": (0, ["0"]), "bad": (-1, ["-1"])}
    if v == "validate_string":
        return {"A": ("valA", ["valA"]), "B": ("valB", ["valB"]), "bad": (5, None)}
    if v == "validate_bool":
        return {"A": (True, []), "B": (False, []), "bad": ("maybe", None)}
    if v == "validate_list_string":
        if n == "bind":
            return {"A": (["127.0.0.1:8001"], [["127.0.0.1:8001"]]),
                    "B": (["127.0.0.1:8002", "127.0.0.1:8003"], [["127.0.0.1:8002"], ["127.0.0.1:8003"]]),
                    "bad": ([5], None)}
        return {"A": (["K1=a"], [["K1=a"]]), "B": (["K2=b", "K3=c"], [["K2=b"], ["K3=c"]]), "bad": ([5], None)}
    if v == "validate_list_of_existing_files":
        return {"A": ([d("fileA.txt")], [[d("fileA.txt")]]),
                "B": ([d("fileB.txt"), d("fileA.txt")], [[d("fileB.txt")], [d("fileA.txt")]]),
                "bad": ([d("nonexistent.txt")], [[d("nonexistent.txt")]])}
    if v == "validate_user":
        return {"A": ("www-data", ["www-data"]), "B": ("nobody", ["nobody"]),
                "bad": ("no_such_user_zz", ["no_such_user_zz"])}
    if v == "validate_group":
        return {"A": ("www-data", ["www-data"]), "B": ("nogroup", ["nogroup"]),
                "bad": ("no_such_group_zz", ["no_such_group_zz"])}
    if v == "validate_class":
        if n == "worker_class":
            return {"A": ("gthread", ["gthread"]), "B": ("eventlet", ["eventlet"]), "bad": (5, None)}
        return {"A": ("gunicorn.instrument.statsd.Statsd", ["gunicorn.instrument.statsd.Statsd"]),
                "B": ("some.module.Logger", ["some.module.Logger"]), "bad": (5, None)}
    if v == "validate_header_map_behaviour":
        return {"A": ("refuse", ["refuse"]), "B": ("dangerous", ["dangerous"]), "bad": ("bogus", ["bogus"])}
    if v == "validate_reload_engine":
        return {"A": ("poll", ["poll"]), "B": ("inotify", ["inotify"]), "bad": ("bogus", ["bogus"])}
    if v == "validate_ssl_version":
        return {"A": ("3", ["3"]), "B": ("5", ["5"]), "bad": (MISSING, None)}
    if v == "validate_statsd_address":
        return {"A": ("localhost:8125", ["localhost:8125"]), "B": ("127.0.0.1:9125", ["127.0.0.1:9125"]),
                "bad": ("host:notaport", ["host:notaport"])}
    if v == "validate_string_to_addr_list":
        return {"A": ("10.0.0.1", ["10.0.0.1"]), "B": ("10.0.0.2,10.0.0.3", ["10.0.0.2,10.0.0.3"]),
                "bad": ("not-an-ip", ["not-an-ip"])}
    if v == "validate_string_to_list":
        return {"A": ("X-A", ["X-A"]), "B": ("X-B,X-C", ["X-B,X-C"]), "bad": (5, None)}
    if v == "validate_dict":
        return {"A": ({"a": "1"}, None), "B": ({"b": "2"}, None), "bad": ([1], None)}
    if v == "validate_chdir":
        # on the command line pick A is spelled relative to the start directory (the driver runs in wd)
        return {"A": (d("dirA"), ["dirA"]), "B": (d("dirB"), [d("dirB")]),
                "bad": (d("no_such_dir"), [d("no_such_dir")])}
    if v in ("_validate_callable", "validate_post_request"):
        return {"A": ("hook", None), "B": ("hook", None), "bad": (5, None)}
    raise Unusable("no value family for validator %s" % v)


def kind_of(S, gconfig):
    v = getattr(S.validator, "__name__", "?")
    if not S.cli:
        return "hook" if v in ("_validate_callable", "validate_post_request") else "fileonly"
    if S.action == "append":
        return "append"
    if S.action == "store_true":
        return "store_true"
    if S.action == "store_const":
        return "store_const"
    if S.type is not None:
        return "typed"
    return "store"


def nrepr(v):
    if callable(v) and not isinstance(v, type):
        return "fn:" + getattr(v, "__name__", "?")
    return repr(v)


class Concrete:
    """everything needed to instantiate abstract cases for one setting"""

    def __init__(self, S, wd, mods):
        gconfig, gutil, _ = mods
        self.S = S
        self.name = S.name
        self.wd = wd
        self.kind = kind_of(S, gconfig)
        self.flag = S.cli[-1] if S.cli else None
        self.vals = family_values(S, wd, gutil)
        self.arity = None
        if self.kind == "hook":
            self.arity = 4 if self.name == "post_request" else gutil.get_arity(S.default)
        # built-in default, spelled out
        dflt_py = S.default if S.name != "default_proc_name" else APP_ARG
        dflt_cli = None
        if self.kind in ("store", "typed") and isinstance(dflt_py, (str, int)) and not isinstance(dflt_py, bool) \
                and self.name not in ("config", "paste"):
            dflt_cli = [str(dflt_py)]
        elif self.kind == "append" and isinstance(dflt_py, list) and dflt_py and all(isinstance(x, str) for x in dflt_py):
            dflt_cli = [[x] for x in dflt_py]
        self.vals["dflt"] = (dflt_py if dflt_py is not None or self.kind != "hook" else MISSING, dflt_cli)
        if self.kind == "hook":
            self.vals["dflt"] = (MISSING, None)
        self.norm = {}
        self._norms(mods)

    # -- spelling of a mention for each source -------------------------------------------------
    def cli_tokens(self, label):
        """words for argv / GUNICORN_CMD_ARGS, or None when the command line cannot say it"""
        if self.flag is None:
            return None
        py, toks = self.vals[label]
        if self.kind == "store_true":
            return [self.flag] if label == "A" else None
        if self.kind == "store_const":
            return [self.flag] if label == "B" else None
        if toks is None:
            return None
        if self.kind == "append":
            out = []
            for grp in toks:
                out += [self.flag + "=" + grp[0]]
            return out
        if self.name in ("config",):
            return ["-c", toks[0]]
        return [self.flag + "=" + toks[0]]

    def py_value(self, label):
        py = self.vals[label][0]
        if py == "hook" and self.kind == "hook":
            ns = {}
            exec(hook_src(self.name, label, self.arity), ns)
            return ns[self.name]
        return py

    def file_text(self, label):
        py = self.vals[label][0]
        if py is MISSING or py == MISSING:
            return None
        if py == "hook" and self.kind == "hook":
            if label == "B":
                # the hook is imported from a helper module of the deployment instead of being written into the file
                return "from cfghelpers import hookB_%d as %s\n" % (self.arity, self.name)
            return hook_src(self.name, label, self.arity)
        return "%s = %r\n" % (self.name, py)

    def can(self, src, label):
        if label == "no":
            return True
        if src == "cli" and self.name == "paste" and not HAVE_PASTE:
            return False         # --paste on the command line imports PasteDeploy (WSGIApplication.init)
        if src in ("env", "cli"):
            return self.cli_tokens(label) is not None
        py = self.vals[label][0]
        return not (isinstance(py, str) and py == MISSING)

    # -- normalised values of the labels -------------------------------------------------------
    def _norms(self, mods):
        gconfig, gutil, _ = mods
        S = self.S
        for label in ("A", "B", "dflt"):
            got = set()
            ref = None
            if self.can("file", label) and not (label == "dflt" and S.default is None and self.kind != "hook"):
                try:
                    got.add(nrepr(S.validator(self.py_value(label))))
                    ref = set(got)
                except Exception as e:   # noqa
                    if label != "dflt":
                        raise Unusable("validator rejects the valid pick %s: %r" % (label, e))
            toks = self.cli_tokens(label)
            if toks is not None:
                try:
                    ns = gconfig.Config().parser().parse_args(toks + [APP_ARG])
                    got.add(nrepr(S.validator(getattr(ns, self.name))))
                except (Exception, SystemExit) as e:   # noqa
                    if label != "dflt":
                        raise Unusable("command line rejects the valid pick %s: %r" % (label, e))
                    self.vals["dflt"] = (self.vals["dflt"][0], None)
            if label != "dflt" and ref and got != ref:
                # the command-line spelling of the pick does not produce the value the pick stands for: the value a
                # configuration file gives is the reference, the cases that spell it on the command line will show it
                got = ref
            self.norm[label] = got
        d = S().get()
        if self.name == "default_proc_name":
            d = APP_ARG          # WSGIApplication.init names the process after the application
        self.norm["D"] = {nrepr(d)}
        # the default spelled out must normalise to the default, else that spelling is not a mention of it
        # (ssl_version: the default is an enum member, "2" on the command line stays the string "2")
        if self.vals["dflt"][1] is not None:
            ns = gconfig.Config().parser().parse_args(self.cli_tokens("dflt") + [APP_ARG])
            if {nrepr(S.validator(getattr(ns, self.name)))} != self.norm["D"]:
                self.vals["dflt"] = (self.vals["dflt"][0], None)
        self.norm["dflt"] = self.norm["D"]
        if self.norm["A"] & self.norm["B"]:
            raise Unusable("picks do not discriminate: %s" % self.norm)
        if len(self.norm["A"]) != 1 or len(self.norm["B"]) != 1:
            raise Unusable("spellings of a pick normalise differently: %s" % self.norm)

    def labels(self, value):
        r = nrepr(value)
        return [L for L in ("A", "B", "D") if r in self.norm[L]]

    def describe(self):
        return {"name": self.name, "kind": self.kind,
                "can": {src: [m for m in ("A", "B", "dflt", "bad") if self.can(src, m)]
                        for src in ("fw", "file", "env", "cli")},
                "norm": {k: sorted(v) for k, v in self.norm.items()}}


# ---------------------------------------------------------------------------------------------
# one load
# ---------------------------------------------------------------------------------------------

def prepare_dir(wd):
    # helper module that configuration files import hooks from (hookB of every arity; the name tells the label)
    with open(os.path.join(wd, "cfghelpers.py"), "w") as f:
        for ar in range(0, 7):
            f.write("def hookB_%d(%s):\n    pass\n\n\nhookB_%d.__name__ = 'hookB'\n\n\n" % (ar, ", ".join("a%d" % i for i in range(ar)), ar))
    if wd not in sys.path:
        sys.path.insert(0, wd)
    for n in ("dirA", "dirB"):
        os.makedirs(os.path.join(wd, n), exist_ok=True)
    for n in ("fileA.txt", "fileB.txt"):
        with open(os.path.join(wd, n), "w") as f:
            f.write("x\n")
    for n in ("pasteA.ini", "pasteB.ini"):
        with open(os.path.join(wd, n), "w") as f:
            f.write("[app:main]\nuse = egg:gunicorn#main\n")


def expressible(con, case):
    """can the sources say what the abstract case wants, for this concrete setting?"""
    for src in ("fw", "file", "env", "cli"):
        if not con.can(src, case[src]):
            return False
    if con.name == "config":
        # -c both names the file and is the mention
        for src in ("env", "cli"):
            if (case[src] in ("A", "B")) != (src in case["files"]):
                return False
            if case[src] in ("dflt", "bad"):
                return False
    return True


def badeq_value(con, case, src):
    """an invalid value that compares equal (==) to the value in force when `src` is applied: 1.0 for an integer
    setting at 1, 0 / 1 for a boolean one; None when this setting / case has no such value"""
    v = getattr(con.S.validator, "__name__", "?")
    if v not in ("validate_pos_int", "validate_bool"):
        return None
    cur = "dflt"
    if src == "file" and case["fw"] in ("A", "B"):
        cur = case["fw"]
    elif src == "file" and case["fw"] == "bad":
        return None
    py = con.vals[cur][0]
    if isinstance(py, bool):
        return int(py)
    if isinstance(py, int):
        return float(py)
    return None


BADALT = {"validate_user": 33.5, "validate_group": 33.5, "validate_string": ["x"], "validate_pos_int": [1], "validate_bool": 2,
          "validate_dict": "x", "validate_list_string": 7, "validate_string_to_list": 7, "validate_header_map_behaviour": 5,
          "validate_chdir": 5, "validate_statsd_address": 5, "validate_string_to_addr_list": 5}


def badalt_value(con):
    """another invalid value for the setting, of a type its validator does not expect at all (the validator then fails
    with whatever exception the first operation on it raises: AttributeError, TypeError, ...)"""
    return BADALT.get(getattr(con.S.validator, "__name__", "?"))


def run_case(con, case, mods):
    gconfig, gutil, WSGIApplication = mods
    wd = con.wd
    name = con.name
    if case.get("reload") and (not case["files"] or case["file"] not in ("A", "B") or con.name in ("config", "spew")):      # reload() with spew set installs a trace function
        return {"skip": "inexpressible"}
    beq = {}
    if case.get("badeq"):
        for src in ("fw", "file"):
            if case[src] == "bad":
                x = badeq_value(con, case, src)
                if x is None:
                    return {"skip": "inexpressible"}
                beq[src] = x
        if not beq:
            return {"skip": "inexpressible"}
    if case.get("badalt"):
        x = badalt_value(con)
        if x is None or "bad" not in (case["fw"], case["file"]):
            return {"skip": "inexpressible"}
        for src in ("fw", "file"):
            if case[src] == "bad":
                beq[src] = x
    files = list(case["files"])
    chosen = "cli" if "cli" in files else "env" if "env" in files else "cwd" if "cwd" in files else None
    paths = {"cwd": os.path.join(wd, "gunicorn.conf.py"), "env": os.path.join(wd, "env.conf.py"),
             "cli": os.path.join(wd, "cli.conf.py")}
    if name == "config":
        for src in ("env", "cli"):
            if case[src] in ("A", "B"):
                paths[src] = con.vals[case[src]][1][0]
    for p in list(paths.values()) + [os.path.join(wd, "cfgA.conf.py"), os.path.join(wd, "cfgB.conf.py"),
                                     os.path.join(wd, "env.conf.py"), os.path.join(wd, "cli.conf.py")]:
        if os.path.exists(p):
            os.unlink(p)
    decoy = "B" if case["file"] == "A" else "A"
    for src in files:
        text = "# %s\n" % src
        if src == chosen:
            if "file" in beq:
                text += "%s = %r\n" % (name, beq["file"])
            elif case["file"] != "no":
                text += con.file_text(case["file"])
        else:
            text += con.file_text(decoy)
        # a global that is not the setting: the same name in upper case, with the other valid value (configuration
        # files are Python modules; only the documented lower-case names are settings)
        if con.kind != "hook" and con.name not in ("config",) and con.can("file", decoy):
            other = con.file_text(decoy)
            if other and other.startswith(con.name + " = "):
                text += con.name.upper() + other[len(con.name):]
        with open(paths[src], "w") as f:
            f.write(text)
    argv = ["gunicorn"]
    envtoks = []
    if "cli" in files:
        argv += ["-c", paths["cli"]]
    if "env" in files:
        envtoks += ["-c", paths["env"]]
    if name != "config":
        if case["cli"] != "no":
            argv += con.cli_tokens(case["cli"])
        if case["env"] != "no":
            envtoks += con.cli_tokens(case["env"])
    argv.append(APP_ARG)
    fw = {name: beq["fw"] if "fw" in beq else con.py_value(case["fw"])} if case["fw"] != "no" else None

    class App(WSGIApplication):
        def init(self, parser, opts, args):
            super().init(parser, opts, args)
            return dict(fw) if fw else None

    saved = (sys.argv, os.environ.get("GUNICORN_CMD_ARGS"), sys.stdout, sys.stderr, list(sys.path), os.getcwd())
    sys.argv = argv
    if envtoks:
        os.environ["GUNICORN_CMD_ARGS"] = shlex.join(envtoks)
    else:
        os.environ.pop("GUNICORN_CMD_ARGS", None)
    err = io.StringIO()
    sys.stdout, sys.stderr = io.StringIO(), err
    res = {"fail": False, "obs": [], "detail": ""}
    try:
        try:
            app = App("%(prog)s [OPTIONS] [APP_MODULE]", prog="gunicorn")
            if case.get("reload"):
                # HUP: the chosen configuration file no longer mentions the setting; everything else is unchanged
                with open(paths[chosen], "w") as f:
                    f.write("# %s (rewritten before reload)\n" % chosen)
                os.chdir(wd)
                app.reload()
                res["reloaded"] = True
            v = app.cfg.settings[name].get()
            res["obs"] = con.labels(v)
            # the value the server works with: the Config accessor of that name (a property for some settings)
            # (only for the settings with a stand-in variable: other accessors import classes, resolve users, ...)
            res["used"] = nrepr(getattr(app.cfg, name) if name in FALLBACK_SETTINGS else v)[:200]
            res["detail"] = nrepr(v)[:120]
        except SystemExit as e:
            res["fail"] = True
            res["detail"] = "SystemExit(%s): %s" % (e.code, err.getvalue().strip().splitlines()[-1][:160]
                                                   if err.getvalue().strip() else "")
        except BaseException as e:   # noqa
            res["fail"] = True
            res["detail"] = "%s: %s" % (type(e).__name__, str(e)[:160])
    finally:
        sys.argv, sys.stdout, sys.stderr = saved[0], saved[2], saved[3]
        if saved[1] is None:
            os.environ.pop("GUNICORN_CMD_ARGS", None)
        else:
            os.environ["GUNICORN_CMD_ARGS"] = saved[1]
        sys.path[:] = saved[4]
        os.chdir(saved[5])
        sys.modules.pop("__config__", None)
    if beq:
        res["badeq"] = {k: repr(x) for k, x in beq.items()}
    res["argv"] = argv[1:]
    res["envargs"] = shlex.join(envtoks) if envtoks else ""
    return res


def main():
    mode = sys.argv[1]
    wd = os.getcwd()
    for k in ("GUNICORN_CMD_ARGS", "WEB_CONCURRENCY", "PORT", "FORWARDED_ALLOW_IPS", "SENDFILE"):
        os.environ.pop(k, None)
    # the stand-in variables of the few settings that have one, present from before gunicorn is imported
    fbset = os.environ.get("VERIF_FBSET")
    if fbset:
        os.environ.update(FALLBACKS[fbset])
    real_stdout = sys.stdout
    sys.stderr = io.StringIO()            # validators print warnings (ssl_version)
    prepare_dir(wd)
    mods = _imports()
    gconfig = mods[0]
    cons, unusable = {}, {}
    for S in gconfig.KNOWN_SETTINGS:
        try:
            cons[S.name] = Concrete(S, wd, mods)
        except Unusable as e:
            unusable[S.name] = str(e)
    if mode == "describe":
        json.dump({"settings": [c.describe() for c in cons.values()], "unusable": unusable}, real_stdout)
        return
    jobs = json.load(sys.stdin)
    out = []
    for name, case in jobs:
        con = cons.get(name)
        if con is None:
            out.append({"skip": "unusable"})
            continue
        if not expressible(con, case):
            out.append({"skip": "inexpressible"})
            continue
        out.append(run_case(con, case, mods))
    json.dump(out, real_stdout)


if __name__ == "__main__":
    main()
