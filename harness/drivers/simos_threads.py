"""simos.threads: controllable executor, scripted lock and a `concurrent.futures` stand-in.

Deterministic single-OS-thread mode: a pool job is a sequence of three environment steps that
the schedule places at injection points of the main thread --

    start c    the job leaves the executor queue (needs an idle pool thread)
    handle c   the job body runs to completion (fn(*args) is called; its result is held back)
    finish c   the result is published: Future.set_result -> the done-callbacks run here,
               i.e. "in the pool thread", atomically between two visible operations of the
               main thread (the callbacks take the worker's lock themselves; the main thread is
               never inside a critical section at an injection point)

plus `crash c` (the job raises) and `cancel c` (a queued job is cancelled).  If a job finishes
before the submitting thread attached its callback, `add_done_callback` runs the callback in the
submitting thread, exactly like concurrent.futures.

The futures are real concurrent.futures.Future objects.

Fine-grained mode (owner.fine): `finish c` runs as a greenlet (no OS threads; the owner passes the
baton explicitly) that can be suspended at the visible operations of the completion callback --
SimLock acquire / release, the scripted selector's register / unregister, VDeque (worker._keep)
append / appendleft / popleft / remove, each announced through owner.vop(kind) -- and resumed at
a later injection point of the main thread; SimLock then really excludes (a pool greenlet that
finds it taken yields as blocked; the main thread that finds it taken runs the holder until it
releases).  The same operations of the main thread become injection points `v:<kind>`.
"""
import sys
from collections import deque
from concurrent import futures as _cf

import greenlet


class SimFuture(_cf.Future):
    def __init__(self, owner):
        super().__init__()
        self._owner = owner

    def add_done_callback(self, fn):
        self._owner.ip("addcb", getattr(getattr(self, "conn", None), "sock", None) and self.conn.sock.cid)
        super().add_done_callback(fn)


class Job:
    def __init__(self, fut, fn, args, c):
        self.fut, self.fn, self.args, self.c = fut, fn, args, c
        self.state = "queued"        # queued -> running -> handled -> finishing -> finished | cancelled
        self.result = None


class SimExecutor:
    def __init__(self, owner, threads):
        self.owner = owner
        self.threads = threads
        self.jobs = []               # all jobs in submission order
        self.shut = False

    # --- called by the component ------------------------------------------------------------
    def submit(self, fn, *args):
        c = args[0].sock.cid if args and hasattr(args[0], "sock") else 0
        self.owner.ip("submit", c)
        if self.shut:
            raise RuntimeError("cannot schedule new futures after shutdown")
        fut = SimFuture(self.owner)
        self.jobs.append(Job(fut, fn, args, c))
        self.owner.emit("submit", c)
        return fut

    def shutdown(self, wait=True, cancel_futures=False):
        self.owner.ip("shutdown")
        self.shut = True
        self.owner.emit("shutdown")
        if cancel_futures:
            # as ThreadPoolExecutor does: work that no thread has picked up yet is cancelled (its callbacks run)
            for j in list(self.queued()):
                self.cancel(j.c, "shutdown")

    # --- environment steps ------------------------------------------------------------------
    def queued(self):
        return [j for j in self.jobs if j.state == "queued"]

    def running(self):
        return [j for j in self.jobs if j.state in ("running", "handled", "finishing")]

    def unfinished(self):
        return [j for j in self.jobs if j.state in ("queued", "running", "handled", "finishing")]

    def job(self, c, states):
        for j in self.jobs:
            if j.c == c and j.state in states:
                return j
        return None

    def can_start(self):
        q = self.queued()
        return q[0].c if q and len(self.running()) < self.threads else None

    def start(self, c):
        j = self.queued()[0]
        assert j.c == c and len(self.running()) < self.threads
        if not j.fut.set_running_or_notify_cancel():
            j.state = "cancelled"
            return
        j.state = "running"
        self.owner.emit("start", c)

    def handle(self, c):
        j = self.job(c, ("running",))
        try:
            j.result = ("ok", j.fn(*j.args))
        except BaseException as e:        # like _WorkItem.run
            j.result = ("exc", e)
        j.state = "handled"
        if j.result[0] == "ok":
            r = j.result[1]
            k = "keep" if (isinstance(r, tuple) and r and r[0]) else "close"
        else:
            k = "exc"
        self.owner.emit("jobend", c, k)

    def crash(self, c):
        j = self.job(c, ("running",))
        j.result = ("exc", RuntimeError("injected handler failure"))
        j.state = "handled"
        self.owner.emit("jobend", c, "exc")

    def finish(self, c):
        j = self.job(c, ("handled",))
        j.state = "finishing"               # the pool thread is busy until the callbacks are done
        if j.result[0] == "ok":
            j.fut.set_result(j.result[1])
        else:
            j.fut.set_exception(j.result[1])
        j.state = "finished"
        self.owner.emit("finish", c)

    def cancel(self, c, why=""):
        j = self.job(c, ("queued",))
        j.state = "cancelled"
        self.owner.emit("cancel", c, why)   # the job is out of the executor; callbacks run next
        j.fut.cancel()


class SimDeadlock(BaseException):
    """the thread would wait for ever (a non-reentrant lock taken again by its holder)"""


class SimLock:
    """stand-in for the worker's lock (re-entrant or not, as the worker's own init_process creates it).  Entering it from the main thread (outermost level) is an
    injection point named after the function that takes it.  In the fine-grained mode pool jobs
    run as greenlets: the lock then really excludes -- a pool greenlet that finds it taken yields
    as `blocked`, and the main thread that finds it taken by a suspended pool greenlet runs that
    greenlet until it releases (owner.run_until_unlocked)."""

    def __init__(self, owner, reentrant=True):
        self.owner = owner
        self.reentrant = reentrant
        self.depth = 0
        self.holder = None           # greenlet that holds the lock

    def acquire(self, *a, **k):
        me = greenlet.getcurrent()
        if self.holder is me and self.depth > 0:
            if not self.reentrant:
                raise SimDeadlock("lock taken again by the thread that holds it")
            self.depth += 1
            return True
        fn = sys._getframe(2 if k.get("_ctx") else 1).f_code.co_name
        if self.owner.is_main(me):
            self.owner.ip("lock:" + fn)
            while self.depth > 0 and self.holder is not me:
                self.owner.run_until_unlocked(self.holder)
        else:
            self.owner.vop("lock")
            while self.depth > 0 and self.holder is not me:
                self.owner.pool_blocked()
        self.holder = me
        self.depth = 1
        return True

    def release(self):
        self.depth -= 1
        if self.depth == 0:
            self.holder = None
            self.owner.vop("unlock")

    def __enter__(self):
        self.acquire(_ctx=True)
        return self

    def __exit__(self, *exc):
        self.release()
        return False


class FuturesShim:
    """replaces the `futures` name of the component's module: wait() is an injection point and
    never blocks (the schedule decides what completes while the main thread waits)"""
    FIRST_COMPLETED = _cf.FIRST_COMPLETED
    ALL_COMPLETED = _cf.ALL_COMPLETED
    FIRST_EXCEPTION = _cf.FIRST_EXCEPTION
    Future = _cf.Future
    ThreadPoolExecutor = _cf.ThreadPoolExecutor

    def __init__(self, owner):
        self.owner = owner

    def wait(self, fs, timeout=None, return_when=_cf.ALL_COMPLETED):
        if return_when == _cf.ALL_COMPLETED:
            kind = "waitall"
        elif timeout == 0:
            kind = "wait0"
        else:
            kind = "wait1"
        self.owner.ip(kind)
        fs = list(fs)
        done = set(f for f in fs if f.done())
        self.owner.emit(kind, 0, str(len(done)))
        return _cf._base.DoneAndNotDoneFutures(done, set(fs) - done)


class VDeque(deque):
    """worker._keep in the fine-grained mode: its mutations are visible operations"""
    owner = None

    def append(self, x):
        self.owner.vop("keep:append")
        super().append(x)

    def appendleft(self, x):
        self.owner.vop("keep:appendleft")
        super().appendleft(x)

    def popleft(self):
        self.owner.vop("keep:popleft")
        return super().popleft()

    def remove(self, x):
        self.owner.vop("keep:remove")
        super().remove(x)
