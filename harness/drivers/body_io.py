"""Drive the real wsgi.input (gunicorn.http.body.Body) with an application program: a sequence
of read(n) / readline(n) / readlines(hint) / next() calls; then ask the parser for the next
request and record where its parse started."""
import os
import sys

if __name__ == "__main__":          # batch mode (see _batch): started as a script
    sys.path.insert(0, os.path.dirname(os.path.dirname(os.path.abspath(__file__))))
    sys.path.insert(0, os.environ.get("VERIF_REPO", "/repo"))               # the tree under test
from drivers.http_parse import Source, FakeSock, TlsSock, make_cfg       # (puts the tree under test on sys.path)

from gunicorn.http.parser import RequestParser
from gunicorn.http.message import Request


def make_body(rng, blen, nlstyle):
    """position-dependent content (so a misplaced piece is visible) with LF bytes per nlstyle"""
    b = bytearray((0x41 + (i * 7 + i // 26) % 26) for i in range(blen))
    if nlstyle == "none":
        pos = []
    elif nlstyle == "dense":
        pr = min(0.3, 150.0 / max(blen, 1))
        pos = [i for i in range(blen) if rng.random() < pr]
    elif nlstyle == "edges":
        pos = [i for i in (0, 1, 1022, 1023, 1024, 1025, 2047, 2048, 8191, 8192, blen - 2, blen - 1) if 0 <= i < blen]
    elif nlstyle == "all":
        pos = list(range(blen))
    else:
        pos = sorted(set(rng.randrange(blen) for _ in range(rng.randint(1, 8)))) if blen else []
    for i in pos:
        b[i] = 0x0A
    # bytes that other notions of "line" break at (str.splitlines, universal newlines) but a binary file does not:
    # bare CR, CR before LF, VT, FF, FS/GS/RS, NEL
    if blen and nlstyle != "all":
        for _ in range(min(12, 1 + blen // 40)):
            i = rng.randrange(blen)
            if b[i] != 0x0A:
                b[i] = rng.choice([0x0D, 0x0D, 0x0B, 0x0C, 0x1C, 0x1D, 0x1E, 0x85])
        for i in pos[:6]:
            if i > 0 and b[i - 1] != 0x0A and rng.random() < 0.3:
                b[i - 1] = 0x0D
    return bytes(b), sorted(set(pos))


def frame(body, framing, layout, trailers=b"", ext=False, method=b"POST"):
    """-> head+framed body"""
    if framing == "len":
        return method + b" /b HTTP/1.1\r\nHost: h\r\nContent-Length: %d\r\n\r\n" % len(body) + body
    out = [method + b" /b HTTP/1.1\r\nHost: h\r\nTransfer-Encoding: chunked\r\n\r\n"]
    p = 0
    for i, sz in enumerate(layout):
        if sz <= 0:
            continue
        out.append(b"%x" % sz + (b";e=%d" % i if ext and i % 2 else b"") + b"\r\n" + body[p:p + sz] + b"\r\n")
        p += sz
    assert p == len(body), (p, len(body))
    # (the last chunk may carry an extension too)
    out.append((b"0;last=1\r\n" if ext else b"0\r\n") + trailers + b"\r\n")
    return b"".join(out)


FOLLOWER = b"GET /next HTTP/1.1\r\nHost: h\r\n\r\n"


LONG_FOLLOWER = b"GET /next?pad=" + b"p" * 300 + b" HTTP/1.1\r\nHost: h\r\n\r\n"


def run_program(stream, cuts, program, body, source="iter", cfgkw=None, follower=None):
    """program: list of (op, n) with n = None / int.  -> (events, info).  follower: the pipelined request the stream
    ends with (default FOLLOWER); cfgkw: non-default parser settings"""
    follower = follower or FOLLOWER
    src = Source(stream, cuts) if source == "iter" else TlsSock(stream, cuts) if source == "tls" else FakeSock(stream, cuts)
    parser = RequestParser(make_cfg(**(cfgkw or {})), src, ("127.0.0.1", 1))
    starts = []
    un = parser.unreader

    class Rec(Request):
        def __init__(self, *a, **k):
            starts.append(src.delivered - len(un.buf.getvalue()))
            super().__init__(*a, **k)

    parser.mesg_class = Rec
    req = next(parser)
    inp = req.body
    ev = []
    pos = 0
    for op, n in program:
        rec = {"e": "call", "op": op, "n": -1 if (n is None or n < 0) else n}
        try:
            if op == "read":
                r = inp.read() if n is None else inp.read(n)
            elif op == "readline":
                r = inp.readline() if n is None else inp.readline(n)
            elif op == "next":
                try:
                    r = next(inp)
                except StopIteration:
                    r = b""
            else:
                lines = inp.readlines() if n is None else inp.readlines(n)
                r = b"".join(lines)
                rec["lines"] = [len(x) for x in lines]
        except Exception as e:    # noqa
            ev.append({"e": "call", "op": "raised:" + type(e).__name__, "n": 0, "len": 0, "contig": False})
            break
        rec["len"] = len(r)
        rec["contig"] = (r == body[pos:pos + len(r)])
        pos += len(r)
        ev.append(rec)
    expect = stream.rfind(follower) if stream.endswith(follower) else len(stream)
    try:
        nxt = next(parser)
        nstart = starts[-1]
        if not nxt.uri.startswith("/next"):
            nstart = -3
    except StopIteration:
        nstart = src.delivered - len(un.buf.getvalue()) if not stream.endswith(follower) else -2
    except Exception as e:   # noqa
        nstart = -2
    ev.append({"e": "stop", "next_start": nstart, "expect_next": expect})
    return ev


def _batch():
    """jobs on stdin (JSON list of dicts with latin-1 strings), results on stdout: the same runs in another interpreter
    process -- used to repeat a share of the runs under `python -O` (PYTHONOPTIMIZE deployments)"""
    import json
    import sys
    jobs = json.load(sys.stdin)
    out = []
    for j in jobs:
        fol = j["follower"].encode("latin-1") if j.get("follower") else None
        out.append(run_program(j["stream"].encode("latin-1"), j["cuts"], [tuple(x) for x in j["prog"]], j["body"].encode("latin-1"),
                               source=j["source"], cfgkw=j.get("cfgkw"), follower=fol))
    import gunicorn
    json.dump({"optimized": not __debug__, "tree": os.path.dirname(os.path.dirname(os.path.abspath(gunicorn.__file__))), "results": out}, sys.stdout)


if __name__ == "__main__":
    _batch()
