"""Two instances run the REAL gunicorn.pidfile.Pidfile.create() on one path concurrently: each runs in its own
greenlet and is suspended before every system call the module makes (the same call points as drivers/pidfile.py);
a schedule says whose next call runs; one instance may die before a chosen call.  Deterministic, single OS thread."""
import builtins
import itertools
import os
import shutil

import greenlet

import gunicorn.pidfile as gp
from drivers import pidfile as base


class ConcWorld(base.World):
    def __init__(self, root):
        super().__init__(root)
        self.alive = {1, 2}
        self.main = greenlet.getcurrent()
        self.trace = []
        self.kill_at = {}           # who -> index of the call before which it dies
        self.count = {1: 0, 2: 0}
        self.who_of = {}

    def me(self):
        return self.who_of[greenlet.getcurrent()]

    def point(self, name, fn, *a, **kw):
        who = self.me()
        # suspended before the call; the scheduler resumes us when it is our turn
        self.main.switch(("at", who, name))
        self.cur = who
        if self.kill_at.get(who) == self.count[who]:
            self.alive.discard(who)
            self.trace.append({"e": "crash", "who": who, "s": name, "p": base.classify(self.read("p"))})
            raise base.Crash(name)
        self.count[who] += 1
        try:
            return fn(*a, **kw)
        finally:
            self.cur = who
            self.trace.append({"e": "sys", "who": who, "s": base.CALL2STEP.get(name, name), "p": base.classify(self.read("p"))})


class _Os(base._OsProxy):
    def getpid(self):
        return base.REAL[self._w.me()]


def run(root, schedule, kill=None):
    """schedule: sequence of 1 / 2 (whose next call runs; exhausted or blocked instances are skipped, the rest
    runs round-robin at the end); kill: (who, k) dies before its k-th call.  -> trace events"""
    w = ConcWorld(root)
    if kill:
        w.kill_at[kill[0]] = kill[1]
    state = {}

    def body(i):
        try:
            w.pf[i].create(base.REAL[i])
            w.trace.append({"e": "ret", "who": i, "ok": True, "s": "", "p": base.classify(w.read("p"))})
        except base.Crash:
            pass
        except Exception as e:      # noqa: RuntimeError = refused (a live owner); anything else is recorded as well
            w.trace.append({"e": "ret", "who": i, "ok": False, "s": type(e).__name__, "p": base.classify(w.read("p"))})
        state[i] = "done"
        return ("done", i, "")
    gl = {}
    for i in (1, 2):
        g = greenlet.greenlet(lambda i=i: body(i))
        gl[i] = g
        w.who_of[g] = i
    patched = base.Patched(w)
    with patched:
        gp.os = _Os(w)
        # start both: each runs to its first call point
        for i in (1, 2):
            gl[i].switch()
        order = list(schedule) + [1, 2] * 40
        for who in order:
            if state.get(1) == "done" and state.get(2) == "done":
                break
            if state.get(who) == "done":
                continue
            gl[who].switch()
    return w.trace


def schedules(n1=7, n2=7):
    """all interleavings of n1 calls of instance 1 with n2 calls of instance 2"""
    for pos in itertools.combinations(range(n1 + n2), n1):
        s = [2] * (n1 + n2)
        for p in pos:
            s[p] = 1
        yield s
