"""Drive the REAL gunicorn.workers.gthread.ThreadWorker in-process and deterministically.

Environment owned by the driver: scripted listener / client sockets / selector and virtual time
(simos_net), controllable executor, scripted lock and `futures.wait` (simos_threads), the parent
check, the heartbeat file.  `worker.run()` runs unmodified on the calling thread; every visible
operation it performs is an injection point (`Sim.ip`) at which a *scheduler* applies environment
steps:

    connect c | send c k/c (one complete request, keep-alive wanted or `Connection: close`)
    leave c | tick | term | pdead | failsend c
    start c | handle c | finish c | crash c | cancel c          (pool job steps, simos_threads)

Injection points (kind -> main-thread operation that follows):
    top (the `while self.alive` test) . notify . select . accept . lock:on_client_socket_readable . submit . addcb .
    wait0 . wait1 . parent . lock:murder_keepalived (pop / put back / unregister) . close (reaper) .
    shutdown . pclose . lclose . waitall
Fine-grained mode (params["fine"]): the completion of a pool job (Future.set_result ->
finish_request) runs as a greenlet that can be suspended at its visible operations -- lock
acquire / release, poller.register / unregister, _keep append / appendleft / popleft / remove --
(`finish c n` / `resume c n`: run until the n-th visible operation), and the same operations of
the main thread become injection points (`v:<op>`); the lock really excludes.  No OS threads,
the baton is passed explicitly, so runs stay deterministic and replayable.

A run returns {"cfg", "ev" (observable events for the property monitor), "full" (every event
with the projected state, for conformance), "decisions" (the schedule as applied: replayable)}.
"""
import os
import signal
import sys

import greenlet

from drivers import simos_net as sn
from drivers import simos_threads as sthr

P_EVENTS = {"loop", "accept", "submit", "start", "jobend", "fbegin", "finish", "cancel", "close", "reclose",
            "reg", "connect", "send", "leave", "tick", "term", "quiescent", "exit", "crash", "pdead",
            "wouldblock", "steal"}
ENV_STEPS = ("connect", "send", "leave", "tick", "term", "pdead", "failsend", "steal",
             "start", "handle", "finish", "crash", "cancel", "resume")


class PoolG:
    """a pool job's completion (Future.set_result -> finish_request) running as a greenlet
    (fine-grained mode): it runs until its budget says yield -- an int n: at its n-th visible
    operation from now; a str: just before the first visible operation of that kind; -1: never --
    or until it blocks on the lock."""

    def __init__(self, c, g):
        self.c, self.g = c, g
        self.budget = -1
        self.nv = 0
        self.blocked = False
        self.at = None
MURDER_KINDS = ("lock:murder_keepalived",)


class SimAbort(BaseException):
    """the run exceeded its injection-point budget (undecided, never a verdict)"""


class FakeLog:
    def __getattr__(self, name):
        return lambda *a, **k: None


class TmpStub:
    def __init__(self, owner):
        self.owner = owner
        self.beats = 0

    def notify(self):
        self.owner.ip("notify")
        self.beats += 1

    def last_update(self):
        return 0

    def fileno(self):
        return -1

    def close(self):
        pass


APP_CONN = {"on": False}      # the application (a middleware) sets a Connection header of its own on its responses


def app(environ, start_response):
    body = b"ok"
    hdrs = [("Content-Type", "text/plain"), ("Content-Length", str(len(body)))]
    if APP_CONN["on"]:
        # a hop-by-hop header is the server's business: what the application says here must not change what the worker
        # decided about the connection
        hdrs.append(("Connection", "keep-alive"))
    start_response("200 OK", hdrs)
    return [body]


def load_gthread():
    import gunicorn.workers.gthread as g
    return g


class Sim:
    def __init__(self, params, sched, max_ip=4000):
        self.p = dict(params)
        self.threads = self.p["threads"]
        self.wc = self.p["wc"]
        self.ka = self.p["ka"]
        self.nconn = self.p.get("nconn", 3)
        self.maxreq = self.p.get("maxreq", 2)
        self.fine = bool(self.p.get("fine"))     # interleave pool completions at visible operations
        self.main_g = greenlet.getcurrent()
        self.grecs = {}
        self.susp = {}
        self.sched = sched
        self.max_ip = max_ip
        self.busy = False
        self.nip = 0
        self.loops = 0
        self.events = []
        self.decisions = []
        self.parent_dead = False
        self.termed = False
        self.sent = {c: 0 for c in range(1, self.nconn + 1)}
        self.in_murder = False
        self.clock = sn.VClock()
        self.net = sn.Net(self, self.nconn)
        self.poller = sn.ScriptedSelector(self.net)
        self.pool = sthr.SimExecutor(self, self.threads)
        self.worker = None
        self.g = None

    # ------------------------------------------------------------------------------------------
    def build(self):
        g = self.g = load_gthread()
        import gunicorn.workers.base as base
        from gunicorn.config import Config
        cfg = Config()
        cfg.set("threads", self.threads)
        cfg.set("worker_connections", self.wc)
        cfg.set("keepalive", self.ka)
        cfg.set("graceful_timeout", 5)
        if self.p.get("max_requests"):
            cfg.set("max_requests", self.p["max_requests"])
        real_tmp = base.WorkerTmp
        base.WorkerTmp = lambda cfg: TmpStub(self)
        try:
            w = self.worker_class(g)(1, os.getppid(), [self.net.listener], None, 30, cfg, FakeLog())
        finally:
            base.WorkerTmp = real_tmp
        w.wsgi = app
        # which kind of lock does the worker's own init_process create?  (run it with the base class part cut off, look,
        # and put the pieces away again)
        reentrant = True
        real_init = base.Worker.init_process
        base.Worker.init_process = lambda self_: None
        try:
            w.init_process()
            import threading as _threading
            reentrant = not isinstance(w._lock, type(_threading.Lock()))
            try:
                w.tpool.shutdown(False)
                w.poller.close()
            except Exception:      # noqa
                pass
        except Exception:          # noqa: a tree whose init_process needs more than this keeps the default
            pass
        finally:
            base.Worker.init_process = real_init
        w.tpool = self.pool
        w.poller = self.poller
        w._lock = sthr.SimLock(self, reentrant=reentrant)
        if self.fine:
            w._keep = sthr.VDeque()
            w._keep.owner = self
        w.is_parent_alive = self._parent_alive
        w.pid = 4242
        self.worker = w
        return w

    def worker_class(self, g):
        """the real ThreadWorker; the only addition is that reading `alive` in run() (the
        `while self.alive` test) is an injection point, so that TERM can land before the test"""
        sim = self

        class SimThreadWorker(g.ThreadWorker):
            def _get_alive(w):
                if sys._getframe(1).f_code.co_name == "run":
                    sim.ip("top")
                return w.__dict__.get("_alive", True)

            def _set_alive(w, v):
                w.__dict__["_alive"] = v

            alive = property(_get_alive, _set_alive)

        return SimThreadWorker

    def _parent_alive(self):
        self.ip("parent")
        return not self.parent_dead

    def run(self):
        APP_CONN["on"] = bool(self.p.get("app_conn"))
        self.main_g = greenlet.getcurrent()
        g = load_gthread()
        saved = (g.time, g.futures)
        g.time = self.clock
        g.futures = sthr.FuturesShim(self)
        outcome = "exit"
        try:
            w = self.build()
            try:
                w.run()
            except SimAbort:
                outcome = "abort"
            except Exception as e:            # the worker loop died
                outcome = "crash"
                self.emit("crash", 0, type(e).__name__ + ":" + str(e)[:60])
            except sthr.SimDeadlock as e:     # the main thread waits for itself: it never runs again
                outcome = "crash"
                self.emit("crash", 0, "deadlock:" + str(e)[:60])
            if outcome == "exit":
                self.busy = True
                try:
                    self.sched.at_exit(self)
                    for rec in list(self.susp.values()):      # nothing stays suspended
                        while not rec.g.dead:
                            self._resume(rec, -1)
                finally:
                    self.busy = False
                self.emit("exit")
        finally:
            g.time, g.futures = saved
        return self.result(outcome)

    def result(self, outcome):
        cfg = {"threads": self.threads, "wc": self.wc, "ka": self.ka, "nconn": self.nconn,
               "K": 3, "R": 2}
        ev = [{k: e[k] for k in ("e", "c", "x", "nr", "now")} for e in self.events if e["e"] in P_EVENTS]
        return {"cfg": cfg, "ev": ev, "full": self.events, "decisions": self.decisions,
                "outcome": outcome, "params": self.p}

    # --- projection ---------------------------------------------------------------------------
    def proj(self):
        w = self.worker
        now = self.clock.now
        keep = []
        for conn in list(w._keep):
            keep.append([conn.sock.cid, int(round(conn.timeout - now)) if conn.timeout is not None else 0])
        return {"nr": w.nr_conns, "keep": keep,
                "futures": [f.conn.sock.cid for f in list(w.futures) if hasattr(f, "conn")],
                "reg": self.poller.registered_ids(),
                "closed": sorted(c for c, s in self.net.conns.items() if s.closed),
                "alive": bool(w.alive), "now": self.clock.ticks(),
                "queue": [j.c for j in self.pool.queued()],
                "running": sorted(j.c for j in self.pool.jobs if j.state == "running"),
                "handled": sorted(j.c for j in self.pool.jobs if j.state in ("handled", "finishing"))}

    def emit(self, e, c=0, x=""):
        w = self.worker
        rec = {"e": e, "c": c or 0, "x": x, "nr": w.nr_conns if w is not None else 0,
               "now": self.clock.ticks()}
        if w is not None:
            rec["st"] = self.proj()
        self.events.append(rec)

    # --- injection points ---------------------------------------------------------------------
    # --- fine-grained mode: greenlets --------------------------------------------------------
    def is_main(self, g):
        return g is self.main_g

    def vop(self, kind, c=None):
        """a visible operation is about to happen in the current (simulated) thread"""
        if not self.fine:
            return
        g = greenlet.getcurrent()
        if g is self.main_g:
            self.ip("v:" + kind, c)
            return
        rec = self.grecs.get(g)
        if rec is None:
            return
        rec.nv += 1
        b = rec.budget
        if (isinstance(b, int) and 0 < b <= rec.nv) or (isinstance(b, str) and b == kind):
            rec.at = kind
            self.emit("yield", rec.c, kind)
            self.main_g.switch()

    def pool_blocked(self):
        rec = self.grecs[greenlet.getcurrent()]
        rec.blocked = True
        self.emit("blocked", rec.c)
        self.main_g.switch()
        rec.blocked = False

    def run_until_unlocked(self, holder):
        """the main thread needs the lock a suspended pool greenlet holds: that one runs on until
        it has released it (deterministic consequence, not a scheduling decision)"""
        self._resume(self.grecs[holder], "unlock")

    def runnable(self, rec):
        lk = self.worker._lock
        return not (rec.blocked and lk.depth > 0 and lk.holder is not rec.g)

    def _resume(self, rec, budget):
        rec.budget = -1 if budget in ("", None) else budget
        rec.nv = 0
        rec.g.switch()
        if rec.g.dead:
            self.susp.pop(rec.c, None)
            self.grecs.pop(rec.g, None)

    def ip(self, kind, c=None):
        if self.busy or greenlet.getcurrent() is not self.main_g:
            return None
        if kind == "top":
            self.in_murder = False
        if kind == "close" and not self.in_murder:
            return None          # a close outside the reaper (inline completion callback)
        self.busy = True
        try:
            self.nip += 1
            if self.nip > self.max_ip:
                raise SimAbort()
            if kind == "notify":
                self.loops += 1
                self.in_murder = False
                self.emit("loop")
            elif kind in MURDER_KINDS:
                self.in_murder = True
            elif kind == "shutdown":
                self.in_murder = False
            self.emit("ip:" + kind, c or 0)
            n0 = len(self.decisions)
            self.decisions.append([kind, [], None])
            order = self.sched.at(self, kind, c)
            self.decisions[n0][2] = order
            return order
        finally:
            self.busy = False

    # --- environment steps --------------------------------------------------------------------
    def responses(self, c):
        return self.net.conns[c].wire.count(b"HTTP/1.1 ")

    def enabled(self):
        out = []
        net = self.net
        for c, s in net.conns.items():
            if s.phase == "fresh":
                out.append(["connect", c])
                continue
            if s.phase == "backlog" and c in net.backlog and not self.sent[c]:
                # the listen queue is shared with the other workers of the pool: one of them may win the race, also
                # after this worker's poller has already reported the listener readable
                out.append(["steal", c])
            if s.phase == "stolen":
                continue
            if not s.left:
                out.append(["leave", c])
                if self.sent[c] < self.maxreq and self.sent[c] == self.responses(c) and not s.inbuf:
                    out.append(["send", c, "k"])
                    out.append(["send", c, "c"])
        if not self.in_murder:
            out.append(["tick", 0])
        if not self.termed:
            out.append(["term", 0])
        c = self.pool.can_start()
        if c is not None:
            out.append(["start", c])
        for j in self.pool.jobs:
            if j.state == "running":
                out.append(["handle", j.c])
                out.append(["crash", j.c])
            elif j.state == "handled":
                out.append(["finish", j.c])
            elif j.state == "queued":
                out.append(["cancel", j.c])
        for rec in self.susp.values():
            if self.runnable(rec):
                out.append(["resume", rec.c])
        return out

    def is_enabled(self, step):
        name, c = step[0], step[1]
        if name == "pdead":
            return not self.parent_dead
        if name == "failsend":
            return True
        for s in self.enabled():
            if s[0] == name and s[1] == c:
                return True
        return False

    def apply(self, step):
        """apply one environment step (must be enabled); records it in the decision log"""
        name, c = step[0], step[1]
        arg = step[2] if len(step) > 2 else ""
        if not self.is_enabled(step):
            raise ValueError("step %r not enabled" % (step,))
        self.decisions[-1][1].append(list(step))
        if name == "connect":
            self.net.connect(c)
        elif name == "send":
            r = self.sent[c] + 1
            self.sent[c] = r
            extra = b"" if arg == "k" else b"Connection: close\r\n"
            self.net.send(c, b"GET /c%dr%d HTTP/1.1\r\nHost: sim\r\n" % (c, r) + extra + b"\r\n")
        elif name == "leave":
            self.net.leave(c)
        elif name == "steal":
            self.net.steal(c)
        elif name == "tick":
            self.clock.now += 1.0
        elif name == "term":
            self.termed = True
            self.worker.handle_exit(signal.SIGTERM, None)
        elif name == "pdead":
            self.parent_dead = True
        elif name == "failsend":
            self.net.conns[c].fail_send = True
        elif name == "finish" and self.fine:
            self.emit("fbegin", c)          # the done-callback (finish_request) starts in the pool thread
            rec = PoolG(c, greenlet.greenlet(lambda: self.pool.finish(c)))
            self.grecs[rec.g] = rec
            self.susp[c] = rec
            self._resume(rec, arg)
            return
        elif name == "resume":
            self._resume(self.susp[c], arg)
            return
        elif name in ("start", "handle", "finish", "crash", "cancel"):
            if name == "finish":
                self.emit("fbegin", c)
            getattr(self.pool, name)(c)
            return                      # the executor emitted the event
        self.emit(name, c, arg)

    def mark_quiescent(self):
        self.decisions[-1][1].append(["__quiescent__", 0])
        self.emit("quiescent")

    # helpers for schedulers
    def blocked(self, kind):
        """would the operation at this injection point block (nothing ready / nothing done)?"""
        if kind == "select":
            return not self.poller.ready_keys()
        if kind == "wait1":
            return not any(f.done() for f in self.worker.futures)
        return False

    def job_step(self):
        for rec in self.susp.values():
            if self.runnable(rec):
                return ["resume", rec.c, -1]
        c = self.pool.can_start()
        for j in self.pool.jobs:
            if j.state == "handled":
                return ["finish", j.c]
        for j in self.pool.jobs:
            if j.state == "running":
                return ["handle", j.c]
        if c is not None:
            return ["start", c]
        return None

    def drain_jobs(self):
        while True:
            s = self.job_step()
            if s is None:
                return
            self.apply(s)


# ---------------------------------------------------------------------------------------------
# Schedulers
# ---------------------------------------------------------------------------------------------

class BaseSched:
    """common tail: all clients leave, jobs drain, Q quiet loop iterations, judgment point
    (`quiescent`), TERM, jobs drain during the graceful wait."""
    tail_after = None     # number of injection points after which the tail starts (at a loop top)

    def __init__(self):
        self.phase = "run"
        self.tail_loop0 = None

    def q(self, sim):
        # longest response path: with the connection limit reached (F5) slots only free up by
        # keep-alive expiry, one after the other
        return sim.nconn * (sim.ka + 2) + 3

    def start_tail(self, sim):
        self.phase = "tail"
        self.tail_loop0 = sim.loops
        for c, s in sim.net.conns.items():
            if s.phase != "fresh" and not s.left:
                sim.apply(["leave", c])

    def tail(self, sim, kind):
        if self.phase == "tail":
            if kind == "notify" and sim.loops - self.tail_loop0 >= self.q(sim):
                sim.mark_quiescent()
                self.phase = "stop"
                if not sim.termed:
                    sim.apply(["term", 0])
                return
            s = sim.job_step()
            if s is not None:
                sim.apply(s)
            if sim.blocked(kind) and not sim.in_murder:
                sim.apply(["tick", 0])
        elif self.phase == "stop":
            if kind == "waitall":
                sim.drain_jobs()
            else:
                s = sim.job_step()
                if s is not None:
                    sim.apply(s)
                if sim.blocked(kind) and not sim.in_murder:
                    sim.apply(["tick", 0])

    def at_exit(self, sim):
        pass


class RandomSched(BaseSched):
    """seeded random environment; `weights` biases the step kinds"""

    def __init__(self, rng, budget=60, weights=None, p_step=0.45, term_p=0.15, cap=None):
        super().__init__()
        self.rng = rng
        self.cap = cap          # at most `cap` clients present at once (None: unrestricted)
        self.budget = budget
        self.p_step = p_step
        self.allow_term = rng.random() < term_p
        self.w = {"connect": 5, "send": 6, "leave": 2, "steal": 0.7, "tick": 3, "term": 0.15, "start": 6, "handle": 5,
                  "finish": 5, "crash": 0.25, "cancel": 0.15, "resume": 2}
        self.budgets = [-1, -1, 1, 1, 2, 2, 3, 3, 4]
        if weights:
            self.w.update(weights)

    def at(self, sim, kind, c):
        rng = self.rng
        if self.phase != "run":
            self.tail(sim, kind)
            return None
        if sim.termed:
            self.phase = "stop"
            self.tail(sim, kind)
            return None
        if kind == "notify" and sim.nip >= self.budget:
            self.start_tail(sim)
            return None
        while rng.random() < self.p_step:
            en = [s for s in sim.enabled() if (s[0] != "term" or self.allow_term)]
            if self.cap is not None:
                present = sum(1 for x in sim.net.conns.values() if x.phase != "fresh" and not x.closed)
                if present >= self.cap:
                    en = [s for s in en if s[0] != "connect"]
            ws = [self.w.get(s[0], 1) for s in en]
            if not en or sum(ws) <= 0:
                break
            s = rng.choices(en, ws)[0]
            if sim.fine and s[0] in ("finish", "resume"):
                if s[0] == "finish" and rng.random() < 0.5 and sim.is_enabled(["send", s[1]]):
                    # the client's next request is already waiting when the completion is published
                    sim.apply(["send", s[1], rng.choice("kkc")])
                s = s + [rng.choice(self.budgets)]
            sim.apply(s)
            if s[0] == "term":
                break
        if sim.blocked(kind) and not sim.in_murder:
            # the call would block: the 1 s timeout elapses unless something happens
            sim.apply(["tick", 0])
        if kind == "select":
            keys = [k.fileobj.cid for k in sim.poller.ready_keys()]
            rng.shuffle(keys)
            return keys
        return None


class ScriptSched(BaseSched):
    """explicit scenario: a list of [kind, steps]; kind is an injection-point kind, or "loop"
    (= the blocking call of the iteration: select or wait1).  Items are consumed in order, each
    at the first injection point that matches.  After the script: tail (or the run just goes on
    until TERM if the script contained one)."""

    def __init__(self, script, order=None):
        super().__init__()
        self.script = [list(x) for x in script]
        self.i = 0
        self.order = order

    def at(self, sim, kind, c):
        if self.phase != "run":
            self.tail(sim, kind)
            return None
        if self.i >= len(self.script):
            if sim.termed:
                self.phase = "stop"
                self.tail(sim, kind)
            elif kind == "notify":
                self.start_tail(sim)
            else:
                if sim.blocked(kind) and not sim.in_murder:
                    sim.apply(["tick", 0])
            return None
        want, steps = self.script[self.i]
        match = (want == kind) or (want == "loop" and kind in ("select", "wait1")) \
            or (want == "sweep" and kind in ("wait0", "wait1"))
        self.stall = 0 if match else getattr(self, "stall", 0) + 1
        if self.stall > 80:          # the item's injection point does not occur on this path: drop it
            self.i += 1
            self.stall = 0
        if match:
            self.i += 1
            for s in steps:
                if sim.is_enabled(s):
                    sim.apply(s)
        if kind in ("select", "wait1") and sim.blocked(kind) and not sim.in_murder:
            sim.apply(["tick", 0])
        return self.order


class ReplaySched(BaseSched):
    """re-apply a recorded decision log (kind, steps, order per injection point)"""

    def __init__(self, decisions, quiescent_at=None, strict=True):
        super().__init__()
        self.dec = decisions
        self.i = 0
        self.diverged = None

    def at(self, sim, kind, c):
        if self.i >= len(self.dec):
            self.diverged = self.diverged or ("log exhausted at ip %d (%s)" % (self.i, kind))
            raise SimAbort()
        k, steps, order = self.dec[self.i]
        self.i += 1
        if k != kind and self.diverged is None:
            self.diverged = "ip %d: recorded %s, now %s" % (self.i - 1, k, kind)
        for s in steps:
            if s[0] == "__quiescent__":
                sim.emit("quiescent")
            elif sim.is_enabled(s):
                sim.apply(s)
            elif self.diverged is None:
                self.diverged = "ip %d: step %r not enabled" % (self.i - 1, s)
        return order


def run_random(params, rng, **kw):
    return Sim(params, RandomSched(rng, **kw)).run()


def run_script(params, script, order=None):
    return Sim(params, ScriptSched(script, order)).run()


def run_replay(params, decisions):
    sched = ReplaySched(decisions)
    r = Sim(params, sched).run()
    r["diverged"] = sched.diverged
    return r


# ---------------------------------------------------------------------------------------------
# spec -> code: replay a TLC behaviour of specs/GThread.tla
# ---------------------------------------------------------------------------------------------

MAIN_IP = {"Notify": "top", "LoopExit": "top", "Gate": "notify", "SelectReturn": "select", "Accept": "accept",
           "Readable": "lock:on_client_socket_readable", "Submit": "submit", "AddCallback": "addcb",
           "FuturesSweep": "wait0", "FullWait": "wait1", "ParentCheck": "parent",
           "MurderPop": "lock:murder_keepalived", "MurderPutBack": "lock:murder_keepalived",
           "MurderUnreg": "lock:murder_keepalived", "MurderClose": "close", "ShutdownPool": "shutdown",
           "ClosePoller": "pclose", "CloseListeners": "lclose", "GraceWait": "waitall"}
MODEL_KINDS = set(MAIN_IP.values())
ENV_MAP = {"ClientConnect": "connect", "ClientSend": "send", "ClientClose": "leave", "Tick": "tick",
           "Term": "term", "ParentDies": "pdead", "Pick": "start", "HandleDone": "handle",
           "JobCrash": "crash", "FinishKeep": "finish", "FinishKeepA": "finish", "FinishKeepB": "resume",
           "FinishClose": "finish",
           "FinishException": "finish", "Cancel": "cancel"}


def _fn(v, n):
    """TLC prints a function over 1..n as a tuple"""
    return {i + 1: v[i] for i in range(len(v))} if isinstance(v, list) else v


def compare(proj, st):
    """projected real state vs TLC state; returns a description of the first difference"""
    n = len(st["closed"])
    keep = list(st["keep"])
    ttl = _fn(st["ttl"], n)
    if proj["nr"] != st["nrConns"]:
        return "nr_conns %s vs model %s" % (proj["nr"], st["nrConns"])
    if [k[0] for k in proj["keep"]] != keep:
        return "_keep %s vs model %s" % ([k[0] for k in proj["keep"]], keep)
    for c, t in proj["keep"]:
        if max(0, t) != ttl[c]:
            return "deadline of %d: %s ticks left vs model %s" % (c, t, ttl[c])
    futs = [f["c"] for f in st["futs"]]
    if proj["futures"] != futs:
        return "futures %s vs model %s" % (proj["futures"], futs)
    reg = sorted(st["reg"]["__set__"]) if isinstance(st["reg"], dict) else sorted(st["reg"])
    if [c for c in proj["reg"] if c != 0] != reg:
        return "registered %s vs model %s" % (proj["reg"], reg)
    closed = sorted(c for c, v in _fn(st["closed"], n).items() if v)
    if proj["closed"] != closed and st["mpc"] != "gone":
        return "closed %s vs model %s" % (proj["closed"], closed)
    if proj["alive"] != st["alive"]:
        return "alive %s vs model %s" % (proj["alive"], st["alive"])
    return None


class BehaviourSched(BaseSched):
    def __init__(self, beh):
        super().__init__()
        # beh: [(action, state)] with state["last"] = [name, c, x]; drop the initial state
        self.steps = [(st["last"][0], st["last"][1], st["last"][2], st) for a, st in beh if st.get("last")]
        self.i = 0
        self.drift = None
        self.matched = 0
        self.compared = 0

    def fail(self, sim, msg):
        if self.drift is None:
            self.drift = "step %d (%s): %s" % (self.i, self.steps[self.i][0] if self.i < len(self.steps) else "end", msg)

    def check(self, sim, st):
        d = compare(sim.proj(), st)
        self.compared += 1
        if d:
            self.fail(sim, d)
        return d is None

    def at(self, sim, kind, c):
        if self.phase != "run":
            self.tail(sim, kind)
            return None
        if kind not in MODEL_KINDS and self.drift is None and self.i < len(self.steps):
            # inside an action the model takes atomically (Accept: accept + count + register;
            # AddCallback running finish_request inline)
            return None
        if self.drift is not None or self.i >= len(self.steps):
            # behaviour exhausted (or lost): finish the run with the common tail
            if sim.termed:
                self.phase = "stop"
                self.tail(sim, kind)
            elif kind == "notify":
                self.start_tail(sim)
            elif sim.blocked(kind) and not sim.in_murder:
                sim.apply(["tick", 0])
            return None
        if self.i > 0 and not self.check(sim, self.steps[self.i - 1][3]):
            return None
        while self.i < len(self.steps):
            name, cc, x, st = self.steps[self.i]
            if name in ENV_MAP:
                step = [ENV_MAP[name], cc] + ([x] if name == "ClientSend" else [])
                if name == "FinishKeepA":
                    step = ["finish", cc, "reg" if sim.fine else -1]   # stop just before poller.register
                elif name == "FinishKeepB":
                    if not sim.fine:
                        self.i += 1
                        continue
                    step = ["resume", cc, -1]
                if not sim.is_enabled(step):
                    self.fail(sim, "environment step %r not enabled in the real run" % (step,))
                    return None
                self.i += 1
                sim.apply(step)
                if not self.check(sim, st):
                    return None
                continue
            if name == "Exit":
                self.i += 1
                continue
            want = MAIN_IP.get(name)
            if want != kind:
                self.fail(sim, "model takes %s (injection point %s) but the worker is at %s" % (name, want, kind))
                return None
            self.i += 1
            self.matched += 1
            if name == "SelectReturn":
                order = list(st["ready"])
                real = sorted(k.fileobj.cid for k in sim.poller.ready_keys())
                if sorted(order) != real:
                    self.fail(sim, "ready set %s vs model %s" % (real, sorted(order)))
                return order
            return None
        return None


def run_behaviour(params, beh):
    sched = BehaviourSched(beh)
    r = Sim(params, sched).run()
    r["drift"] = sched.drift
    r["matched"] = sched.matched
    r["compared"] = sched.compared
    r["beh_len"] = len(sched.steps)
    r["beh_used"] = sched.i
    return r
