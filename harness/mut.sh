#!/bin/sh
# usage: harness/mut.sh <name> <sed-expr> <file-relative-to-repo> <prop> [<prop>...]
# applies a one-line sed mutation in a scratch worktree and runs the given checks against it
name=$1; expr=$2; file=$3; shift 3
wt=/tmp/wt_mut_$name
git -C /repo worktree remove --force $wt >/dev/null 2>&1
git -C /repo worktree add -q --detach $wt HEAD || exit 2
sed -i "$expr" $wt/$file
if git -C $wt diff --quiet; then echo "MUTATION $name: sed changed nothing"; git -C /repo worktree remove --force $wt; exit 2; fi
for p in "$@"; do
  out=$(VERIF_REPO=$wt /verif/check $p --tier quick 2>&1); rc=$?
  echo "MUTATION $name $p rc=$rc $(echo "$out" | grep -c '^VIOLATION') violations: $(echo "$out" | grep 'signature:' | head -3 | tr '\n' ' ')"
done
git -C /repo worktree remove --force $wt
cd /verif && git checkout -q -- evidence 2>/dev/null
exit 0
