"""Thin runner around TLC: exhaustive / simulate / trace-batch runs, output parsing.

Everything TLC writes goes under /verif/out/tlc/<run>; nothing a registered command
needs lives in /tmp.
"""
import json
import os
import re
import shutil
import subprocess
import time

HOME = os.environ.get("VERIF_HOME") or os.path.dirname(os.path.dirname(os.path.abspath(__file__)))
SPECS = os.path.join(HOME, "specs")
OUT = os.environ.get("VERIF_OUT") or os.path.join(HOME, "out")    # VERIF_OUT: private scratch for parallel dev runs
JAR = "/opt/veriftools/tla/tla2tools.jar:/opt/veriftools/tla/CommunityModules-deps.jar"


class TLCError(Exception):
    """Machinery failure (exit 2): TLC crashed, parse error, timeout."""


class TLCResult:
    def __init__(self):
        self.ok = False               # "No error has been found"
        self.generated = 0
        self.distinct = 0
        self.depth = 0
        self.violated = []            # names of violated invariants / properties
        self.error_kind = None        # invariant|action|temporal|deadlock|eval|None
        self.output = ""
        self.coverage = {}            # action name -> (distinct, generated)
        self.prints = []              # raw PrintT lines
        self.wall_s = 0.0
        self.counterexample = []      # list of state texts
        self.cmd = ""

    def summary(self):
        return {"ok": self.ok, "generated": self.generated, "distinct": self.distinct,
                "depth": self.depth, "violated": self.violated, "wall_s": round(self.wall_s, 2)}


_RE_STATES = re.compile(r"(\d+) states generated, (\d+) distinct states found")
_RE_DEPTH = re.compile(r"The depth of the complete state graph search is (\d+)")
_RE_INV = re.compile(r"Error: Invariant (\S+) is violated")
_RE_ACT = re.compile(r"Error: Action property (\S+) is violated")
_RE_COV = re.compile(r"^<(\w+) line (\d+), col (\d+) to line (\d+), col (\d+) of module (\w+)>: (\d+):(\d+)", re.M)


def write_cfg(path, spec=None, init=None, next_=None, constants=None, invariants=(),
              properties=(), constraints=(), action_constraints=(), view=None, postcondition=None,
              check_deadlock=False, symmetry=None):
    lines = []
    if spec:
        lines.append("SPECIFICATION %s" % spec)
    else:
        lines.append("INIT %s" % (init or "Init"))
        lines.append("NEXT %s" % (next_ or "Next"))
    if constants:
        lines.append("CONSTANTS")
        for k, v in constants.items():
            lines.append("  %s = %s" % (k, tla_value(v)) if not (isinstance(v, str) and v.startswith("<-"))
                         else "  %s %s" % (k, v))
    for i in invariants:
        lines.append("INVARIANT %s" % i)
    for p in properties:
        lines.append("PROPERTY %s" % p)
    for c in constraints:
        lines.append("CONSTRAINT %s" % c)
    for c in action_constraints:
        lines.append("ACTION_CONSTRAINT %s" % c)
    if view:
        lines.append("VIEW %s" % view)
    if symmetry:
        lines.append("SYMMETRY %s" % symmetry)
    if postcondition:
        lines.append("POSTCONDITION %s" % postcondition)
    lines.append("CHECK_DEADLOCK %s" % ("TRUE" if check_deadlock else "FALSE"))
    os.makedirs(os.path.dirname(os.path.abspath(path)), exist_ok=True)
    with open(path, "w") as f:
        f.write("\n".join(lines) + "\n")
    return path


def tla_value(v):
    """Python value -> TLA+ cfg literal."""
    if isinstance(v, bool):
        return "TRUE" if v else "FALSE"
    if isinstance(v, int):
        return str(v)
    if isinstance(v, str):
        if v.startswith("@"):            # raw TLA text
            return v[1:]
        return '"%s"' % v
    if isinstance(v, (set, frozenset)):
        return "{" + ", ".join(sorted(tla_value(x) for x in v)) + "}"
    if isinstance(v, (list, tuple)):
        return "<<" + ", ".join(tla_value(x) for x in v) + ">>"
    raise TypeError(v)


def run(module, cfg, name=None, **kw):
    """Run TLC on specs/<module>.tla with cfg.  A TLC crash that is not a verdict ("TLC threw an unexpected exception":
    seen once, not reproducible, under heavy machine load) is retried once; the failed output is kept as tlc.out.crash"""
    try:
        return _run(module, cfg, name=name, **kw)
    except TLCError as e:
        if "unexpected exception" not in str(e) and "OutOfMemory" not in str(e):
            raise
        nm = name or (module + "_" + os.path.splitext(os.path.basename(cfg))[0])
        try:
            shutil.copy(os.path.join(OUT, "tlc", nm, "tlc.out"), os.path.join(OUT, "tlc", nm + ".crash.out"))
        except OSError:
            pass
        time.sleep(1.0)
        return _run(module, cfg, name=name, **kw)


def _run(module, cfg, name=None, workers=16, timeout=600, simulate=None, depth=None, seed=None,
         env=None, coverage=False, deadlock=None, dfs=False, dump=None, extra=(), heap="8g",
         specdir=None):
    """Run TLC on specs/<module>.tla with cfg (path, absolute or relative to specs/)."""
    specdir = specdir or SPECS
    name = name or (module + "_" + os.path.splitext(os.path.basename(cfg))[0])
    meta = os.path.join(OUT, "tlc", name)
    shutil.rmtree(meta, ignore_errors=True)
    os.makedirs(meta, exist_ok=True)
    if not os.path.isabs(cfg):
        cfg = os.path.join(specdir, cfg)
    # (java.io.tmpdir: TLC leaves an empty tlc-<n> directory per run in the JVM's temporary directory)
    jopts = ["-XX:+UseParallelGC", "-Xss64m", "-Xmx" + heap, "-Djava.io.tmpdir=" + meta]
    if dfs:
        jopts.append("-Dtlc2.tool.queue.IStateQueue=StateDeque")
    cmd = ["java"] + jopts + ["-cp", JAR, "tlc2.TLC", "-workers", str(workers), "-metadir", meta,
                              "-noGenerateSpecTE", "-config", cfg]
    if coverage:
        cmd += ["-coverage", "1"]
    if simulate:
        cmd += ["-simulate", simulate]
    if depth:
        cmd += ["-depth", str(depth)]
    if seed is not None:
        cmd += ["-seed", str(seed)]
    if deadlock is False:
        cmd += ["-deadlock"]
    if dump:
        cmd += ["-dump", dump[0], dump[1]]
    cmd += list(extra)
    cmd += [os.path.join(specdir, module + ".tla")]
    e = dict(os.environ)
    e.pop("JAVA_TOOL_OPTIONS", None)
    if env:
        e.update({k: str(v) for k, v in env.items()})
    t0 = time.time()
    try:
        p = subprocess.run(cmd, cwd=specdir, env=e, stdout=subprocess.PIPE, stderr=subprocess.STDOUT,
                           timeout=timeout, text=True, errors="replace")
        out = p.stdout
        rc = p.returncode
    except subprocess.TimeoutExpired as ex:
        out = (ex.stdout or b"")
        if isinstance(out, bytes):
            out = out.decode("utf-8", "replace")
        subprocess.run(["pkill", "-f", meta], check=False)
        if simulate:
            rc = -9
        else:
            raise TLCError("TLC timeout after %ss: %s\n%s" % (timeout, " ".join(cmd), out[-2000:]))
    r = TLCResult()
    r.cmd = " ".join(cmd)
    r.wall_s = time.time() - t0
    r.output = out
    with open(os.path.join(meta, "tlc.out"), "w") as f:
        f.write(out)
    m = None
    for m in _RE_STATES.finditer(out):
        pass
    if m:
        r.generated, r.distinct = int(m.group(1)), int(m.group(2))
    m = _RE_DEPTH.search(out)
    if m:
        r.depth = int(m.group(1))
    r.violated = _RE_INV.findall(out) + _RE_ACT.findall(out)
    mt = re.search(r"Temporal propert(?:y|ies) (.*?) (?:was|were) violated", out)
    if mt:
        r.violated += [x for x in re.split(r",\s*(?:and\s+)?|\s+and\s+", mt.group(1)) if x]
        r.error_kind = "temporal"
    elif "Temporal properties were violated" in out:
        r.violated.append("<temporal>")
        r.error_kind = "temporal"
    elif _RE_INV.search(out):
        r.error_kind = "invariant"
    elif _RE_ACT.search(out):
        r.error_kind = "action"
    elif "Deadlock reached" in out:
        r.error_kind = "deadlock"
        r.violated.append("<deadlock>")
    r.ok = ("No error has been found" in out) or bool(simulate and not r.violated and "Error:" not in out)
    if simulate:
        m = re.search(r"The number of states generated: (\d+)", out)
        if m:
            r.generated = int(m.group(1))
    for mm in _RE_COV.finditer(out):
        act = mm.group(1)
        d, g = int(mm.group(7)), int(mm.group(8))
        od, og = r.coverage.get(act, (0, 0))
        r.coverage[act] = (od + d, og + g)
    r.prints = [ln for ln in out.splitlines() if ln.startswith("<<") or ln.startswith('"')]
    if not r.ok and not r.violated:
        # parse / evaluation / semantic error: machinery failure
        tail = "\n".join(out.splitlines()[-40:])
        raise TLCError("TLC failed (rc=%s) on %s/%s:\n%s" % (rc, module, os.path.basename(cfg), tail))
    if r.violated:
        r.counterexample = re.split(r"\nState \d+: ", out)[1:]
    shutil.rmtree(os.path.join(meta, "states"), ignore_errors=True)
    return r


def sany(module, specdir=None):
    specdir = specdir or SPECS
    p = subprocess.run(["java", "-cp", JAR, "tla2sany.SANY", module + ".tla"], cwd=specdir,
                       stdout=subprocess.PIPE, stderr=subprocess.STDOUT, text=True)
    ok = p.returncode == 0 and "Semantic errors" not in p.stdout and "***Parse Error***" not in p.stdout \
        and "Fatal errors" not in p.stdout
    return ok, p.stdout


# ---------------------------------------------------------------------------------------------
# Trace batches
# ---------------------------------------------------------------------------------------------

_RE_VERDICT = re.compile(r'^<<"VERDICT", (\d+), <<"([^"]*)", (-?\d+)>>>>$')


def validate_batch(module, cfg, traces, name=None, timeout=900, env=None, dfs=False, heap="8g",
                   chunk=None):
    """Validate a list of trace dicts with specs/<module>.tla.

    The module reads ndjson from IOEnv.TRACE_FILE, chooses `tid` in Init and leaves
    <<verdict, step>> of every trace in TLC register tid; its POSTCONDITION prints one
    `<<"VERDICT", tid, <<verdict, step>>>>` line per trace.  Returns (verdicts, stats) where
    verdicts[i] = (verdict string, step) for traces[i].
    """
    name = name or module
    os.makedirs(os.path.join(OUT, "traces"), exist_ok=True)
    verdicts = []
    gen = dist = 0
    wall = 0.0
    chunk = chunk or len(traces) or 1
    for off in range(0, len(traces), chunk):
        part = traces[off:off + chunk]
        path = os.path.join(OUT, "traces", "%s_%d.ndjson" % (name, off))
        with open(path, "w") as f:
            for t in part:
                f.write(json.dumps(t, separators=(",", ":")) + "\n")
        e = {"TRACE_FILE": path}
        if env:
            e.update(env)
        r = run(module, cfg, name="%s_batch%d" % (name, off), workers=1, timeout=timeout, env=e,
                dfs=dfs, heap=heap)
        if not r.ok:
            raise TLCError("trace batch %s: TLC reported %s\n%s" % (name, r.violated, r.output[-3000:]))
        got = {}
        for ln in r.output.splitlines():
            m = _RE_VERDICT.match(ln.strip())
            if m:
                got[int(m.group(1))] = (m.group(2), int(m.group(3)))
        if len(got) != len(part):
            raise TLCError("trace batch %s: %d verdicts for %d traces\n%s"
                           % (name, len(got), len(part), r.output[-3000:]))
        verdicts += [got[i + 1] for i in range(len(part))]
        gen += r.generated
        dist += r.distinct
        wall += r.wall_s
    return verdicts, {"generated": gen, "distinct": dist, "wall_s": round(wall, 2)}


# ---------------------------------------------------------------------------------------------
# Behaviours out of TLC (-simulate file=...)
# ---------------------------------------------------------------------------------------------

_RE_STEP = re.compile(r"^\\\* <(\w+)(?:\((.*?)\))? line \d+", re.M)


def parse_tla_value(s):
    """Parse the subset of TLA+ value syntax TLC prints: ints, strings, TRUE/FALSE, <<>>, {},
    [a |-> v], (k :> v @@ ...), model values."""
    pos = [0]

    def ws():
        while pos[0] < len(s) and s[pos[0]] in " \n\t\r":
            pos[0] += 1

    def val():
        ws()
        c = s[pos[0]]
        if s.startswith("<<", pos[0]):
            pos[0] += 2
            items = []
            ws()
            while not s.startswith(">>", pos[0]):
                items.append(val())
                ws()
                if s[pos[0]] == ",":
                    pos[0] += 1
                ws()
            pos[0] += 2
            return items
        if c == "{":
            pos[0] += 1
            items = []
            ws()
            while s[pos[0]] != "}":
                items.append(val())
                ws()
                if s[pos[0]] == ",":
                    pos[0] += 1
                ws()
            pos[0] += 1
            return {"__set__": items}
        if c == "[":
            pos[0] += 1
            d = {}
            ws()
            while s[pos[0]] != "]":
                m = re.compile(r"(\w+)\s*\|->").match(s, pos[0])
                pos[0] = m.end()
                d[m.group(1)] = val()
                ws()
                if s[pos[0]] == ",":
                    pos[0] += 1
                ws()
            pos[0] += 1
            return d
        if c == "(":
            pos[0] += 1
            d = {}
            ws()
            while s[pos[0]] != ")":
                k = val()
                ws()
                assert s.startswith(":>", pos[0]), s[pos[0]:pos[0] + 20]
                pos[0] += 2
                v = val()
                d[k if not isinstance(k, list) else tuple(k)] = v
                ws()
                if s.startswith("@@", pos[0]):
                    pos[0] += 2
                ws()
            pos[0] += 1
            return d
        if c == '"':
            j = pos[0] + 1
            out = []
            while s[j] != '"':
                if s[j] == "\\":
                    j += 1
                out.append(s[j])
                j += 1
            pos[0] = j + 1
            return "".join(out)
        m = re.compile(r"-?\d+").match(s, pos[0])
        if m:
            pos[0] = m.end()
            return int(m.group(0))
        m = re.compile(r"\w+").match(s, pos[0])
        pos[0] = m.end()
        w = m.group(0)
        return True if w == "TRUE" else False if w == "FALSE" else w

    v = val()
    return v


def parse_state(text):
    """'/\\ a = 1\n/\\ b = <<>>' -> dict."""
    st = {}
    parts = re.split(r"^/\\ ", text.strip(), flags=re.M)
    for p in parts:
        p = p.strip()
        if not p:
            continue
        k, _, v = p.partition(" = ")
        st[k.strip()] = parse_tla_value(v.strip())
    return st


def simulate_behaviours(module, cfg, num, depth, seed, name=None, timeout=300, workers=1):
    """Run -simulate and return a list of behaviours: [ (action, state dict), ... ]."""
    name = name or (module + "_sim")
    d = os.path.join(OUT, "sim", name)
    shutil.rmtree(d, ignore_errors=True)
    os.makedirs(d, exist_ok=True)
    r = run(module, cfg, name=name, workers=workers, timeout=timeout,
            simulate="file=%s/tr,num=%d" % (d, num), depth=depth, seed=seed)
    behs = []
    for fn in sorted(os.listdir(d)):
        with open(os.path.join(d, fn)) as f:
            txt = f.read()
        beh = []
        # blocks: "\* <Action line ...>\nSTATE_n ==\n/\ ...\n\n"
        for m in re.finditer(r"(?:\\\* <(\w+)[^\n]*>\n)?STATE_(\d+) ==[ ]*\n(.*?)\n\n", txt, re.S):
            beh.append((m.group(1) or "Init", parse_state(m.group(3))))
        if beh:
            behs.append(beh)
    shutil.rmtree(d, ignore_errors=True)
    return behs, r


def repeat_failing(ctx, module, cfg, traces, metas, verdicts, which, rerun, name, ok=("ok", "DRIFT")):
    """Real-process scenarios depend on the wall clock; a verdict must not depend on how busy the machine was.  Every
    scenario run k in `which` whose verdict is not in `ok` is run once more with the same arguments (rerun(k) ->
    (trace, meta)) and judged again: it stays reported only if it fails both times (with the trace of the second run);
    otherwise a note is left.  traces / metas / verdicts are updated in place."""
    again = [k for k in which if verdicts[k][0] not in ok and not str(verdicts[k][0]).startswith("drift")]
    if not again:
        return
    new = []
    for k in again:
        new.append(rerun(k))
    v2, _ = validate_batch(module, cfg, [t for t, _ in new], name=name + "_again")
    passed = 0
    for k, (t2, m2), (vv, st) in zip(again, new, v2):
        if vv in ok or str(vv).startswith("drift"):
            ctx.notes.append("%s: scenario run %d failed once (%s) and passed when repeated: not reported" % (name, k, verdicts[k][0]))
            verdicts[k] = ("ok", 0)
            passed += 1
        else:
            traces[k], metas[k], verdicts[k] = t2, m2, (vv, st)
    ctx.coverage.setdefault("real_scenarios_repeated", {})[name] = {"repeated": len(again), "passed_when_repeated": passed}
