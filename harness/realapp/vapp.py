"""WSGI application used by the real-process runs.  Routes:
  /pid            -> "pid=<pid> marker=<VERIF_MARKER> ids=<resuid,resgid,groups>"
  /sleep?t=<sec>  -> sleeps, then like /pid
  /hang           -> never returns (blocks SIGABRT-ignoring if ?ignore=1)
  /stream?n=&d=   -> n chunks of 1 KiB, d seconds apart (no Content-Length)
  /echo           -> echoes the request body length
"""
import os
import signal
import time
from urllib.parse import parse_qs

# a slow-importing application (used with --preload to stretch a master's boot)
time.sleep(float(os.environ.get("VERIF_BOOT_SLEEP", "0") or 0))


def ident():
    return ("pid=%d marker=%s ruid=%s rgid=%s groups=%s" % (
        os.getpid(), os.environ.get("VERIF_MARKER", "-"), ",".join(map(str, os.getresuid())),
        ",".join(map(str, os.getresgid())), ",".join(map(str, sorted(os.getgroups()))))).encode()


def app(environ, start_response):
    path = environ.get("PATH_INFO", "/")
    q = parse_qs(environ.get("QUERY_STRING", ""))
    if path == "/sleep":
        time.sleep(float(q.get("t", ["0.1"])[0]))
    elif path == "/hang":
        if q.get("ignore"):
            signal.signal(signal.SIGABRT, signal.SIG_IGN)
        while True:
            time.sleep(3600)
    elif path == "/stream":
        n = int(q.get("n", ["3"])[0])
        d = float(q.get("d", ["0.1"])[0])
        start_response("200 OK", [("Content-Type", "text/plain")])

        def gen():
            for i in range(n):
                yield (b"%03d" % i) + b"x" * 1021
                time.sleep(d)
            yield b"END " + ident()
        return gen()
    elif path == "/echo":
        n = len(environ["wsgi.input"].read())
        body = b"len=%d " % n + ident()
        start_response("200 OK", [("Content-Type", "text/plain"), ("Content-Length", str(len(body)))])
        return [body]
    body = ident()
    start_response("200 OK", [("Content-Type", "text/plain"), ("Content-Length", str(len(body)))])
    return [body]
