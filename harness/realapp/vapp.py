"""WSGI application used by the real-process runs.  Routes:
  /pid            -> "pid=<pid> marker=<VERIF_MARKER> ids=<resuid,resgid,groups>"
  /sleep?t=<sec>  -> sleeps, then like /pid
  /hang           -> never returns (blocks SIGABRT-ignoring if ?ignore=1)
  /stream?n=&d=   -> n chunks of 1 KiB, d seconds apart (no Content-Length)
  /echo           -> echoes the request body length
"""
import os
import signal
import time
from urllib.parse import parse_qs

# a slow-importing application (used with --preload to stretch a master's boot)
time.sleep(float(os.environ.get("VERIF_BOOT_SLEEP", "0") or 0))


# an application that cannot be loaded once the flag file exists (a broken release handed to USR2)
if os.path.exists(os.environ.get("VERIF_BROKEN_FLAG", "/nonexistent/flag")):
    raise RuntimeError("vapp: broken release")


if os.environ.get("VERIF_SOCK_TIMEOUT"):
    import socket as _socket
    _socket.setdefaulttimeout(float(os.environ["VERIF_SOCK_TIMEOUT"]))


def ident():
    return ("pid=%d marker=%s ruid=%s rgid=%s groups=%s" % (
        os.getpid(), os.environ.get("VERIF_MARKER", "-"), ",".join(map(str, os.getresuid())),
        ",".join(map(str, os.getresgid())), ",".join(map(str, sorted(os.getgroups()))))).encode()


def app(environ, start_response):
    path = environ.get("PATH_INFO", "/")
    q = parse_qs(environ.get("QUERY_STRING", ""))
    if q.get("envdump"):
        body = ("SN=%s|PI=%s|QS=%s|RAW=%s|" % (environ.get("SCRIPT_NAME"), environ.get("PATH_INFO"), environ.get("QUERY_STRING"),
                                             environ.get("RAW_URI"))).encode("latin-1") + ident()
        start_response("200 OK", [("Content-Type", "text/plain"), ("Content-Length", str(len(body)))])
        return [body]
    if path == "/body":
        # run a program of read / readline / readlines / next calls on wsgi.input and report what each returned
        import json as _json
        import zlib
        prog = _json.loads(q.get("prog", ["[]"])[0])
        inp = environ["wsgi.input"]
        out = []
        for op, n in prog:
            try:
                if op == "read":
                    r = inp.read() if n is None else inp.read(n)
                elif op == "readline":
                    r = inp.readline() if n is None else inp.readline(n)
                elif op == "next":
                    try:
                        r = next(inp)
                    except StopIteration:
                        r = b""
                else:
                    lines = inp.readlines() if n is None else inp.readlines(n)
                    r = b"".join(lines)
                    out.append({"len": len(r), "crc": zlib.crc32(r), "lines": [len(x) for x in lines]})
                    continue
                out.append({"len": len(r), "crc": zlib.crc32(r)})
            except Exception as e:      # noqa
                out.append({"raised": type(e).__name__})
                break
        body = _json.dumps(out).encode()
        start_response("200 OK", [("Content-Type", "application/json"), ("Content-Length", str(len(body)))])
        return [body]
    if path == "/hid":
        # a response whose status line and header lines all carry the request's id, after some computing (so that handler
        # threads are pre-empted while they produce their responses)
        rid = q.get("id", ["0"])[0]
        t_end = time.perf_counter() + float(q.get("spin", ["5"])[0]) / 1000.0
        x = 0
        while time.perf_counter() < t_end:
            x += 1
        body = ("id=%s" % rid).encode()
        start_response("200 R%s" % rid, [("X-R%s-%d" % (rid, i), "v%s" % rid) for i in range(int(q.get("n", ["200"])[0]))] +
                       [("Content-Length", str(len(body)))])
        return [body]
    if path == "/sleep":
        time.sleep(float(q.get("t", ["0.1"])[0]))
    elif path == "/hang":
        if q.get("ignore"):
            signal.signal(signal.SIGABRT, signal.SIG_IGN)
        while True:
            time.sleep(3600)
    elif path == "/stream":
        n = int(q.get("n", ["3"])[0])
        d = float(q.get("d", ["0.1"])[0])
        start_response("200 OK", [("Content-Type", "text/plain")])

        def gen():
            for i in range(n):
                yield (b"%03d" % i) + b"x" * 1021
                time.sleep(d)
            yield b"END " + ident()
        return gen()
    elif path == "/gen":
        # generated response: prod=iter|write|file|filenofd, sizes=comma list, cl=none|N, status=code, off=file offset
        import io
        import tempfile
        sizes = [int(x) for x in q.get("sizes", [""])[0].split(",") if x != ""]
        prod = q.get("prod", ["iter"])[0]
        status = q.get("status", ["200"])[0]
        cl = q.get("cl", ["none"])[0]
        off = int(q.get("off", ["0"])[0])
        delay = float(q.get("d", ["0"])[0])
        rep = int(q.get("rep", ["1"])[0])
        sizes = sizes * rep
        chunks, k = [], 0
        for n in sizes:
            chunks.append(bytes((0x30 + (k + j) % 75) for j in range(n)))
            k += n
        hdrs = [("Content-Type", "text/plain")]
        if cl != "none":
            hdrs.append(("Content-Length", cl))
        if q.get("who"):
            hdrs.append(("X-Worker", str(os.getpid())))
        text = {"200": "200 OK", "201": "201 Created", "204": "204 No Content", "304": "304 Not Modified", "404": "404 Not Found"}[status]
        if q.get("excinfo"):
            # the WSGI error pattern: a first start_response is replaced, before any output, by a second one with exc_info
            start_response("500 Internal Server Error", [("Content-Type", "text/plain"), ("Content-Length", "3")])
            try:
                raise RuntimeError("replace")
            except RuntimeError:
                import sys
                write = start_response(text, hdrs, sys.exc_info())
        else:
            write = start_response(text, hdrs)
        if prod == "write":
            for c in chunks:
                write(c)
            return []
        if prod in ("file", "filenofd"):
            data = b"".join(chunks)
            if prod == "file":
                f = tempfile.TemporaryFile()
                f.write(data)
                f.flush()
            else:
                f = io.BytesIO(data)
            f.seek(off)
            return environ["wsgi.file_wrapper"](f)
        if delay:
            def slow():
                for c in chunks:
                    time.sleep(delay)
                    yield c
            return slow()
        return chunks
    elif path == "/echo":
        n = len(environ["wsgi.input"].read())
        body = b"len=%d " % n + ident()
        start_response("200 OK", [("Content-Type", "text/plain"), ("Content-Length", str(len(body)))])
        return [body]
    body = ident()
    start_response("200 OK", [("Content-Type", "text/plain"), ("Content-Length", str(len(body)))])
    return [body]
