#!/usr/bin/env python3
"""Confirm a seeded mutation produced by an independent sub-agent and run the checks against it.

usage: harness/seedconfirm.py <prop> <k> [<extra props to run> ...]
  reads /tmp/seed_<prop>_out/m<k>.diff, m<k>_demo.py, m<k>.json
  1. fresh worktree of /repo HEAD; demo must PASS (exit 0) there
  2. apply the diff; the repository test suite must still pass; demo must FAIL (exit != 0)
  3. run ./check <prop> (and extra props) with VERIF_REPO=<worktree> (quick tier)
  4. write /verif/seeded/<prop>_m<k>/{patch.diff, demo.py, meta.json}; remove the worktree
"""
import json
import os
import shutil
import subprocess
import sys
import time

HOME = os.path.dirname(os.path.dirname(os.path.abspath(__file__)))


def sh(cmd, **kw):
    return subprocess.run(cmd, shell=True, stdout=subprocess.PIPE, stderr=subprocess.STDOUT, text=True, **kw)


def main():
    prop, k = sys.argv[1], sys.argv[2]
    extra = sys.argv[3:]
    tier = os.environ.get("SEED_TIER", "quick")
    rnd = os.environ.get("SEED_ROUND", "1")
    src = ("/tmp/seed_%s_out" if rnd == "1" else "/tmp/seed" + rnd + "_%s_out") % prop
    diff, demo, meta = ("%s/m%s.diff" % (src, k), "%s/m%s_demo.py" % (src, k), "%s/m%s.json" % (src, k))
    for f in (diff, demo):
        if not os.path.exists(f):
            print("missing", f)
            return 2
    wt = "/tmp/wt_seedc%s_%s_%s" % (rnd, prop, k)
    sh("git -C /repo worktree remove --force %s" % wt)
    # SEED_BASE: the commit of /repo the change was written against, when a later "fix:" commit rewrote the same lines
    base = os.environ.get("SEED_BASE", "HEAD")
    r = sh("git -C /repo worktree add -q --detach %s %s" % (wt, base))
    if r.returncode:
        print(r.stdout)
        return 2
    out = {"property": prop, "mutation": "m%s" % k, "ran": []}
    try:
        r = sh("timeout 120 /venv/bin/python %s %s" % (demo, wt), env=dict(os.environ, PYTHONPATH=wt))
        out["demo_on_clean_tree"] = {"exit": r.returncode, "tail": r.stdout[-300:]}
        r = sh("git -C %s apply %s" % (wt, diff))
        if r.returncode:
            out["apply"] = r.stdout[-500:]
            print(json.dumps(out, indent=1))
            return 2
        r = sh("cd %s && timeout 600 /venv/bin/python -m pytest -q -p no:cacheprovider --no-cov tests/ 2>&1 | tail -3" % wt,
               env=dict(os.environ, PYTHONPATH=wt))
        out["repo_tests_on_mutant"] = r.stdout.strip()[-300:]
        tests_ok = " passed" in r.stdout and " failed" not in r.stdout and "error" not in r.stdout.lower()
        # (a demonstration that depends on a race may need more than one attempt to show the failure)
        for attempt in range(1, 5):
            r = sh("timeout 120 /venv/bin/python %s %s" % (demo, wt), env=dict(os.environ, PYTHONPATH=wt))
            out["demo_on_mutant"] = {"exit": r.returncode, "tail": r.stdout[-300:], "attempts": attempt}
            if r.returncode not in (0, 124):
                break
        confirmed = (out["demo_on_clean_tree"]["exit"] == 0 and out["demo_on_mutant"]["exit"] not in (0, 124) and tests_ok)
        out["confirmed"] = confirmed
        for p in [prop] + extra:
            t0 = time.time()
            scratch = wt + "_out"
            r = sh("%s/check %s --tier %s" % (HOME, p, tier),
                   env=dict(os.environ, VERIF_REPO=wt, VERIF_OUT=scratch, VERIF_EVIDENCE=scratch + "/evidence"))
            shutil.rmtree(scratch, ignore_errors=True)
            sigs = [ln.strip() for ln in r.stdout.splitlines() if ln.strip().startswith("signature:")]
            out["ran"].append({"check": "./check %s --tier %s" % (p, tier), "exit": r.returncode,
                               "violations": sum(1 for ln in r.stdout.splitlines() if ln.startswith("VIOLATION")),
                               "signatures": sigs[:6], "wall_s": round(time.time() - t0, 1),
                               "tail": r.stdout.strip().splitlines()[-1][:300] if r.stdout.strip() else ""})
        out["caught_by"] = [x["check"] for x in out["ran"] if x["exit"] == 1]
        if os.path.exists(meta):
            try:
                out["agent_meta"] = json.load(open(meta))
            except Exception:
                out["agent_meta"] = open(meta).read()[:2000]
        if confirmed:
            d = os.path.join(HOME, "seeded", ("%s_m%s" if rnd == "1" else "%s_r" + rnd + "_m%s") % (prop, k))
            os.makedirs(d, exist_ok=True)
            shutil.copy(diff, os.path.join(d, "patch.diff"))
            shutil.copy(demo, os.path.join(d, "demo.py"))
            am = out.get("agent_meta") if isinstance(out.get("agent_meta"), dict) else {}
            with open(os.path.join(d, "meta.json"), "w") as f:
                json.dump({"property": prop, "breaks": am.get("summary", ""), "needs": am.get("needs", ""),
                           "files": am.get("files", []), **({"base": base} if base != "HEAD" else {}),
                           "confirmation": {"demo_on_clean_tree_exit": out["demo_on_clean_tree"]["exit"],
                                            "demo_on_mutant_exit": out["demo_on_mutant"]["exit"],
                                            "repo_tests_on_mutant": out["repo_tests_on_mutant"]},
                           "checks_run": out["ran"], "caught_by": out["caught_by"]}, f, indent=1)
        print(json.dumps(out, indent=1))
    finally:
        sh("git -C /repo worktree remove --force %s" % wt)
    return 0


if __name__ == "__main__":
    sys.exit(main())
