"""./check entry point: dispatch a property to its area module, apply the verdict rule,
write evidence, print VIOLATION / KNOWN-FINDING lines.

Exit codes: 0 property held on everything explored (possibly with KNOWN-FINDING lines),
1 unlisted violation on a concrete real-code trace, 2 machinery failure.
"""
import argparse
import hashlib
import importlib
import json
import os
import random
import re
import sys
import time
import traceback

HERE = os.path.dirname(os.path.abspath(__file__))
HOME = os.path.dirname(HERE)
os.environ.setdefault("VERIF_HOME", HOME)
sys.path.insert(0, HERE)
REPO = os.environ.get("VERIF_REPO", "/repo")
sys.path.insert(0, REPO)
sys.dont_write_bytecode = True

AREAS = {
    "C01": "http_parse", "C06": "http_parse", "C12": "http_parse", "C07": "body_io",
    "C02": "response", "C09": "response", "C19": "response", "C05": "conn",
    "C08": "headermap", "C15": "environ", "C16": "config_merge", "C17": "pidfile",
    "C20": "privs", "C03": "master_worker", "C10": "master_worker", "C11": "master_worker", "C04": "master_worker",
    "C14": "upgrade", "C13": "gthread", "C18": "recycle",
}


class Ctx:
    def __init__(self, prop, tier, seed):
        self.prop = prop
        self.tier = tier
        self.seed = seed
        self.rng = random.Random(seed * 1000003 + int(prop[1:]))
        self.violations = []      # dicts: signature, what, case
        self.drift = []           # dicts: what
        self.notes = []
        self.coverage = {"states": 0, "transitions": 0, "traces_validated_against_impl": 0,
                         "samples": [], "exhaustive": False}
        self.assumptions = []
        self.t0 = time.time()

    @property
    def quick(self):
        return self.tier == "quick"

    def add_model(self, res, label=None):
        """Account an exhaustive TLC run (TLCResult)."""
        self.coverage["states"] += res.distinct
        self.coverage["transitions"] += res.generated
        self.coverage.setdefault("tlc_runs", []).append(
            dict(res.summary(), label=label or "", cmd=os.path.basename(res.cmd.split(" ")[-1])))

    def add_traces(self, n, stats=None):
        self.coverage["traces_validated_against_impl"] += n
        if stats:
            self.coverage.setdefault("trace_tlc", []).append(stats)

    def sample(self, x, cap=6):
        if len(self.coverage["samples"]) < cap:
            self.coverage["samples"].append(x)

    def violation(self, signature, what, case):
        self.violations.append({"signature": signature, "what": what, "case": case})

    def note_drift(self, what):
        self.drift.append(what)


def load_findings():
    p = os.path.join(HOME, "known_findings.json")
    if not os.path.exists(p):
        return []
    with open(p) as f:
        return json.load(f).get("findings", [])


def match_finding(findings, prop, signature):
    for f in findings:
        if f.get("property") != prop or f.get("status") != "known":
            continue
        if f.get("signature") == signature:
            return f
        pat = f.get("signature_re")
        if pat and re.fullmatch(pat, signature):
            return f
    return None


def write_evidence(ctx, nviol):
    evdir = os.environ.get("VERIF_EVIDENCE") or os.path.join(HOME, "evidence")
    os.makedirs(evdir, exist_ok=True)
    cov = ctx.coverage
    if not cov["samples"]:
        cov["samples"] = ["(no sample recorded)"]
    cov["drift"] = len(ctx.drift)
    if ctx.drift:
        cov["drift_samples"] = ctx.drift[:5]
    if ctx.notes:
        cov["notes"] = ctx.notes[:20]
    ev = {"property_id": ctx.prop, "tier": ctx.tier, "seed": ctx.seed, "level": "model_checking",
          "coverage": cov, "assumptions": ctx.assumptions, "wall_s": round(time.time() - ctx.t0, 2),
          "violations": nviol}
    with open(os.path.join(evdir, ctx.prop + ".json"), "w") as f:
        json.dump(ev, f, indent=1, default=str)
        f.write("\n")


def main():
    ap = argparse.ArgumentParser()
    ap.add_argument("prop")
    ap.add_argument("--tier", default=os.environ.get("VERIF_TIER", "quick"), choices=["quick", "thorough"])
    ap.add_argument("--seed", type=int, default=int(os.environ.get("VERIF_SEED", "0") or 0))
    ap.add_argument("--replay")
    a = ap.parse_args()
    prop = a.prop.upper()
    if prop not in AREAS:
        print("unknown property", prop)
        return 2
    ctx = Ctx(prop, a.tier, a.seed)
    try:
        mod = importlib.import_module("props." + AREAS[prop])
        if a.replay:
            with open(a.replay) as f:
                data = json.load(f)
            return mod.replay(ctx, data)
        mod.CHECKS[prop](ctx)
    except Exception:
        traceback.print_exc()
        print("MACHINERY-FAILURE property=%s" % prop)
        return 2
    findings = load_findings()
    seen = {}
    for v in ctx.violations:
        seen.setdefault(v["signature"], v)
    new = 0
    outdir = os.environ.get("VERIF_OUT") or os.path.join(HOME, "out")
    os.makedirs(os.path.join(outdir, "replay"), exist_ok=True)
    for sig, v in sorted(seen.items()):
        f = match_finding(findings, prop, sig)
        if f:
            print("KNOWN-FINDING: property=%s %s [%s]" % (prop, f.get("what", v["what"]), sig))
            continue
        new += 1
        h = hashlib.sha1(sig.encode()).hexdigest()[:10]
        path = os.path.join(outdir, "replay", "%s_%s.json" % (prop, h))
        with open(path, "w") as fp:
            json.dump({"property": prop, "signature": sig, "what": v["what"], "case": v["case"]},
                      fp, indent=1, default=str)
        print("VIOLATION property=%s replay=%s" % (prop, path))
        print("  signature: %s" % sig)
        print("  what: %s" % v["what"])
    for d in ctx.drift[:10]:
        print("DRIFT property=%s %s" % (prop, d))
    write_evidence(ctx, new)
    print("%s tier=%s seed=%d: states=%d transitions=%d traces=%d violations=%d known=%d drift=%d wall=%.1fs"
          % (prop, ctx.tier, ctx.seed, ctx.coverage["states"], ctx.coverage["transitions"],
             ctx.coverage["traces_validated_against_impl"], new, len(seen) - new, len(ctx.drift),
             time.time() - ctx.t0))
    return 1 if new else 0


if __name__ == "__main__":
    sys.exit(main())
