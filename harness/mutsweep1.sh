#!/bin/sh
# first mutation sweep over the HTTP / response / connection checks
M=/verif/harness/mut.sh
$M clte '213s/raise InvalidHeader("CONTENT-LENGTH", req=self)/pass/' gunicorn/http/message.py C01
$M dupcl '178s/raise InvalidHeader("CONTENT-LENGTH", req=self)/pass/' gunicorn/http/message.py C01
$M te10 '207s/if self.version < (1, 1):/if False:/' gunicorn/http/message.py C01
$M isnum '217s/if str(content_length).isnumeric():/if True:/' gunicorn/http/message.py C01
$M chunknotlast '197s/if chunked:/if False:/' gunicorn/http/message.py C01
$M chunk2 '187s/if chunked:/if False:/' gunicorn/http/message.py C01
$M hexcheck '98s/if any(n not in b"0123456789abcdefABCDEF" for n in chunk_size):/if False:/' gunicorn/http/body.py C01 C05
$M termcheck "77s/if rest\[:2\] != b'\\\\r\\\\n':/if False:/" gunicorn/http/body.py C01 C07
$M obsfold '121s/if not self.cfg.permit_obsolete_folding:/if False:/' gunicorn/http/message.py C01
$M nulval '131s/if RFC9110_5_5_INVALID_AND_DANGEROUS.search(value):/if False:/' gunicorn/http/message.py C01
$M wscolon '107s/if not TOKEN_RE.fullmatch(name):/if not TOKEN_RE.fullmatch(name.strip()):/' gunicorn/http/message.py C01
$M linelimit '323s/if idx > limit > 0:/if False:/' gunicorn/http/message.py C12
$M linepartial '326s/if len(data) - 2 > limit > 0:/if False:/' gunicorn/http/message.py C12
$M fsize '134s/if header_length > self.limit_request_field_size > 0:/if False:/' gunicorn/http/message.py C12
$M emptychunk '357s/if self.chunked and tosend == 0:/if False:/' gunicorn/http/wsgi.py C02
$M chunk10 '299s/elif self.req.version <= (1, 0):/elif False:/' gunicorn/http/wsgi.py C02
$M pastcl '347s/if self.sent >= self.response_length:/if False:/' gunicorn/http/wsgi.py C02
$M syncforce '172s/resp.force_close()/pass/' gunicorn/workers/sync.py C02
$M noclose '159s/util.close(client)/pass/' gunicorn/workers/sync.py C05
$M errconn '324s/Connection: close/Connection: keep-alive/' gunicorn/util.py C05
$M hoppish 's/elif util.is_hoppish(name):/elif False:/' gunicorn/http/wsgi.py C09
$M valre "s/HEADER_VALUE_RE = re.compile(r'\[ \\\\t\\\\x21-\\\\x7e\\\\x80-\\\\xff\]\*')/HEADER_VALUE_RE = re.compile(r'[^\\\\0]*')/" gunicorn/http/wsgi.py C09
