"""Independent strict HTTP/1.1 *response* reader: bytes the client end received -> abstract
records, one per response, for the trace specifications (written from RFC 9112 4, 6, 7, not from
gunicorn).  It never guesses: anything that is not a well-formed response is reported as junk."""
import re

TOKEN = re.compile(rb"^[!#$%&'*+\-.^_`|~0-9A-Za-z]+$")
STATUS_LINE = re.compile(rb"^HTTP/1\.([0-9]) ([0-9]{3})( [\t \x21-\x7e\x80-\xff]*)?$")
FIELD_VALUE = re.compile(rb"^[\t \x21-\x7e\x80-\xff]*$")


def parse_head(buf):
    """-> (record, rest) or (None, reason)"""
    i = buf.find(b"\r\n\r\n")
    if i < 0:
        return None, "no-end-of-head"
    lines = buf[:i].split(b"\r\n")
    m = STATUS_LINE.match(lines[0])
    if not m:
        return None, "bad-status-line"
    hdrs = []
    for ln in lines[1:]:
        name, sep, val = ln.partition(b":")
        if not sep or not TOKEN.match(name) or not FIELD_VALUE.match(val):
            return None, "bad-field-line"
        hdrs.append((name.decode("latin-1").lower(), val.strip(b" \t").decode("latin-1")))
    rec = {"ver": 10 + int(m.group(1)), "status": int(m.group(2)), "hdrs": hdrs, "nlines": len(lines),
           "reason": (m.group(3) or b"")[1:].decode("latin-1")}
    return rec, buf[i + 4:]


def read_chunked(buf):
    """strict chunked decoding -> dict(sizes, body, complete, rest, ok, junk)
    ok False + junk 0: the stream simply ends early (truncated); junk > 0: bytes that are not chunk syntax"""
    sizes, body = [], bytearray()
    while True:
        j = buf.find(b"\r\n")
        if j < 0:
            # no complete size line: plain truncation if what is there could still become one
            bad = len(buf) if not re.match(rb"^[0-9A-Fa-f]*(;[^\r\n]*)?\r?$", buf) else 0
            return {"sizes": sizes, "body": bytes(body), "complete": False, "rest": b"", "ok": False, "junk": bad}
        line = buf[:j]
        sz, _, ext = line.partition(b";")
        if not re.match(rb"^[0-9A-Fa-f]+$", sz):
            return {"sizes": sizes, "body": bytes(body), "complete": False, "rest": buf, "ok": False, "junk": len(buf)}
        n = int(sz, 16)
        buf = buf[j + 2:]
        if n == 0:
            # trailer section: none expected from this server; then the final CRLF
            if buf[:2] != b"\r\n":
                return {"sizes": sizes, "body": bytes(body), "complete": False, "rest": buf, "ok": False,
                        "junk": len(buf) if len(buf) >= 2 else 0}
            return {"sizes": sizes, "body": bytes(body), "complete": True, "rest": buf[2:], "ok": True, "junk": 0}
        if len(buf) < n + 2:
            return {"sizes": sizes, "body": bytes(body) + buf[:n], "complete": False, "rest": b"", "ok": False, "junk": 0}
        if buf[n:n + 2] != b"\r\n":
            return {"sizes": sizes, "body": bytes(body) + buf[:n], "complete": False, "rest": b"", "ok": False,
                    "junk": len(buf) - n}
        sizes.append(n)
        body += buf[:n]
        buf = buf[n + 2:]


def read_responses(wire, closed, methods):
    """wire: all bytes the client received on the connection; closed: server closed afterwards;
    methods: request methods in order (HEAD matters).  -> list of response records + trailing junk.
    Interim 1xx responses are attached to the final response that follows them."""
    out = []
    buf = wire
    k = 0
    interim = 0
    while buf:
        head, rest = parse_head(buf)
        if head is None:
            out.append({"wellformed": False, "why": rest, "junk": len(buf)})
            return out
        if 100 <= head["status"] < 200 and head["status"] != 101:
            interim += 1
            buf = rest
            continue
        method = methods[k] if k < len(methods) else "GET"
        k += 1
        h = dict()
        for n, v in head["hdrs"]:
            h.setdefault(n, []).append(v)
        cls = [v for v in h.get("content-length", [])]
        te = [x.strip().lower() for v in h.get("transfer-encoding", []) for x in v.split(",")]
        conn = [x.strip().lower() for v in h.get("connection", []) for x in v.split(",")]
        rec = {"wellformed": True, "ver": head["ver"], "status": head["status"], "reason": head["reason"],
               "hdrs": head["hdrs"], "nlines": head["nlines"], "interim": interim,
               "conn": ("close" if "close" in conn else "keep-alive" if "keep-alive" in conn
                        else "upgrade" if "upgrade" in conn else "none"),
               "te": bool(te), "cl": -1, "dupcl": len(cls) > 1, "chunks": [], "nzero": 0, "junk": 0}
        interim = 0
        if cls:
            if not re.match(r"^[0-9]+$", cls[0]):
                rec.update(wellformed=False, why="bad-content-length")
                out.append(rec)
                return out
            rec["cl"] = int(cls[0])
        nobody = method == "HEAD" or head["status"] in (204, 304)
        if nobody:
            rec.update(mode="none", body=b"", complete=True)
            buf = rest
        elif te:
            if te != ["chunked"]:
                rec.update(wellformed=False, why="te-not-just-chunked")
                out.append(rec)
                return out
            d = read_chunked(rest)
            rec.update(mode="chunked", body=d["body"], complete=d["complete"], chunks=d["sizes"], junk=d["junk"])
            if not d["ok"] and not closed:
                rec.update(wellformed=False, why="bad-chunked-stream")
            buf = d["rest"] if d["complete"] else b""
        elif rec["cl"] >= 0:
            rec.update(mode="cl", body=rest[:rec["cl"]], complete=len(rest) >= rec["cl"])
            buf = rest[rec["cl"]:]
        else:
            rec.update(mode="close", body=rest, complete=closed)
            buf = b""
        out.append(rec)
        if rec["mode"] == "close":
            break
    return out
