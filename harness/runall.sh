#!/bin/sh
# run every check once (quick tier by default) and print one line per check
TIER=${1:-quick}
cd "$(dirname "$0")/.." || exit 2      # the tree this script belongs to (a vp run works on a snapshot)
for p in C01 C02 C03 C04 C05 C06 C07 C08 C09 C10 C11 C12 C13 C14 C15 C16 C17 C18 C19 C20; do
  s=$(date +%s)
  out=$(./check $p --tier $TIER --seed ${VERIF_SEED:-0} 2>&1); rc=$?
  e=$(date +%s)
  echo "$p rc=$rc $((e-s))s $(echo "$out" | grep -c '^VIOLATION') viol $(echo "$out" | grep -c '^KNOWN-FINDING') known $(echo "$out" | grep -c '^DRIFT') drift | $(echo "$out" | tail -1 | cut -c1-120)"
done
