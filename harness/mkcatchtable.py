#!/usr/bin/env python3
"""Print the catch table of DESIGN.md 9.6 from /verif/seeded/*/meta.json (+ the notes below on what had to be
strengthened before a mutation was caught)."""
import json
import os

HOME = os.path.dirname(os.path.dirname(os.path.abspath(__file__)))
# mutation id -> what was added to the checks before it was caught ("" = caught by the checks as they were)
STRENGTHENED = {
    # round 2
    "C01_r2_m2": "clause TruncatedChunkedBodyDeliveredAsComplete (HttpTrace)",
    "C02_r2_m2": "decided through C13 (NoCloseWhileHandled): the change is in the gthread poller",
    "C03_r2_m2": "SimOS: TERM swallowed between fork and init_signals (C03 only)",
    "C05_r2_m2": "PROXY-protocol peers (listed / unlisted) x good and bad PROXY lines in C05",
    "C06_r2_m1": "shapes with empty lines before a request line, every cut; later the `blank` stream family",
    "C06_r2_m2": "chunk extensions of 4000..9000 bytes in the real-scale shapes",
    "C08_r2_m1": "IPv6 peers (4-tuples) in the peer dimension",
    "C08_r2_m2": "a second connection of the same worker announcing a PROXY address just before",
    "C09_r2_m1": "refused second start_response swallowed by the application",
    "C09_r2_m2": "Connection: upgrade ordering variants",
    "C10_r2_m2": "two-listener reload scenario (tcp2)",
    "C11_r2_m2": "scenarios hup_hang / hup_healthy: timeout changed by a reload",
    "C13_r2_m1": "real-process side of C13 (GThreadRealTrace): segmented requests on kept-alive connections",
    "C14_r2_m1": "Upgrade.tla: Winch / Hup / wantServe; daemonized history USR2, WINCH, HUP, STOP new",
    "C14_r2_m2": "Upgrade.tla: BootFail; history USR2 with a release that cannot boot (clause MasterDiedUnasked)",
    "C15_r2_m2": "form `mount`: SCRIPT_NAME set in the process environment after import",
    "C16_r2_m1": "invalid values that compare equal to the value in force (1.0, 0/1)",
    "C16_r2_m2": "reload() after the chosen file stopped mentioning the setting",
    "C18_r2_m1": "real-process mode `burst`: more requests than threads queued when the limit is reached",
    "C18_r2_m2": "in-process counting with failing applications",
    "C19_r2_m1": "iterables whose close() raises",
    "C19_r2_m2": "late start_response(exc_info) after an empty first item, swallowed by the application",
    "C20_r2_m1": "HUP with a configuration file that became invalid",
    # round 3
    "C01_r3_m2": "worker-level stream observation (requests reaching the application through handle())",
    "C06_r3_m2": "worker-level segmentation independence",
    "C02_r3_m1": "range-style file answers (Content-Length < file remainder) on real servers of all four classes",
    "C03_r3_m1": "real-process boot failures (BootTrace)",
    "C04_r3_m1": "idle second listener (tcp2) in the real shutdown plan",
    "C04_r3_m2": "shutdown after a backed-out upgrade (USR2, TERM new, TERM old) on a unix bind",
    "C05_r3_m2": "hostile TLS peers on real processes (also found and fixed: gthread on-connect handshake)",
    "C07_r3_m1": "bodies with bare CR / VT / FF / FS-RS / NEL bytes",
    "C07_r3_m2": "worker-level late body tails",
    "C08_r3_m1": "dimension `decl`: the PROXY-declared address is in forwarded_allow_ips; deviation TrustDeclaredAddr",
    "C08_r3_m2": "header kind `cdot`: names with other token separators (. ~ ! + ...)",
    "C09_r3_m2": "CR / LF / control bytes directly against the numeric status code",
    "C10_r3_m1": "unix-bind reloads for gthread and sync",
    "C11_r3_m2": "scenario healthy_full: every connection slot of a threaded worker taken",
    "C12_r3_m1": "endless streams under limit_request_field_size = 0",
    "C12_r3_m2": "headerless request followed by a pipelined request with a long head, cut after the request line",
    "C13_r3_m2": "keep-alive budget scenarios; over-budget variant kept apart from the known gate finding",
    "C14_r3_m2": "histories without a configured pid file",
    "C15_r3_m1": "minor versions 1.2 - 1.9",
    "C15_r3_m2": "empty field values in repeated fields",
    "C17_r3_m1": "real master's pid file through the life of its workers (PidfileRealTrace)",
    "C17_r3_m2": "two instances inside create() at once, every interleaving of their system calls (PidfileConcTrace)",
    "C18_r3_m1": "real-process mode `parked`: a kept-alive connection in the worker when the limit is reached",
    "C18_r3_m2": "real-process mode `drain`: a request longer than --timeout in flight at the limit",
    "C19_r3_m1": "real keep-alive idle scenario",
    "C19_r3_m2": "files shorter than the announced Content-Length",
    "C20_r3_m1": "user / group through GUNICORN_CMD_ARGS and the workers of a USR2-started master",
    # round 4 (adversarial prompt)
    "C01_r4_m1": "framing-neutral header spellings with a history (Sec-WebSocket-Key1, hop-by-hop, look-alikes of the framing fields)",
    "C02_r4_m1": "responses that take longer than the keep-alive time, on real servers",
    "C02_r4_m2": "large responses on a reused connection to a client that reads late; scripted sockets honour the blocking mode",
    "C03_r4_m1": "wait statuses with the core-dump bit, real-time signals, exit code 255 in the simulated kernel's schedules",
    "C04_r4_m1": "requests that finish inside the graceful timeout but later than --timeout (appfin late)",
    "C04_r4_m2": "decided through C14: clause PidFileLeftBehind, histories that stop both masters",
    "C05_r4_m1": "IPv6 4-tuples, unnamed and bound unix peers in C05",
    "C06_r4_m1": "segmentation independence under non-default limit settings (0 / small)",
    "C06_r4_m2": "scripted sockets honour the blocking mode: EAGAIN between segments on a socket left non-blocking",
    "C07_r4_m1": "second request of a kept-alive connection with a late body tail (worker level)",
    "C07_r4_m2": "TLS-like sources with pending(); 20 kB bodies in the quick tier",
    "C08_r4_m2": "dimension pline2 (PROXY line in front of a later request); deviation LatePlineAccepted",
    "C09_r4_m2": "Content-Length values: digits with CR / LF / NUL / control bytes around them",
    "C10_r4_m1": "reload after a setting was removed from the file (default expected)",
    "C11_r4_m1": "timeouts of 8 / 20 / 30 s on the simulated kernel, hang after the first heartbeat",
    "C11_r4_m2": "scenario healthy_idle_keepalive: keep-alive time beyond --timeout",
    "C12_r4_m1": "limit_request_fields = 0 / out of range with heads in several reads",
    "C12_r4_m2": "strip_header_spaces with fields that are long through blanks before the colon",
    "C13_r4_m1": "environment step steal: another worker wins the accept race (EAGAIN)",
    "C13_r4_m2": "the simulated lock is re-entrant or not as the worker's own init_process makes it",
    "C14_r4_m1": "upgrade histories with --timeout 0",
    "C14_r4_m2": "(the old master stays a zombie of the driver) clause PidFileLeftBehind / MasterDiedUnasked",
    "C15_r4_m1": "field names servers treat specially (Proxy, X-Forwarded-*, hop-by-hop ...)",
    "C15_r4_m2": "peers that are not permitted forwarders",
    "C16_r4_m1": "invalid values of unexpected types (AttributeError in the validator); upper-case look-alike globals in files",
    "C16_r4_m2": "real servers: merged value vs. the value master and workers use (ConfigRunTrace)",
    "C17_r4_m1": "kernel-level crash points (strace fault injection), pid directory on another file system",
    "C17_r4_m2": "foreign pids that extend the digits of an instance's pid",
    "C18_r4_m1": "real mode twolisten; the driver's start-up probe counted",
    "C18_r4_m2": "real mode ka0 (keep-alive 0)",
    "C19_r4_m1": "real eventlet: large file to a client that reads late (partial sends)",
    "C19_r4_m2": "real servers with --log-level warning / error",
    "C20_r4_m2": "Privs.tla capability dimension (uid-0 refused a privilege call), deviation SwallowEperm",
    # round 5
    "C01_r5_m1": "reject kinds (NUL / CR in a value, blank before the colon) in fields whose name has an underscore",
    "C02_r5_m1": "(first caught by chance, then missed by a later run) requests with a body that the application reads before / in the middle of / after its output or not at all, with and without Expect: 100-continue",
    "C03_r5_m2": "line-level injection aimed at the master's once-a-second passes: a worker dies at every source line of murder_workers / manage_workers",
    "C04_r5_m1": "real shutdowns with --reuse-port",
    "C04_r5_m2": "stop signals during a slow application import (run_boot_stop)",
    "C05_r5_m1": "clients that never read a multi-megabyte error page",
    "C05_r5_m2": "more empty connections than connection slots",
    "C06_r5_m1": "PROXY-protocol configurations in the segmentation loop",
    "C06_r5_m2": "real-server segmentations of pipelined requests (keep-alive loop of the async workers)",
    "C07_r5_m1": "small head limits with a long pipelined request behind the trailers",
    "C07_r5_m2": "negative read sizes other than -1",
    "C09_r5_m2": "forbidden bytes far into long header values",
    "C10_r5_m2": "a raw_env line dropped at the last reload",
    "C11_r5_m1": "scenario healthy_draining: a healthy worker draining after a reload for longer than --timeout",
    "C12_r5_m1": "request line exactly at the limit (CRLF in a later read) counts as within",
    "C12_r5_m2": "folded fields under permit_obsolete_folding (lines > fields)",
    "C13_r5_m1": "applications that set a Connection header (simulated gthread worker)",
    "C13_r5_m2": "real gthread worker with every connection slot taken for longer than --timeout",
    "C14_r5_m1": "symlinked release deployments: the symlink is repointed and the old release removed before every USR2",
    "C14_r5_m2": "history 14: documented back-out (WINCH, stop the new master, HUP), then the next upgrade",
    "C15_r5_m2": "SCRIPT_NAME configured through raw_env and removed by a reload, on a real server",
    "C16_r5_m1": "relative --chdir on the command line / in GUNICORN_CMD_ARGS with a file that sets chdir",
    "C16_r5_m2": "ConfigMerge.tla: stand-in environment variables as a level below the default (fb / fbused, deviation FallbackFirst); loads compared under two values of the variable",
    "C17_r5_m1": "the configured pid path is a symbolic link (stale target / dangling) at the kernel crash points",
    "C17_r5_m2": "daemonised starts (good / failing after the detach) polled by a reader: clause PartialContentSeen",
    "C18_r5_m1": "real mode bodiless: 304 answers on a keep-alive connection up to the limit",
    "C18_r5_m2": "unix-socket binds through a recycling (gthread / eventlet)",
    "C19_r5_m1": "access records collected through a handler on the root logger (logconfig_dict)",
    "C20_r5_m1": "ids in the upper half of the 32-bit id space, as number and numeric string (renamed injectively for TLC)",
    "C20_r5_m2": "timeout = 0 variants on the fake kernel and in real forked processes",
    # round 6
    "C01_r6_m1": "Content-Length digits of other scripts and Transfer-Encoding letters that case-fold to ASCII, as UTF-8",
    "C01_r6_m2": "(request lines with junk after the version, incl. a bare LF, added alongside)",
    "C02_r6_m1": "Connection header folded after the colon, under permit_obsolete_folding",
    "C02_r6_m2": "file-like objects whose read() returns fewer bytes than asked for; --no-sendfile",
    "C03_r6_m1": "(post_fork hook that raises: scenario present since round 2; BootTrace)",
    "C04_r6_m1": "eventlet / gevent / gthread with every connection slot taken and one more connection accepted at TERM",
    "C04_r6_m2": "--reload (file-watching thread in the workers) with TERM and QUIT",
    "C05_r6_m1": "clients that leave (FIN / RST) in the middle of a response of several writes; servers started with --daemon",
    "C05_r6_m2": "decided through C01 run under permit_obsolete_folding: forbidden bytes on the continuation of a folded field",
    "C06_r6_m1": "streams around the buffer caps: trailer blocks beyond the cap with limit_request_field_size = 0",
    "C06_r6_m2": "streams around the buffer caps: head-less request followed by more pipelined bytes than the header-block cap, every cut",
    "C07_r6_m1": "body programs on real servers of the four classes, slow segments, default socket timeout set by the application",
    "C07_r6_m2": "a share of the runs repeated in an interpreter started with -O",
    "C08_r6_m1": "HeaderMap.tla dimension tls (the listener terminates TLS: scheme https unless a permitted forwarder says otherwise), product T",
    "C09_r6_m1": "relaxed request-parsing settings for the response checks; values shaped like obsolete line folding",
    "C09_r6_m2": "ConcHeadTrace: responses produced at the same time by the handler threads of a real server (8 clients, 4 ms of computing per request)",
    "C10_r6_m1": "configuration file named relative to the start directory with --chdir elsewhere, then HUP",
    "C10_r6_m2": "line-level injection (a worker dies at every source line of murder_workers / manage_workers) after a HUP; clause MasterExitedUnasked",
    "C11_r6_m1": "simulated kernel: the aborted worker dumps core (wait status 134); clause MasterExitedUnasked for C11",
    "C11_r6_m2": "scenario healthy_inherited: listening socket handed over in blocking mode (fd://N)",
    "C12_r6_m1": "over-long fields whose name the default header_map drops",
    "C12_r6_m2": "limit_request_line = 0 with request lines beyond 8190 bytes",
    "C13_r6_m1": "two real gthread workers on a listener inherited in blocking mode, a parked connection on each",
    "C13_r6_m2": "the simulated executor honours shutdown(cancel_futures=True); clause QueuedRequestDroppedAtStop",
    "C14_r6_m1": "histories 15 / 16: HUP to the old master while the upgrade is pending, then the old master leaves",
    "C14_r6_m2": "worker turnover (--max-requests) during a pending upgrade; observation staffed, clause MasterLeftWithoutWorkers",
    "C15_r6_m1": "form mounth: SCRIPT_NAME given by the header of a permitted forwarder (loopback / unix-socket peer)",
    "C15_r6_m2": "form absempty: absolute-form targets with an empty path",
    "C17_r6_m1": "an unprivileged user creates a master's pid file over an unreadable one that names a live process",
    "C17_r6_m2": "two real masters; the configuration of one is edited to the other's pid file, then HUP",
    "C18_r6_m1": "real mode mstop: the master is stopped (SIGSTOP) while both workers reach the limit",
    "C18_r6_m2": "real mode bodiless alternates 304 answers with the WSGI exc_info pattern",
    "C19_r6_m1": "Authorization values that are not base64 (bytes beyond ASCII, control bytes, other schemes)",
    "C19_r6_m2": "statsd configured but unreachable at start-up",
    "C20_r6_m1": "Privs.tla master kind rootsplit (real gid 0, effective gid G); the change applies to the tree before fix 0582067, which rewrote the same lines",
    "C20_r6_m2": "settings from ./gunicorn.conf.py of the start directory with chdir elsewhere, then HUP",
}


def main():
    rows = []
    for d in sorted(os.listdir(os.path.join(HOME, "seeded"))):
        m = json.load(open(os.path.join(HOME, "seeded", d, "meta.json")))
        what = (m.get("breaks") or "").replace("\n", " ").replace("|", "/")
        what = what[:150] + ("…" if len(what) > 150 else "")
        sigs = []
        for r in m.get("checks_run", []):
            if r["exit"] == 1 and r["signatures"]:
                s = r["signatures"][0]
                sigs.append(s[len("signature: "):] if s.startswith("signature: ") else s)
        caught = "; ".join(s[:90] for s in sigs[:1]) or "NOT CAUGHT"
        rows.append("| `%s` | %s | `%s` | %s |" % (d, what, caught, STRENGTHENED.get(d, "")))
    print("| mutation | change (sub-agent's summary) | caught by (first signature) | added before it was caught |")
    print("|---|---|---|---|")
    print("\n".join(rows))


if __name__ == "__main__":
    main()
