#!/usr/bin/env python3
"""Re-run the checks against every confirmed seeded mutation kept under /verif/seeded (regression of the
catch table).  Each mutation gets its own worktree of /repo HEAD under /tmp, its own scratch out dir
(VERIF_OUT) and evidence dir, so several run in parallel and nothing under /verif/evidence is touched.

usage: harness/seedregress.py [-j N] [ids...]     -> table on stdout, meta.json of each mutation updated
"""
import json
import os
import shutil
import subprocess
import sys
import time
from concurrent.futures import ThreadPoolExecutor

HOME = os.path.dirname(os.path.dirname(os.path.abspath(__file__)))
SEEDED = os.path.join(HOME, "seeded")
# mutations whose property is decided through another property's check as well
EXTRA = {"C02_r2_m2": ["C13"], "C04_r4_m2": ["C14"], "C05_r6_m2": ["C01"], "C12_r7_m2": ["C16"], "C18_r7_m2": ["C16"], "C01_r7_m2": ["C05"]}


def sh(cmd, **kw):
    return subprocess.run(cmd, shell=True, stdout=subprocess.PIPE, stderr=subprocess.STDOUT, text=True, **kw)


def one(mid):
    d = os.path.join(SEEDED, mid)
    meta = json.load(open(os.path.join(d, "meta.json")))
    prop = meta["property"]
    wt = "/tmp/wt_regress_%s" % mid
    sh("git -C /repo worktree remove --force %s" % wt)
    r = sh("git -C /repo worktree add -q --detach %s %s" % (wt, meta.get("base", "HEAD")))
    out = {"id": mid, "property": prop, "ran": []}
    try:
        r = sh("git -C %s apply %s" % (wt, os.path.join(d, "patch.diff")))
        if r.returncode:
            out["error"] = "patch does not apply: " + r.stdout[-200:]
            return out
        for p in [prop] + EXTRA.get(mid, []):
            scratch = wt + "_out"
            t0 = time.time()
            r = sh("%s/check %s --tier quick" % (HOME, p),
                   env=dict(os.environ, VERIF_REPO=wt, VERIF_OUT=scratch, VERIF_EVIDENCE=scratch + "/evidence"))
            shutil.rmtree(scratch, ignore_errors=True)
            sigs = [ln.strip()[len("signature: "):] for ln in r.stdout.splitlines() if ln.strip().startswith("signature:")]
            out["ran"].append({"check": "./check %s --tier quick" % p, "exit": r.returncode, "signatures": sigs[:6],
                               "wall_s": round(time.time() - t0, 1),
                               "tail": r.stdout.strip().splitlines()[-1][:300] if r.stdout.strip() else ""})
        out["caught_by"] = [x["check"] for x in out["ran"] if x["exit"] == 1]
        meta["checks_run"] = out["ran"]
        meta["caught_by"] = out["caught_by"]
        with open(os.path.join(d, "meta.json"), "w") as f:
            json.dump(meta, f, indent=1)
        return out
    finally:
        sh("git -C /repo worktree remove --force %s" % wt)


def main():
    args = sys.argv[1:]
    j = 3
    if args[:1] == ["-j"]:
        j = int(args[1])
        args = args[2:]
    ids = args or sorted(os.listdir(SEEDED))
    with ThreadPoolExecutor(max_workers=j) as ex:
        for o in ex.map(one, ids):
            if "error" in o:
                print("%-12s ERROR %s" % (o["id"], o["error"]), flush=True)
                continue
            for x in o["ran"]:
                print("%-12s %-28s exit=%d %s" % (o["id"], x["check"], x["exit"], (x["signatures"] or [x["tail"]])[0][:150]), flush=True)


if __name__ == "__main__":
    main()
