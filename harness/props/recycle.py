"""C18: max_requests recycles workers without losing requests.

(D) specs/Recycle.tla: accept / count / exit rule of the three worker families, all interleavings of a few
    client connections, properties StopsAcceptingAfterLimit, NoClientVisibleDrop, LimitAndInflightAnswered,
    ExitsAndReplaced, NeverRecycledWhenUnset;
(C)+(P) in-process: the real counting rule of handle_request of each family and the real SyncWorker.run loop
    on a scripted listener; real processes: `python -m gunicorn --max-requests M --max-requests-jitter J`
    for sync / gthread / gevent / eventlet under sequential and concurrent clients, every response naming
    the serving pid; judged by TLC against specs/RecycleTrace.tla.
"""
import errno
import json
import os
import random as _random
import select as _select
import signal
import threading
import time

import tlc
from drivers import conn as cdrv
from drivers import realproc as rp

OUT = tlc.OUT
AS_IS = {"sync": [], "gthread": ["GthreadDropsUndispatched"], "async": ["AsyncAcceptsUntilPoll"]}


def model(ctx, fam, mx, dev=(), expect_ok=True, reqs=2, conns=3):
    cfg = os.path.join(OUT, "cfg", "Recycle_%s_%d_%s.cfg" % (fam, mx, "_".join(dev) if dev else "design"))
    os.makedirs(os.path.dirname(cfg), exist_ok=True)
    tlc.write_cfg(cfg, spec="Spec", constants={"Family": fam, "Max": mx, "Conns": "@{%s}" % ", ".join("c%d" % i for i in range(1, conns + 1)),
                                               "Threads": 2, "Dev": set(dev), "Reqs": reqs},
                  invariants=["NoClientVisibleDrop", "CountBounded", "WorkAfterLimitBounded"],
                  properties=["StopsAcceptingAfterLimit", "LimitAndInflightAnswered", "ExitsAndReplaced",
                              "NeverRecycledWhenUnset", "EverybodyServed"])
    r = tlc.run("Recycle", cfg, name="Recycle_%s_%d_%s" % (fam, mx, "_".join(dev) if dev else "design"), workers=4, timeout=600)
    if expect_ok:
        if not r.ok:
            raise tlc.TLCError("Recycle design %s max=%d violates %s" % (fam, mx, r.violated))
        ctx.add_model(r, "%s max=%d" % (fam, mx))
    else:
        ctx.coverage.setdefault("deviation_runs", []).append({"family": fam, "dev": list(dev), "reproduced": not r.ok,
                                                              "violated": r.violated})
    return r


# ---------------------------------------------------------------------------------------------
# in-process: the counting rule and the sync loop

def inproc_counting(kind, mx, jit, nconn, seed, failing=False):
    """serve nconn one-request connections through handle(); -> trace (pid = 1: one worker object).
    failing: every other request makes the application raise (a handled request all the same)"""
    calls = []

    def app(environ, start_response):
        calls.append(1)
        if failing and len(calls) % 2 == 0:
            raise RuntimeError("boom")
        start_response("200 OK", [("Content-Length", "2")])
        return [b"ok"]
    import gunicorn.workers.base as wbase
    old = wbase.randint
    wbase.randint = lambda a, b: _random.Random(seed).randint(a, b)
    try:
        cfg = cdrv.make_cfg(max_requests=mx, max_requests_jitter=jit, keepalive=2)
        w = cdrv.make_worker(kind, cfg, app)
    finally:
        wbase.randint = old
    limit = w.max_requests
    ev = []
    stopped_at = None
    for i in range(nconn):
        if not w.alive:
            stopped_at = i
            break            # the loop of every family re-checks alive before taking more work
        r = cdrv.serve(kind, cfg, [b"GET /%d HTTP/1.1\r\nHost: h\r\n\r\n" % i], app, worker=w, eof_dispatch=True)
        ok = (r.wire.startswith(b"HTTP/1.1 200 OK") and r.wire.endswith(b"ok") or
              (failing and r.wire.startswith(b"HTTP/1.1 500 "))) and r.escaped is None
        ev.append({"e": "resp", "ok": bool(ok), "pid": 1})
    alive = [1] if w.alive else []
    ev.append({"e": "end", "alive": alive if mx == 0 else ([1] if w.alive else [2]), "initial": [1]})
    return {"max": mx, "jit": jit, "allow": 0, "workers": 1, "npids": 2, "initial": [1], "ev": ev}, \
        {"where": "inproc-failing" if failing else "inproc", "kind": kind, "limit": limit, "nr": w.nr, "served": len(calls)}


def inproc_race(mx, seed):
    """threaded worker: two pool threads handle the request that reaches the limit and the next one AT ONCE - both have
    counted their request (`self.nr += 1`) before either looks at the limit.  The schedule is forced (a line tracer parks
    the first thread on the statement after the increment until the second one has reached it too; then one runs to the
    end, then the other), so the run is deterministic.  -> (trace, meta) or None when the counting statement is not found"""
    import inspect
    import sys
    import threading
    from gunicorn.workers import gthread as g
    try:
        src, first = inspect.getsourcelines(g.ThreadWorker.handle_request)
    except (OSError, TypeError):
        return None
    inc = [i for i, ln in enumerate(src) if ln.strip().replace(" ", "") == "self.nr+=1"]
    if len(inc) != 1:
        return None
    incline = first + inc[0]
    code = g.ThreadWorker.handle_request.__code__

    def app(environ, start_response):
        start_response("200 OK", [("Content-Length", "2")])
        return [b"ok"]
    cfg = cdrv.make_cfg(max_requests=mx, max_requests_jitter=0, keepalive=2)
    w = cdrv.make_worker("gthread", cfg, app)
    ev = []
    for i in range(mx - 1):
        r = cdrv.serve("gthread", cfg, [b"GET /%d HTTP/1.1\r\nHost: h\r\n\r\n" % i], app, worker=w, eof_dispatch=True)
        ev.append({"e": "resp", "ok": bool(r.wire.startswith(b"HTTP/1.1 200 OK") and r.escaped is None), "pid": 1})
    reached = {k: threading.Event() for k in ("a", "b")}
    go = {k: threading.Event() for k in ("a", "b")}
    res = {}

    def runner(k):
        parked = []

        def local(frame, event, arg):
            if event == "line" and not parked and frame.f_lineno > incline:
                parked.append(1)
                reached[k].set()
                go[k].wait(20)
            return local

        def tracer(frame, event, arg):
            return local if frame.f_code is code else None
        sys.settrace(tracer)
        try:
            res[k] = cdrv.serve("gthread", cfg, [b"GET /%s HTTP/1.1\r\nHost: h\r\n\r\n" % k.encode()], app, worker=w, eof_dispatch=True)
        finally:
            sys.settrace(None)
            reached[k].set()
    ta = threading.Thread(target=runner, args=("a",))
    tb = threading.Thread(target=runner, args=("b",))
    ta.start()
    reached["a"].wait(20)           # a has counted its request (the one that reaches the limit) and not yet compared
    tb.start()
    reached["b"].wait(20)           # b has counted the next one
    go["a"].set()
    ta.join(30)
    go["b"].set()
    tb.join(30)
    for k in ("a", "b"):
        r = res.get(k)
        ev.append({"e": "resp", "ok": bool(r is not None and r.wire.startswith(b"HTTP/1.1 200 OK") and r.escaped is None), "pid": 1})
    ev.append({"e": "end", "alive": [1] if w.alive else [2], "initial": [1]})
    # (one request was in flight beside the one that reached the limit)
    return {"max": mx, "jit": 0, "allow": 1, "workers": 1, "npids": 2, "initial": [1], "ev": ev}, \
        {"where": "inproc-race", "kind": "gthread", "limit": w.max_requests, "nr": w.nr, "served": mx + 1}


class _Listener:
    def __init__(self, conns):
        self.conns = list(conns)
        self.accepted = 0

    def accept(self):
        if not self.conns:
            raise OSError(errno.EAGAIN, "again")
        self.accepted += 1
        return self.conns.pop(0), ("127.0.0.1", 40000 + self.accepted)

    def setblocking(self, f):
        pass

    def getsockname(self):
        return ("127.0.0.1", 8000)

    def fileno(self):
        return 990


def sync_loop(mx, jit, nconn, seed, nlisteners=1):
    """the real SyncWorker.run() over a scripted listener holding nconn pending connections"""
    from gunicorn.workers.sync import SyncWorker
    from gunicorn import util
    import gunicorn.workers.base as wbase
    calls = []

    def app(environ, start_response):
        calls.append(1)
        start_response("200 OK", [("Content-Length", "2")])
        return [b"ok"]
    old = wbase.randint
    wbase.randint = lambda a, b: _random.Random(seed).randint(a, b)
    try:
        cfg = cdrv.make_cfg(max_requests=mx, max_requests_jitter=jit)
        w = cdrv.make_worker("sync", cfg, app)
    finally:
        wbase.randint = old
    socks = [cdrv.FakeSock([b"GET /%d HTTP/1.1\r\nHost: h\r\n\r\n" % i]) for i in range(nconn)]
    if nlisteners == 1:
        lsts = [_Listener(socks)]
    else:
        lsts = [_Listener(socks[k::nlisteners]) for k in range(nlisteners)]
    lst = lsts[0]
    w.sockets = lsts
    w.PIPE = [991, 992]
    w.wait_fds = lsts + [991]
    w.notify = lambda: None
    w.ppid = os.getppid()
    old_select, old_coe = _select.select, util.close_on_exec
    state = {"idle": 0}

    def fake_select(r, wl, x, t=None):
        ready = [l for l in lsts if l.conns]
        if ready and nlisteners > 1:
            return (ready, [], [])
        # nothing pending: the loop would sleep; after two idle rounds stop the worker (parent check)
        state["idle"] += 1
        if state["idle"] > 2:
            w.alive = False
        return ([], [], [])
    _select.select = fake_select
    util.close_on_exec = lambda fd: None
    try:
        w.run()
    finally:
        _select.select = old_select
        util.close_on_exec = old_coe
    ev = []
    accepted = sum(l.accepted for l in lsts)
    for s in [x for x in socks if x.nrecv > 0 or x.wire]:
        ok = bytes(s.wire).startswith(b"HTTP/1.1 200 OK") and bytes(s.wire).endswith(b"ok") and s.closed
        ev.append({"e": "resp", "ok": bool(ok), "pid": 1})
    recycled = mx > 0 and accepted < nconn
    ev.append({"e": "end", "alive": [2] if recycled else [1], "initial": [1]})
    return {"max": mx, "jit": jit, "allow": 0, "workers": 1, "npids": 2, "initial": [1], "ev": ev}, \
        {"where": "syncloop%d" % nlisteners, "limit": w.max_requests, "accepted": accepted, "nconn": nconn}


# ---------------------------------------------------------------------------------------------
# real processes

def real_run(wk, mx, jit, mode, nreq, seed, bind="tcp"):
    rng = _random.Random(seed)
    args = ["--max-requests", str(mx), "--max-requests-jitter", str(jit), "--graceful-timeout", "5", "--keep-alive", "2"]
    if mode == "parked":
        args[-1] = "6"
    if mode == "ka0":
        args[-1] = "0"
    port2 = rp.free_port() if mode == "twolisten" else None
    if port2:
        args += ["-b", "127.0.0.1:%d" % port2]
    if mode == "drain":
        args += ["--timeout", "2"]
        args[args.index("--graceful-timeout") + 1] = "12"
    nworkers = 1 if mode in ("burst", "parked", "drain", "twolisten", "ka0", "bodiless", "slowhead") else 2
    s = rp.Server(wk, workers=nworkers, threads=(1 if mode == "burst" else 2) if wk == "gthread" else None, args=args, name="c18",
                  bind=bind)
    pids = {}
    ev = []
    lock = threading.Lock()

    def pid_id(p):
        with lock:
            return pids.setdefault(p, len(pids) + 1)
    try:
        s.start()
        initial = s.wait_booted(nworkers)
        for p in initial:
            pid_id(p)

        def one(path, port=None):
            try:
                st, body, info = s.get(path, timeout=8.0, port=port)
                pid, _ = rp.parse_ident(body)
                ok = st == 200 and pid is not None and info["complete"]
                rec = {"e": "resp", "ok": bool(ok), "pid": pid_id(pid) if pid else 0}
                if not ok:
                    rec["why"] = "status=%s closed=%s reset=%s timeout=%s" % (st, info["closed"], info["reset"], info["timeout"])
            except OSError as e:
                rec = {"e": "resp", "ok": False, "pid": 0, "why": "connect:%s" % errno.errorcode.get(e.errno, e)}
            with lock:
                ev.append(rec)
        allow = 0
        if nworkers == 1:
            # the start-up probe of the driver was this worker's first request
            ev.append({"e": "resp", "ok": True, "pid": pid_id(initial[0])})
        if mode == "seq":
            for i in range(nreq):
                one("/pid")
                if rng.random() < 0.2:
                    time.sleep(0.05)
        elif mode == "parked":
            # a kept-alive connection is parked in the worker while another client takes it to the limit; the parked
            # one may have one more request answered (it was there already), after that the old worker is gone for it
            allow = 1
            a = s.connect(timeout=8)

            def on_a():
                try:
                    st, body, info = s.get("/pid", sock=a, keepalive=True, timeout=4)
                    pid, _ = rp.parse_ident(body)
                    ok = st == 200 and pid is not None and info["complete"]
                    return {"e": "resp", "ok": bool(ok), "pid": pid_id(pid) if pid else 0}, info
                except OSError:
                    return None, {"closed": True}
            rec, info = on_a()
            ev.append(rec or {"e": "resp", "ok": False, "pid": 0, "why": "parked connection: first request"})
            for i in range(mx - 2):          # the start-up probe and the parked connection's request count too
                one("/pid")
            time.sleep(1.6)                  # (the async workers' accept loop notices the limit within its 1 s tick)
            for i in range(nreq):
                rec, info = on_a() if a is not None else (None, None)
                if rec is None or not rec["ok"]:
                    # the old worker closed the parked connection, as it should: carry on like a new client
                    if a is not None:
                        a.close()
                        a = None
                    one("/pid")
                else:
                    ev.append(rec)
                    if info.get("closed"):
                        a.close()
                        a = None
            if a is not None:
                a.close()
        elif mode == "drain":
            # a request longer than --timeout is in flight when the limit is reached: the draining worker must be left
            # alone (and keep its heartbeat) until the request is answered
            allow = 1
            th = threading.Thread(target=one, args=("/sleep?t=5",))
            th.start()
            time.sleep(0.3)
            for i in range(mx - 1):
                one("/pid")
            th.join()
        elif mode == "slowhead":
            # a connection accepted before the limit sends the end of its request head only after the worker has reached
            # the limit and closed its listeners: the request is answered all the same (by the old worker, as one request
            # beyond the limit, or -- had the worker not read a byte of it -- never by nobody)
            allow = 1
            a = s.connect(timeout=10)
            a.sendall(b"GET /pid HTTP/1.1\r\nHost: h\r\nConnection: close\r\nX-Slow: ")
            time.sleep(0.3)
            for i in range(mx - 1):
                one("/pid")
            time.sleep(1.6)
            try:
                a.sendall(b"yes\r\n\r\n")
                st, body, info = rp.read_response(a)
                pid, _ = rp.parse_ident(body)
                ok = st == 200 and pid is not None and info["complete"]
                rec = {"e": "resp", "ok": bool(ok), "pid": pid_id(pid) if pid else 0}
                if not ok:
                    rec["why"] = "slow head: status=%s closed=%s reset=%s" % (st, info["closed"], info["reset"])
            except OSError as e:
                rec = {"e": "resp", "ok": False, "pid": 0, "why": "slow head: %s" % e}
            ev.append(rec)
            a.close()
            for i in range(nreq):
                one("/pid")
        elif mode == "ka0":
            # keep-alive switched off: the limit applies all the same (requests paced so that a connection is not made
            # in the second in which the worker leaves)
            for i in range(nreq):
                one("/pid")
                time.sleep(1.2)
        elif mode == "bodiless":
            # one keep-alive client whose requests are answered without a body (304 Not Modified): the response that
            # reaches the limit must still close the connection; the client then carries on like a new client
            a = None
            for i in range(nreq):
                try:
                    if a is None:
                        a = s.connect(timeout=8)
                    # (alternating with the WSGI exc_info pattern: a second start_response replaces the first before any output)
                    path = "/gen?status=304&who=1" if i % 2 == 0 else "/gen?status=200&sizes=2&cl=2&who=1&excinfo=1"
                    st, body, info = s.get(path, sock=a, keepalive=True, timeout=4)
                    pid = int(info.get("headers", {}).get("x-worker", 0) or 0)
                    ok = st in (304, 200) and pid and info["complete"]
                    if ok:
                        ev.append({"e": "resp", "ok": True, "pid": pid_id(pid)})
                    closing = (not ok) or info.get("headers", {}).get("connection", "").lower() == "close"
                except OSError:
                    ok, closing = False, True
                if closing:
                    a.close()
                    a = None
                    time.sleep(1.6)         # (the async workers' accept loop notices the limit within its 1 s tick)
                    if not ok:
                        one("/pid")
            if a is not None:
                a.close()
        elif mode == "mstop":
            # the master is not scheduled (SIGSTOP) while both workers reach their limit and exit: one SIGCHLD stands for
            # both; once it runs again it must reap and replace both
            os.kill(s.pid, signal.SIGSTOP)
            try:
                for i in range(nreq):
                    time.sleep(0.4)              # (a worker that has just answered its last request exits within milliseconds)
                    if all(rp.proc_state(p) in (None, "Z") for p in initial):
                        break
                    one("/pid")
            finally:
                os.kill(s.pid, signal.SIGCONT)
            time.sleep(1.5)
        elif mode == "twolisten":
            # two listeners: a long request on the first one takes the worker to its limit; a client of the second
            # listener that arrives two seconds later belongs to the replacement
            th = threading.Thread(target=one, args=("/sleep?t=4",))
            th.start()
            time.sleep(2.0)
            one("/pid", port2)
            th.join()
        elif mode == "burst":
            # more requests than handler threads arrive before the limit is reached: those queued for a thread are
            # in flight when the worker stops accepting
            allow = nreq
            ths = [threading.Thread(target=one, args=("/sleep?t=0.5",)) for _ in range(nreq)]
            for t in ths:
                t.start()
                time.sleep(0.05)
            [t.join() for t in ths]
        else:
            conc = 3
            allow = conc          # requests of the other clients may already be in flight
            ths = [threading.Thread(target=lambda: [one("/sleep?t=0.03") for _ in range(nreq // conc)]) for _ in range(conc)]
            [t.start() for t in ths]
            [t.join() for t in ths]
        time.sleep(2.6)     # quiescent tail: supervisor loops run at 1 s, master loop at 1 s
        alive = [pid_id(p) for p in s.workers() if rp.proc_state(p) not in (None, "Z")]
        ev.append({"e": "end", "alive": sorted(alive), "initial": sorted(pid_id(p) for p in initial)})
        tr = {"max": mx, "jit": jit, "allow": allow, "workers": nworkers, "npids": max(len(pids), 1),
              "initial": sorted(pid_id(p) for p in initial), "ev": ev}
        return tr, {"where": ("real-" + mode if mode in ("burst", "parked", "drain", "twolisten", "ka0", "bodiless", "mstop", "slowhead") else "real") + ("-unix" if bind == "unix" else ""), "wk": wk, "mode": mode, "nreq": nreq,
                    "fails": [e.get("why") for e in ev if e.get("e") == "resp" and not e["ok"]][:3]}
    finally:
        s.cleanup()


def c18(ctx):
    rng = ctx.rng
    for fam in ("sync", "gthread", "async"):
        for mx in ((0, 2) if ctx.quick else (0, 1, 2, 3)):
            model(ctx, fam, mx)
    model(ctx, "async", 2, dev=["AsyncAcceptsUntilPoll"], expect_ok=False)
    model(ctx, "gthread", 2, dev=["GthreadDropsUndispatched"], expect_ok=False)
    model(ctx, "async", 2, dev=["KeepAliveAfterLimit"], expect_ok=False, reqs=3, conns=2)
    ctx.coverage["exhaustive"] = True
    traces, metas = [], []
    for kind in ("sync", "gthread", "async"):
        for mx in (0, 1, 2, 3, 5):
            for jit in (0, 1, 3):
                t, m = inproc_counting(kind, mx, jit, 12, rng.randrange(10 ** 6))
                traces.append(t)
                metas.append(m)
                t, m = inproc_counting(kind, mx, jit, 12, rng.randrange(10 ** 6), failing=True)
                traces.append(t)
                metas.append(m)
    # two pool threads of the threaded worker count their requests before either compares the count with the limit
    nrace = 0
    for mx in (1, 2, 3, 5):
        tm = inproc_race(mx, rng.randrange(10 ** 6))
        if tm is not None:
            traces.append(tm[0])
            metas.append(tm[1])
            nrace += 1
    ctx.coverage["forced_thread_interleavings"] = nrace
    for mx in (0, 1, 2, 3, 7):
        for jit in (0, 2):
            for nl in (1, 2, 3):
                t, m = sync_loop(mx, jit, 12, rng.randrange(10 ** 6), nlisteners=nl)
                traces.append(t)
                metas.append(m)
    plan = [("sync", 3, 0, "seq", 14), ("gthread", 3, 0, "seq", 14), ("gevent", 3, 0, "seq", 14), ("sync", 0, 0, "seq", 10),
            ("gthread", 3, 0, "burst", 4),     # the start-up probe is the worker's first request
            ("gevent", 4, 0, "parked", 4), ("gevent", 3, 0, "drain", 0),
            ("eventlet", 2, 0, "twolisten", 0), ("gthread", 3, 0, "ka0", 6),
            # a unix-socket bind: the path must stay connectable through the recycling
            ("gthread", 3, 0, "ka0", 6, "unix"), ("eventlet", 3, 0, "ka0", 6, "unix"),
            ("gevent", 3, 0, "bodiless", 8), ("gevent", 4, 0, "bodiless", 8), ("sync", 2, 0, "mstop", 8),
            ("gevent", 3, 0, "slowhead", 2), ("eventlet", 3, 0, "slowhead", 2)]
    if not ctx.quick:
        plan += [("gevent", 2, 0, "twolisten", 0), ("gthread", 2, 0, "twolisten", 0), ("sync", 2, 0, "twolisten", 0),
                 ("sync", 3, 0, "ka0", 6), ("gevent", 3, 0, "ka0", 6), ("sync", 3, 0, "ka0", 6, "unix"), ("gevent", 3, 0, "ka0", 6, "unix"),
                 ("eventlet", 3, 0, "bodiless", 8), ("gthread", 3, 0, "bodiless", 8), ("gevent", 5, 1, "bodiless", 12), ("eventlet", 4, 0, "parked", 4), ("gthread", 4, 0, "parked", 4), ("eventlet", 3, 0, "drain", 0), ("gthread", 3, 0, "drain", 0),
                 ("gthread", 3, 0, "slowhead", 2), ("gevent", 2, 0, "slowhead", 3),
                 ("sync", 3, 0, "burst", 4), ("gevent", 3, 0, "burst", 4), ("eventlet", 3, 0, "burst", 4), ("gthread", 2, 0, "burst", 3)]
        plan += [(wk, mx, jit, mode, 24) for wk in ("sync", "gthread", "gevent", "eventlet")
                 for (mx, jit) in ((1, 0), (2, 1), (4, 2), (0, 0)) for mode in ("seq", "conc")]
    results = [None] * len(plan)

    def runner(i):
        wk, mx, jit, mode, n = plan[i][:5]
        try:
            results[i] = real_run(wk, mx, jit, mode, n, ctx.seed * 100 + i, bind=plan[i][5] if len(plan[i]) > 5 else "tcp")
        except Exception as e:   # noqa  (machinery)
            results[i] = e
    par = 12
    for base in range(0, len(plan), par):
        ths = [threading.Thread(target=runner, args=(i,)) for i in range(base, min(base + par, len(plan)))]
        [t.start() for t in ths]
        [t.join() for t in ths]
    first_real = len(traces)
    for i, r in enumerate(results):
        if isinstance(r, Exception):
            raise r
        traces.append(r[0])
        metas.append(dict(r[1], plan_index=i))
    ctx.coverage["real_process_runs"] = len(plan)
    # the sync worker's loop against specs/SyncLoop.tla, with max_requests: the limit counts for every listener
    from props import syncloop
    syncloop.model_traces(ctx, {"StopsAtLimit"}, "C18")
    verdicts, stats = tlc.validate_batch("RecycleTrace", "RecycleTrace.cfg", traces, name="RecycleTrace_C18")
    ctx.add_traces(len(traces), stats)
    # a real-process run that fails is repeated once (same arguments): what is reported is what fails both times -- the
    # runs depend on the wall clock, a verdict must not depend on how busy the machine was
    again = [k for k in range(first_real, len(traces)) if verdicts[k][0] != "ok"]
    if again:
        for k in again:
            plan_i = metas[k]["plan_index"]
            results[plan_i] = None
            runner(plan_i)
            if isinstance(results[plan_i], Exception):
                raise results[plan_i]
        v2, _ = tlc.validate_batch("RecycleTrace", "RecycleTrace.cfg", [results[metas[k]["plan_index"]][0] for k in again],
                                   name="RecycleTrace_C18_again")
        unconfirmed = 0
        for k, (vv, st) in zip(again, v2):
            if vv == "ok":
                ctx.notes.append("real-process run %s failed once (%s) and passed when repeated: not reported"
                                 % (list(plan[metas[k]["plan_index"]]), verdicts[k][0]))
                verdicts[k] = ("ok", 0)
                unconfirmed += 1
            else:
                traces[k], metas[k] = results[metas[k]["plan_index"]][0], dict(results[metas[k]["plan_index"]][1], plan_index=metas[k]["plan_index"])
                verdicts[k] = (vv, st)
        ctx.coverage["real_process_runs_repeated"] = {"repeated": len(again), "passed_when_repeated": unconfirmed}
    for t, m, (v, step) in zip(traces, metas, verdicts):
        if v == "ok":
            continue
        fam = m.get("wk") or m.get("kind") or "sync"
        fam = {"gevent": "async", "eventlet": "async"}.get(fam, fam)
        where = m["where"]
        if where in ("real-burst", "real-drain") and fam == "gthread" and not (where == "real-burst" and t["max"] == 3):
            # (the threaded worker's recorded defect - connections accepted at the limit are not dispatched - shows in
            # these configurations too; they are listed with the configuration, the burst run with max = 3 is not)
            where += ",max=%d" % t["max"]
        sig = "C18/%s/family=%s/%s" % (v, fam, where)
        ctx.violation(sig, "%s: %s max=%s jit=%s events=%s" % (v, json.dumps(m), t["max"], t["jit"], json.dumps(t["ev"])[:400]),
                      {"trace": t, "meta": m})
    for t, m in list(zip(traces, metas))[:1] + list(zip(traces, metas))[-2:]:
        ctx.sample({"meta": m, "max": t["max"], "jit": t["jit"], "events": t["ev"][:8]})
    ctx.assumptions += ["real-process runs: 2 workers, loopback TCP, quiescent tail 2.6 s before the process table is read",
                        "closing an idle keep-alive connection at recycling is not a drop (mode parked: its client carries on like a new client)"]


def replay(ctx, data):
    print(json.dumps(data["case"]["meta"]), json.dumps(data["case"]["trace"])[:1500])
    verdicts, _ = tlc.validate_batch("RecycleTrace", "RecycleTrace.cfg", [data["case"]["trace"]], name="RecycleTrace_replay")
    print("verdict:", verdicts[0])
    return 1 if verdicts[0][0] != "ok" else 0


CHECKS = {"C18": c18}
