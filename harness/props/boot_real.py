"""C03, last clause, on real processes: workers that cannot boot stop the whole server with a distinct exit status.
Judged by TLC against specs/BootTrace.tla."""
import os
import subprocess
import time

import tlc
from drivers import realproc as rp

SCENARIOS = {
    # name -> (config text, extra args, application, environment)
    "app_import_raises": ("", [], "vapp:app", "flag"),
    "app_object_missing": ("", [], "vapp:no_such_object", None),
    "post_worker_init_raises": ("def post_worker_init(worker):\n    raise RuntimeError('hook')\n", [], "vapp:app", None),
    "post_fork_raises": ("def post_fork(server, worker):\n    raise RuntimeError('hook')\n", [], "vapp:app", None),
    "pre_request_ok_control": None,      # placeholder (not run)
}
WINDOW = 8.0


def run_boot(wk, scenario, workers=2, ignsig=False):
    conf, args, appname, envkind = SCENARIOS[scenario]
    s = rp.Server(wk, workers=workers, threads=2 if wk == "gthread" else None, args=list(args), name="c03boot")
    try:
        # the scenario's hooks replace the marker hooks of the driver (post_worker_init is one of them)
        with open(s.cfgfile, "w") as f:
            f.write(conf)
        flag = os.path.join(s.dir, "broken.flag")
        env = dict(s.env)
        if envkind == "flag":
            open(flag, "w").close()
            env["VERIF_BROKEN_FLAG"] = flag
        cmd = list(s.cmd)
        cmd[-1] = appname
        t0 = time.time()
        # (an exception escaping the master's main loop is printed on stderr, not in the error log)
        errp = os.path.join(s.dir, "stderr.txt")
        with open(errp, "w") as ferr:
            p = subprocess.Popen(cmd, cwd=rp.REPO, env=env, stdout=subprocess.DEVNULL, stderr=ferr,
                                 preexec_fn=rp.ignore_master_signals if ignsig else None)
            try:
                status = p.wait(WINDOW)
            except subprocess.TimeoutExpired:
                status = -1
        elapsed = int((time.time() - t0) * 1000)
        log = s.errlog()
        try:
            with open(errp) as f:
                log += "\n--- stderr ---\n" + f.read()
        except OSError:
            pass
        forks = log.count("Booting worker with pid")
        if status == -1:
            for c in rp.children_of(p.pid):
                try:
                    os.kill(c, 9)
                except OSError:
                    pass
            p.kill()
            p.wait(5)
        return {"scenario": scenario, "workers": workers, "window_ms": int(WINDOW * 1000),
                "ev": [{"e": "exit", "status": status, "elapsed_ms": elapsed, "forks": forks}]}, \
            {"wk": wk, "scenario": scenario + (",ignsig" if ignsig else ""), "status": status, "forks": forks,
             "log": ("HaltServer " if "HaltServer" in log else "") + log[-500:]}
    finally:
        s.cleanup()


DEPLOY = {
    "plain": [],
    # the statsd instrumentation with tags that are not ASCII (the datagram cannot be built: a warning, nothing more)
    "statsd-tags": ["--statsd-host", "127.0.0.1:9", "--dogstatsd-tags", "env:prod,\u00e9quipe:web"],
    "statsd-prefix": ["--statsd-host", "127.0.0.1:9", "--statsd-prefix", "caf\u00e9"],
    "capture-output": ["--capture-output", "--log-level", "debug"],
}


def run_death(wk, deploy, sig, workers=2, ignsig=False):
    """a worker that has booted is killed by a signal: the master reaps it and starts another one"""
    s = rp.Server(wk, workers=workers, threads=2 if wk == "gthread" else None, args=list(DEPLOY[deploy]), name="c03death", ignsig=ignsig)
    try:
        try:
            s.start()
            first = s.wait_booted(workers)
            os.kill(first[0], sig)
        except RuntimeError:
            # nothing boots under this deployment: the workers die by themselves; judged like a killed worker (the master
            # may stop with a distinct status -- then it is not this scenario's business -- but must not crash)
            if s.proc is not None and s.proc.poll() in (3, 4):
                raise
        time.sleep(3.0)
        mstate = rp.proc_state(s.pid)
        kids = s.workers() if mstate not in (None, "Z") else []
        live = [p for p in kids if rp.proc_state(p) not in (None, "Z")]
        zombies = [p for p in kids if rp.proc_state(p) == "Z"]
        return {"scenario": "death:" + deploy, "workers": workers, "window_ms": 3000,
                "ev": [{"e": "death", "master_alive": mstate not in (None, "Z"), "live": len(live), "zombies": len(zombies)}]}, \
            {"wk": wk, "scenario": "death:%s,sig=%d%s" % (deploy, sig, ",ignsig" if ignsig else ""), "status": None, "forks": None,
             "log": s.errlog()[-600:]}
    finally:
        s.cleanup()


def boot_side(ctx):
    from props.reload_real import _parallel
    names = [n for n in SCENARIOS if SCENARIOS[n]]
    # one worker: deterministic; two workers failing together can hit the recorded finding (HaltServer raised from the
    # SIGCHLD handler while halt() already runs: exit status 1), which is reported under its own signature
    plan = [("sync", n, 1) for n in names] + [("gthread", "post_worker_init_raises", 1), ("sync", "post_worker_init_raises", 2)] \
        if ctx.quick else \
        [(wk, n, k) for wk in ("sync", "gthread", "gevent", "eventlet") for n in names for k in (1, 2)]
    import signal as _signal
    plan += [("sync", "@statsd-tags", _signal.SIGKILL), ("gthread", "@statsd-prefix", _signal.SIGHUP), ("sync", "@plain", _signal.SIGABRT)] \
        if ctx.quick else \
        [(wk, "@" + d, sg) for wk in ("sync", "gthread", "gevent") for d in DEPLOY for sg in (_signal.SIGKILL, _signal.SIGHUP)]

    # the same under a starter that left the master's signals set to "ignore" (inherited across exec: nohup, cron, a wrapper
    # that ignores SIGCHLD): the master installs its handlers whatever it inherited
    plan += [("sync", "app_object_missing", 1, True), ("sync", "@plain", _signal.SIGKILL, True)] if ctx.quick else \
        [(wk, n, 1, True) for wk in ("sync", "gthread") for n in names] + [(wk, "@plain", _signal.SIGKILL, True) for wk in ("sync", "gthread", "gevent")]

    def one(a):
        ign = len(a) > 3 and a[3]
        return run_death(a[0], a[1][1:], a[2], ignsig=ign) if a[1].startswith("@") else run_boot(a[0], a[1], a[2], ignsig=ign)
    results = _parallel(plan, lambda a, i: one(a), par=6)
    traces = [r[0] for r in results]
    metas = [r[1] for r in results]
    verdicts, stats = tlc.validate_batch("BootTrace", "BootTrace.cfg", traces, name="BootTrace_C03")
    ctx.add_traces(len(traces), stats)
    tlc.repeat_failing(ctx, "BootTrace", "BootTrace.cfg", traces, metas, verdicts, range(len(plan)),
                       lambda k: one(plan[k]), "BootTrace_C03")
    ctx.coverage["real_process_boot_failures"] = len(traces)
    for t, m, (v, step) in zip(traces, metas, verdicts):
        if v == "ok":
            continue
        if v == "BootFailureWithoutDistinctStatus" and m["status"] == 1 and t["workers"] > 1 and "HaltServer" in m["log"]:
            sig = "C03/BootFailureWithoutDistinctStatus/real/status=1,exc=HaltServer,workers>1"
        else:
            sig = "C03/%s/real/wk=%s,%s" % (v, m["wk"], m["scenario"])
        ctx.violation(sig, "%s: %s" % (v, m), {"trace": t, "meta": m})
    ctx.sample({"boot_failure": metas[0]["scenario"], "events": traces[0]["ev"]})
    ctx.assumptions += ["real-process boot failures: 2 workers, observation window 8 s"]
