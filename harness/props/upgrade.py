"""C14: binary upgrade (USR2) hands the listening sockets over without a gap.

(D) specs/Upgrade.tla: generations of masters over one set of listening descriptors, pid files and a unix
    socket file; all orderings of USR2 / stop signals to either master with SIGCHLD / promotion steps
    interleaved, for tcp and unix binds;
(C)+(P) real two-master histories (python -m gunicorn from the working tree, USR2 / TERM / QUIT to the old
    or the new master, second USR2, rollback, chained upgrade) under a background client load; pid files,
    socket file, process table and refused connections are recorded at quiescent checkpoints and validated by
    TLC against specs/UpgradeTrace.tla (ops drive the Upgrade actions; C14 clauses judged on the observed
    values; differences from the model state are drift).
"""
import json
import os
import signal
import threading
import time

import tlc
from drivers import realproc as rp

OUT = tlc.OUT

HISTORIES = [
    [("USR2", "a"), ("STOP", "a")],                               # plain upgrade: old leaves, new promoted
    [("USR2", "a"), ("STOP", "b")],                               # rollback
    [("USR2", "a"), ("USR2", "a"), ("STOP", "a")],                # second USR2 while pending is ignored
    [("USR2", "a"), ("STOP", "b"), ("USR2", "a"), ("STOP", "a")],  # rollback, then upgrade again
    [("USR2", "a"), ("STOP", "a"), ("USR2", "b"), ("STOP", "b")],  # chained upgrade a -> b -> c
    [("USR2", "a"), ("USR2", "b"), ("STOP", "a")],                # USR2 to the un-promoted new master is ignored
    [("USR2", "a"), ("STOP", "a"), ("STOP", "b")],                # upgrade, later stop the new one: nothing left
    [("USR2", "a"), ("STOP", "b"), ("STOP", "a")],                # rollback, then stop: nothing left
    [("USR2_EARLY", "a"), ("STOP", "a")],                         # the old master leaves while the new one is still booting
    [("USR2", "a"), ("WINCH", "a"), ("HUP", "a"), ("STOP", "b")],  # 9 (daemon): old workers retired, restored by HUP, rollback
    [("USR2F", "a"), ("USR2", "a"), ("STOP", "a")],               # 10: the new release cannot boot; a later good one can
    [("WINCH", "a"), ("HUP", "a"), ("USR2", "a"), ("STOP", "a")],  # 11 (daemon)
    [("USR2", "a"), ("WINCH", "a"), ("STOP", "b"), ("HUP", "a")],  # 12 (daemon): rollback onto a winched master, then HUP
    [("USR2F", "a"), ("USR2F", "a"), ("STOP", "a")],              # 13
    # 14 (daemon): the documented back-out (retire old workers, stop the new master, HUP), then the next upgrade
    [("USR2", "a"), ("WINCH", "a"), ("STOP", "b"), ("HUP", "a"), ("USR2", "a"), ("STOP", "a")],
    # 15 (daemon): the old master's workers retired and brought back by HUP while the upgrade is pending, then the OLD master leaves
    [("USR2", "a"), ("WINCH", "a"), ("HUP", "a"), ("STOP", "a")],
    # 16: HUP to the old master while the upgrade is pending, a further USR2 (ignored), the old master leaves
    [("USR2", "a"), ("HUP", "a"), ("USR2", "a"), ("STOP", "a")],
]


def read_pid(path):
    if not path or path.startswith("None"):
        return None
    try:
        with open(path) as f:
            return int(f.read().strip() or 0)
    except (OSError, ValueError):
        return None


def run_history(hist, bind, stopsig, wk="sync", nopid=False, extra_args=()):
    """nopid: no pid file is configured; masters are then found through the process table
    extra_args may contain the pseudo-argument "@release": the server runs from a symlinked release directory and
    every USR2 is preceded by a deployment (symlink repointed, previous release removed)"""
    release = "@release" in extra_args
    relcfg = "@relcfg" in extra_args        # -c names the configuration file relative to the start directory, --chdir another directory
    envargs = "@envargs" in extra_args      # the pid file is configured through GUNICORN_CMD_ARGS instead of the command line
    extra_args = tuple(x for x in extra_args if x not in ("@release", "@relcfg", "@envargs"))
    early = any(op == "USR2_EARLY" for op, _ in hist)
    daemon = any(op == "WINCH" for op, _ in hist)
    flag = os.path.join(rp._scratch(), "broken_%d_%d" % (os.getpid(), threading.get_ident()))
    env = {"VERIF_BROKEN_FLAG": flag}
    if early:
        env["VERIF_BOOT_SLEEP"] = "1.5"
    s = rp.Server(wk, workers=1, bind=bind, pidfile=not nopid, daemon=daemon,
                  args=["--graceful-timeout", "3"] + (["--preload"] if early else []) + list(extra_args), env=env, name="c14",
                  release=release, relcfg=relcfg)
    if envargs and "-p" in s.cmd:
        k = s.cmd.index("-p")
        s.env["GUNICORN_CMD_ARGS"] = "--pid %s" % s.cmd[k + 1]
        del s.cmd[k:k + 2]
    masters = {}           # name -> pid
    stop = threading.Event()
    counters = {"refused": 0, "complete": 0, "failed": 0}
    lock = threading.Lock()
    try:
        s.start()
        s.wait_booted(1)
        masters["a"] = s.pid

        def client():
            while not stop.is_set():
                try:
                    st, body, info = s.get("/pid", timeout=4)
                    with lock:
                        counters["complete" if st == 200 and info["complete"] else "failed"] += 1
                except (ConnectionRefusedError, FileNotFoundError):
                    with lock:
                        counters["refused"] += 1
                except OSError:
                    with lock:
                        counters["failed"] += 1
                time.sleep(0.01)
        ths = [threading.Thread(target=client, daemon=True) for _ in range(2)]
        [t.start() for t in ths]

        def alive(name):
            p = masters.get(name)
            return p is not None and rp.proc_state(p) not in (None, "Z")

        def name_of(pid):
            for n, p in masters.items():
                if p == pid:
                    return n
            return "none" if pid is None else "other"

        def checkpoint():
            with lock:
                refused = counters["refused"]
                counters["refused"] = 0
            al = [n for n in ("a", "b", "c") if alive(n)]
            if not al:
                refused = 0        # nobody is supposed to listen any more
            # probe: whose workers answer?
            served = set()

            def probe():
                try:
                    st, body, info = s.get("/pid", timeout=1.5)
                    wp = rp.parse_ident(body)[0]
                    for n in al:
                        if wp in rp.children_of(masters[n]):
                            served.add(n)
                except OSError:
                    pass
            if al:
                pts = [threading.Thread(target=probe) for _ in range(6)]
                [t.start() for t in pts]
                [t.join() for t in pts]
            staffed = set()
            t_end = time.time() + 1.5
            while time.time() < t_end and len(staffed) < len(al):
                kids = {n: [c for c in rp.children_of(masters[n]) if c not in masters.values()] for n in al if n not in staffed}
                booted = set(s.booted())            # (read after the process table: a marker is there once the worker has booted)
                for n, cs in kids.items():
                    if any(c in booted and rp.proc_state(c) not in (None, "Z") for c in cs):
                        staffed.add(n)
                if len(staffed) < len(al):
                    time.sleep(0.02)
            if "--max-requests" in extra_args:
                # (workers come and go: a probe may have been answered by a worker that has left since)
                served |= staffed
            return {"e": "chk", "staffed": sorted(staffed), "alive": al, "base": name_of(read_pid(s.pidfile)), "two": name_of(read_pid(str(s.pidfile) + ".2")),
                    "sock": bool(s.sockpath and os.path.exists(s.sockpath)), "refused": refused, "nmasters": len(al),
                    "serving": sorted(served)}
        ev = [checkpoint()]
        def new_master_by_tree(parent, before):
            # a child of `parent` that is not one of its workers (workers leave a booted.<pid> marker)
            for c in rp.children_of(parent):
                if c not in before and c not in s.booted() and c not in masters.values():
                    return c
            return None

        def find_new(name):
            # the master started by the last USR2 records itself under ".2" (or, once promoted, under the base name)
            if nopid:
                return False
            for path in (s.pidfile + ".2", s.pidfile):
                p = read_pid(path)
                if p and p not in masters.values() and rp.proc_state(p) not in (None, "Z"):
                    masters[name] = p
                    return True
            return False
        pending = None
        for op, m in hist:
            if op == "USR2_EARLY":
                # USR2, and do not wait for the new master to come up (it is still importing the application)
                os.kill(masters[m], signal.SIGUSR2)
                pending = {"a": "b", "b": "c"}[m]
                time.sleep(0.4)
                ev.append({"e": "op", "op": "USR2", "m": m})
                continue
            if op in ("WINCH", "HUP"):
                if alive(m):
                    os.kill(masters[m], signal.SIGWINCH if op == "WINCH" else signal.SIGHUP)
                time.sleep(2.2)
                ev.append({"e": "op", "op": op, "m": m})
                ev.append(checkpoint())
                continue
            if op == "USR2F":
                # the release on disk is broken while the new master boots: it exits by itself (status 3)
                with open(flag, "w") as f:
                    f.write("x")
                kids = set(rp.children_of(masters[m]))
                os.kill(masters[m], signal.SIGUSR2)
                deadline = time.time() + 8
                newp = None
                while time.time() < deadline:
                    now = set(rp.children_of(masters[m])) - kids if alive(m) else set()
                    if newp is None and now:
                        newp = sorted(now)[0]
                    if newp is not None and rp.proc_state(newp) in (None, "Z"):
                        break
                    if not alive(m):
                        break
                    time.sleep(0.05)
                time.sleep(1.6)
                os.unlink(flag)
                ev.append({"e": "op", "op": "USR2F", "m": m})
                ev.append(checkpoint())
                continue
            if op == "USR2":
                before = set(rp.children_of(masters[m])) if alive(m) else set()
                if release:
                    s.switch_release()
                if alive(m):
                    os.kill(masters[m], signal.SIGUSR2)
                # a new master, if any, records itself under ".2" once it is listening
                newname = {"a": "b", "b": "c"}.get(m)
                deadline = time.time() + 4
                while time.time() < deadline:
                    if nopid:
                        p = new_master_by_tree(masters[m], before) if alive(m) else None
                        if p and len(rp.children_of(p)) >= 1:        # it has started its own worker
                            if newname and not alive(newname):
                                masters[newname] = p
                            break
                        time.sleep(0.05)
                        continue
                    p = read_pid(s.pidfile + ".2")
                    if p and p not in masters.values() and rp.proc_state(p) not in (None, "Z"):
                        if newname and not alive(newname):
                            masters[newname] = p
                        break
                    time.sleep(0.05)
                time.sleep(0.8)
            else:
                if alive(m):
                    os.kill(masters[m], stopsig)
                    deadline = time.time() + 8
                    while time.time() < deadline and alive(m):
                        time.sleep(0.05)
                if pending:
                    deadline = time.time() + 8
                    while time.time() < deadline and not find_new(pending):
                        time.sleep(0.05)
                    pending = None
                    time.sleep(1.0)
                time.sleep(1.6)          # SIGCHLD / promotion (main loop period 1 s)
            ev.append({"e": "op", "op": op, "m": m})
            ev.append(checkpoint())
        stop.set()
        [t.join(6) for t in ths]
        tr = {"unix": bind == "unix", "nopid": bool(nopid), "ev": ev}
        return tr, {"hist": hist, "bind": bind, "wk": wk, "nopid": bool(nopid), "extra_args": list(extra_args) + (["@release"] if release else []) + (["@relcfg"] if relcfg else []) + (["@envargs"] if envargs else []), "sig": int(stopsig), "complete": counters["complete"], "failed": counters["failed"],
                    "masters": masters}
    finally:
        stop.set()
        try:
            os.unlink(flag)
        except OSError:
            pass
        for p in masters.values():
            try:
                for c in rp.children_of(p):
                    os.kill(c, signal.SIGKILL)
                os.kill(p, signal.SIGKILL)
            except OSError:
                pass
        s.cleanup()


def up_cfg(label, unix, nsig=7, dev=(), trace=False):
    cfg = os.path.join(OUT, "cfg", "Upgrade_%s.cfg" % label)
    os.makedirs(os.path.dirname(cfg), exist_ok=True)
    if trace:
        tlc.write_cfg(cfg, spec="TSpec", constants={"Unix": unix, "MaxSignals": 100, "Dev": set(dev)},
                      constraints=["Record"], postcondition="Post")
    else:
        tlc.write_cfg(cfg, spec="Spec", constants={"Unix": unix, "MaxSignals": nsig, "Dev": set(dev)},
                      invariants=["ListenRefcountPositive", "SocketFileUsable", "SocketFileRemovedAtLast", "Pid2ThenRename",
                                  "AtMostTwoGenerationsAlive", "RollbackRestores", "ServesUnlessWinched", "DiesOnlyWhenToldTo"],
                      properties=["PromotedOwnsConfiguredName"])
    return cfg


def c14(ctx):
    for unix in (True, False):
        r = tlc.run("Upgrade", up_cfg("design_%s" % unix, unix, nsig=6 if ctx.quick else 9), name="Upgrade_design_%s" % unix,
                    workers=4, timeout=900)
        if not r.ok:
            raise tlc.TLCError("Upgrade design violates %s" % r.violated)
        ctx.add_model(r, "unix=%s" % unix)
    for dev, inv in (("AlwaysUnlink", "SocketFileUsable"), ("NoReexecReset", "RollbackRestores"),
                     ("HupKeepsScale", "ServesUnlessWinched"), ("ChildBootFailureHaltsParent", "DiesOnlyWhenToldTo"),
                     ("HupForgetsUpgrade", "SocketFileUsable"), ("NoRespawnWhilePending", "ServesUnlessWinched")):
        rr = tlc.run("Upgrade", up_cfg("dev_" + dev, True, nsig=5, dev=[dev]), name="Upgrade_dev_" + dev, workers=4, timeout=300)
        ctx.coverage.setdefault("deviation_runs", []).append({"dev": dev, "expected": inv, "reproduced": inv in rr.violated})
    ctx.coverage["exhaustive"] = True
    rng = ctx.rng
    if ctx.quick:
        plan = [(HISTORIES[0], "unix", signal.SIGTERM), (HISTORIES[1], "tcp", signal.SIGQUIT),
                (HISTORIES[2], "tcp", signal.SIGTERM), (HISTORIES[3], "unix", signal.SIGTERM),
                (HISTORIES[4], "tcp", signal.SIGTERM), (HISTORIES[8], "unix", signal.SIGTERM),
                (HISTORIES[9], "tcp", signal.SIGTERM), (HISTORIES[10], "unix", signal.SIGTERM),
                (HISTORIES[4], "unix", signal.SIGTERM, True), (HISTORIES[3], "tcp", signal.SIGQUIT, True),
                (HISTORIES[6], "unix", signal.SIGTERM), (HISTORIES[7], "tcp", signal.SIGQUIT),
                # worker timeouts switched off (--timeout 0): promotion and reaping must not depend on the watchdog's tick
                (HISTORIES[4], "tcp", signal.SIGTERM, False, ("--timeout", "0")),
                (HISTORIES[14], "unix", signal.SIGTERM), (HISTORIES[15], "unix", signal.SIGTERM), (HISTORIES[16], "unix", signal.SIGTERM),
                (HISTORIES[0], "tcp", signal.SIGTERM, False, ("@relcfg",)),
                (HISTORIES[0], "unix", signal.SIGTERM, False, ("@envargs",)),
                # workers are recycled (--max-requests under the client load) while the upgrade is pending
                (HISTORIES[0], "tcp", signal.SIGTERM, False, ("--max-requests", "3")),
                # a "current -> releases/N" deployment: every USR2 follows a switch of the symlink
                (HISTORIES[4], "unix", signal.SIGTERM, False, ("@release",))]
    else:
        plan = [(h, b, sg) for h in HISTORIES for b in ("tcp", "unix") for sg in (signal.SIGTERM, signal.SIGQUIT)]
        plan += [(HISTORIES[k], b, signal.SIGTERM, True) for k in (0, 1, 3, 4, 6, 7) for b in ("tcp", "unix")]
        plan += [(HISTORIES[k], b, signal.SIGTERM, False, ("--timeout", "0")) for k in (0, 1, 3, 4) for b in ("tcp", "unix")]
        plan += [(HISTORIES[k], b, signal.SIGTERM, False, ("@release",)) for k in (0, 1, 3, 4) for b in ("tcp", "unix")]
        plan += [(HISTORIES[k], b, signal.SIGTERM, False, ("--max-requests", "3")) for k in (0, 1, 2, 3) for b in ("tcp", "unix")]
        plan += [(HISTORIES[k], b, signal.SIGTERM, False, ("@envargs",)) for k in (0, 1, 3, 4) for b in ("tcp", "unix")]
        plan += [(HISTORIES[0], "tcp", signal.SIGTERM, False, ("@relcfg",))]
    from props.reload_real import _parallel
    results = _parallel(plan, lambda a, i: run_history(a[0], a[1], a[2], wk=rng.choice(["sync", "gthread"]), nopid=len(a) > 3 and a[3],
                                                           extra_args=a[4] if len(a) > 4 else ()), par=11)
    ctx.coverage["real_process_histories"] = len(results)
    # where a starting master gets its listeners from (specs/Listeners.tla: activation variables, fd:// binds, what is at the
    # unix path, a taken port), followed on real starts (drift only: not a listed property)
    from props import listeners
    listeners.design(ctx)
    listeners.follow(ctx)
    # what each `bind` string means (specs/BindAddr.tla: util.parse_address statement by statement; every string of a few pieces
    # replayed into the real function and through Config.address; drift only)
    from props import bindaddr
    bindaddr.run(ctx)
    for unix in (True, False):
        sel = [(t, m) for t, m in results if t["unix"] == unix]
        if not sel:
            continue
        traces = [t for t, m in sel]
        smetas = [m for t, m in sel]
        verdicts, stats = tlc.validate_batch("UpgradeTrace", up_cfg("trace_%s" % unix, unix, trace=True), traces,
                                             name="UpgradeTrace_%s" % unix)
        ctx.add_traces(len(traces), stats)

        def rerun(k):
            m = smetas[k]
            return run_history([tuple(x) for x in m["hist"]], m["bind"], m["sig"], wk=m.get("wk", "sync"), nopid=bool(m.get("nopid")),
                               extra_args=tuple(m.get("extra_args") or ()))
        tlc.repeat_failing(ctx, "UpgradeTrace", up_cfg("trace_%s" % unix, unix, trace=True), traces, smetas, verdicts,
                           range(len(traces)), rerun, "UpgradeTrace_%s" % unix)
        sel = list(zip(traces, smetas))
        for (t, m), (v, step) in zip(sel, verdicts):
            if v == "ok":
                continue
            if v == "DRIFT":
                ctx.note_drift("Upgrade model not followed at step %d: hist=%s bind=%s events=%s" % (step, m["hist"], m["bind"], t["ev"]))
                continue
            ops = "+".join("%s:%s" % (o, x) for o, x in m["hist"][:max(1, step // 2)])
            ctx.violation("C14/%s/bind=%s%s%s/%s" % (v, m["bind"], ",no-pidfile" if m.get("nopid") else "",
                                                      "," + " ".join(m["extra_args"]) if m.get("extra_args") else "", ops), "%s: %s events=%s" % (v, m, t["ev"]), {"trace": t, "meta": m})
    for t, m in results[:2]:
        ctx.sample({"history": m["hist"], "bind": m["bind"], "requests_completed": m["complete"], "events": t["ev"]})
    ctx.assumptions += ["real two-master runs: checkpoints taken 0.8 s after USR2 and 1.6 s after a stop (main-loop period 1 s)",
                        "simultaneous TERM to both masters (deviation StopBeforePromote) is outside the sequential histories replayed"]


def replay(ctx, data):
    m = data["case"]["meta"]
    t, m2 = run_history([tuple(x) for x in m["hist"]], m["bind"], m["sig"], nopid=bool(m.get("nopid")),
                        extra_args=m.get("extra_args") or ())
    print(json.dumps(t))
    verdicts, _ = tlc.validate_batch("UpgradeTrace", up_cfg("trace_replay", t["unix"], trace=True), [t], name="UpgradeTrace_replay")
    print("verdict:", verdicts[0])
    return 1 if verdicts[0][0] not in ("ok", "DRIFT") else 0


CHECKS = {"C14": c14}
