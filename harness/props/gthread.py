"""C13 -- threaded worker accounts for every connection and never stops serving.

(D) specs/GThread.tla: the intended design (Dev = {}) must satisfy the accounting / close
    invariants (safety configs over threads x worker_connections x keepalive, with TERM, parent
    death, handler crash and cancel faults) and the liveness properties ServedIfThreadFree,
    EventuallyClosed, ReturnsToZero, ReapedWhenExpired under fairness; with the deviations of the
    current tree on, TLC must reproduce the expected liveness counterexample.
(C) spec -> code: TLC -simulate behaviours of GThread (deviations of the current tree on) are
    replayed step by step into the REAL ThreadWorker (drivers/gthread.py) and the projected state
    (nr_conns, _keep + deadlines, futures, poller registrations, closed flags, alive) compared
    after every action: a mismatch is drift.  code -> spec: seeded random schedules and explicit
    scenario scripts.
(P) every recorded run is judged by TLC against specs/GThreadTrace.tla (the property and
    nothing else).  Only a (P) failure is a violation.
"""
import copy
import os
import random
import re
from collections import Counter
from concurrent.futures import ThreadPoolExecutor

import tlc
from drivers import gthread as drv

OUT = tlc.OUT
CURRENT_TREE_DEV = ["GateStopsPolling", "DropUndispatchedOnExit"]
SAFETY_INV = ["TypeOK", "ConnAccounting", "NeverExceedMax", "NoDoubleClose", "KeepAliveNotBefore", "KeepIdle"]
LIVENESS = ["ServedIfThreadFree", "EventuallyClosed", "ReturnsToZero", "ReapedWhenExpired"]
EXPECTED_DEV_LIVENESS = {"ServedIfThreadFree", "EventuallyClosed", "ReturnsToZero"}
_RE_TEMPORAL = re.compile(r"Error: Temporal propert(?:y|ies) (.*?) (?:was|were) violated")


# ---------------------------------------------------------------------------------------------
# (D) design
# ---------------------------------------------------------------------------------------------

def model_cfg(name, dev=(), threads=1, wc=2, ka=2, nconn=2, maxreq=1, faults=0, term=True, live=False,
              obs=False, invariants=None, props=None, fine=True, liveprops=None):
    path = os.path.join(OUT, "cfg", name + ".cfg")
    os.makedirs(os.path.dirname(path), exist_ok=True)
    inv = list(invariants if invariants is not None else SAFETY_INV)
    tlc.write_cfg(path, spec="Spec" if live else "SafetySpec",
                  constants={"Threads": threads, "WC": wc, "KA": ka, "NConn": nconn, "MaxReq": maxreq,
                             "Faults": faults, "AllowTerm": term, "Fine": fine, "Dev": set(dev), "Obs": obs,
                             "MaxLevel": 600},
                  invariants=inv,
                  properties=(props if props is not None else ["NoCloseWhileHandled", "NoPendingDroppedAtExit"])
                  + ((liveprops if liveprops is not None else LIVENESS) if live else []),
                  constraints=["LevelBound"])
    return path


def run_tlc(name, cfg, workers, timeout=1500):
    """-> (TLCResult or None, violated names).  This TLC names the violated temporal properties
    ('Temporal properties A, B, and C were violated'), which harness/tlc.py does not parse and
    reports as a machinery failure; read them from the saved output."""
    try:
        r = tlc.run("GThread", cfg, name=name, workers=workers, timeout=timeout)
        return r, list(r.violated)
    except tlc.TLCError:
        p = os.path.join(OUT, "tlc", name, "tlc.out")
        out = open(p).read() if os.path.exists(p) else ""
        m = _RE_TEMPORAL.search(out)
        if not m:
            raise
        names = [x for x in re.split(r",\s*|\s+and\s+|\s+", m.group(1).replace(", and ", ", ")) if x and x != "and"]
        return None, names


def design_jobs(ctx):
    """(label, kwargs, workers, expectation) -- expectation None: must pass (design);
    otherwise the set of properties / invariants the run must report violated."""
    jobs = []
    if ctx.quick:
        jobs.append(("live_design", dict(live=True, term=False), 2, None))
        jobs.append(("live_asis", dict(live=True, term=False, dev=CURRENT_TREE_DEV, props=["NoCloseWhileHandled"]), 2, EXPECTED_DEV_LIVENESS))
        jobs.append(("safe_t1w2k2", dict(faults=1), 3, None))
        jobs.append(("safe_t2w3k2", dict(threads=2, wc=3, faults=1), 3, None))
        jobs.append(("safe_t1w1k0", dict(wc=1, ka=0, faults=1), 2, None))
        jobs.append(("safe_t2w2k0_n3", dict(threads=2, wc=2, ka=0, nconn=3), 3, None))
        jobs.append(("safe_asis", dict(threads=2, wc=3, dev=CURRENT_TREE_DEV, props=["NoCloseWhileHandled"]), 2, None))
        jobs.append(("drop_asis", dict(dev=["DropUndispatchedOnExit"], invariants=[], props=["NoPendingDroppedAtExit"]),
                     2, {"NoPendingDroppedAtExit"}))
        jobs += REGFIRST_JOBS
    else:
        jobs.append(("live_design", dict(live=True, term=True), 2, None))
        jobs.append(("live_design_t2", dict(live=True, term=False, threads=2, wc=3), 2, None))
        jobs.append(("live_design_w1", dict(live=True, term=False, wc=1), 2, None))
        jobs.append(("live_asis", dict(live=True, term=False, dev=CURRENT_TREE_DEV, props=["NoCloseWhileHandled"]), 2, EXPECTED_DEV_LIVENESS))
        for t in (1, 2):
            for w in (1, 2, 3):
                for k in (0, 2):
                    jobs.append(("safe_t%dw%dk%d" % (t, w, k),
                                 dict(threads=t, wc=w, ka=k, faults=1, maxreq=2), 3, None))
        jobs.append(("safe_t1w2k2_n3", dict(nconn=3), 4, None))
        jobs.append(("safe_t2w2k0_n3", dict(threads=2, wc=2, ka=0, nconn=3), 3, None))
        jobs.append(("safe_asis", dict(threads=2, wc=3, faults=1, dev=CURRENT_TREE_DEV, props=["NoCloseWhileHandled"]), 3, None))
        jobs.append(("drop_asis", dict(dev=["DropUndispatchedOnExit"], invariants=[], props=["NoPendingDroppedAtExit"]),
                     2, {"NoPendingDroppedAtExit"}))
        jobs += REGFIRST_JOBS
    return jobs


# the keep-alive completion as two steps (FinishKeepA/B): the design holds the lock across them; the
# hypothetical defect "register first, outside the lock" loses a readable event (lasso), which the
# fine-grained harness mode must be able to see on real code
REGFIRST = ["RegisterBeforeAppendUnlocked"]
REGFIRST_JOBS = [
    ("live_design_2req", dict(live=True, term=False, nconn=1, maxreq=2), 1, None),
    ("live_regfirst", dict(live=True, term=False, nconn=1, maxreq=2, dev=REGFIRST, invariants=[], props=[],
                           liveprops=["ServedIfThreadFree"]), 1, {"ServedIfThreadFree"}),
    ("safe_regfirst", dict(nconn=1, maxreq=2, dev=REGFIRST, props=[]), 1, {"KeepIdle"}),
]


def run_design(ctx, jobs):
    def one(job):
        label, kw, workers, expect = job
        cfg = model_cfg("GThread_" + label, **kw)
        r, violated = run_tlc("GThread_" + label, cfg, workers)
        return label, kw, expect, r, violated
    out = []
    with ThreadPoolExecutor(max_workers=max(1, len(jobs)) if ctx.quick else 5) as ex:
        for label, kw, expect, r, violated in ex.map(one, jobs):
            out.append((label, kw, expect, r, violated))
    return out


def account_design(ctx, results):
    for label, kw, expect, r, violated in results:
        if expect is None:
            if violated or r is None or not r.ok:
                raise tlc.TLCError("design model GThread/%s (Dev = {}) violates %s" % (label, violated))
            ctx.add_model(r, "GThread/" + label)
        else:
            ok = expect <= set(violated)
            ctx.coverage.setdefault("deviation_runs", []).append(
                {"label": label, "dev": kw.get("dev"), "expected": sorted(expect), "violated": violated,
                 "reproduced": ok})
            if not ok:
                ctx.note_drift("model with deviations %s no longer violates %s (got %s)"
                               % (kw.get("dev"), sorted(expect), violated))


# ---------------------------------------------------------------------------------------------
# schedules
# ---------------------------------------------------------------------------------------------

PARAMS = [(t, w, k) for t in (1, 2) for w in (1, 2, 3) for k in (0, 2)]


def params(t, w, k, nconn=3):
    return {"threads": t, "wc": w, "ka": k, "nconn": nconn, "maxreq": 2}


def serve(c):
    """script items that run the job of c to completion, one step per loop iteration"""
    return [["sweep", [["start", c]]], ["parent", [["handle", c]]], ["parent", [["finish", c]]]]


def scenarios():
    """explicit scenario scripts: (name, params, script).  Steps that are not enabled when their
    item is reached are skipped, so one script serves every parameter triple."""
    out = []
    for t, w, k in PARAMS:
        p = params(t, w, k)
        # the connection count reaches worker_connections with an empty pool, then a request
        # arrives on an idle connection
        fill = [["loop", [["connect", c] for c in range(1, w + 1)]]] + [["loop", []] for _ in range(w)]
        out.append(("gate-full-then-request", p, fill + [["loop", [["send", 1, "k"]]]] + [["loop", []]] * 5))
        # ... with a handler still busy on another connection (needs a second thread)
        if t >= 2 and w >= 2:
            out.append(("gate-full-pool-busy", p,
                        [["loop", [["connect", 1], ["send", 1, "k"]]], ["loop", []], ["wait0", [["start", 1]]]]
                        + [["loop", [["connect", c]]] for c in range(2, w + 1)]
                        + [["loop", [["send", 2, "k"]]]] + [["loop", []]] * 5 + [["loop", [["handle", 1], ["finish", 1]]]]))
        # below the limit: connect, request, response, keep-alive, second request, leave
        out.append(("keepalive-two-requests", p,
                    [["loop", [["connect", 1], ["send", 1, "k"]]], ["loop", []]] + serve(1)
                    + [["loop", [["send", 1, "k"]]]] + serve(1) + [["loop", [["leave", 1]]]]))
        # the client leaves while its request is running
        out.append(("leave-while-running", p,
                    [["loop", [["connect", 1], ["send", 1, "k"]]], ["loop", []], ["wait0", [["start", 1]]],
                     ["parent", [["leave", 1]]], ["loop", []], ["loop", [["handle", 1]]], ["loop", [["finish", 1]]]]))
        out.append(("leave-while-running-epipe", p,
                    [["loop", [["connect", 1], ["send", 1, "k"]]], ["loop", []], ["wait0", [["start", 1]]],
                     ["parent", [["leave", 1], ["failsend", 1]]], ["loop", [["handle", 1]]], ["loop", [["finish", 1]]]]))
        # keep-alive expiry: the reaper runs one tick before, at, and after the deadline
        out.append(("expiry-exact", p,
                    [["loop", [["connect", 1], ["send", 1, "k"]]], ["loop", []]] + serve(1)
                    + [["loop", []]] * (k + 3)))
        # a request arrives in the same select round in which the keep-alive time passes
        out.append(("request-at-expiry", p,
                    [["loop", [["connect", 1], ["send", 1, "k"]]], ["loop", []]] + serve(1)
                    + [["select", [["tick", 0]] * k + [["send", 1, "k"]]]] + serve(1)))
        out.append(("request-one-tick-before-expiry", p,
                    [["loop", [["connect", 1], ["send", 1, "k"]]], ["loop", []]] + serve(1)
                    + [["select", [["tick", 0]] * max(0, k - 1) + [["send", 1, "c"]]]] + serve(1)))
        # TERM with jobs queued / running / finished-not-published
        out.append(("term-jobs-queued", p,
                    [["loop", [["connect", 1], ["connect", 2], ["send", 1, "k"], ["send", 2, "k"]]], ["loop", []],
                     ["loop", []], ["loop", []], ["parent", [["term", 0]]]]))
        out.append(("term-job-running", p,
                    [["loop", [["connect", 1], ["send", 1, "k"]]], ["loop", []], ["wait0", [["start", 1]]],
                     ["parent", [["term", 0]]]]))
        out.append(("term-between-handle-and-finish", p,
                    [["loop", [["connect", 1], ["send", 1, "k"]]], ["loop", []], ["wait0", [["start", 1]]],
                     ["parent", [["handle", 1]]], ["lock:murder_keepalived", [["term", 0]]],
                     ["shutdown", [["finish", 1]]]]))
        out.append(("term-idle-keepalive", p,
                    [["loop", [["connect", 1], ["send", 1, "k"]]], ["loop", []]] + serve(1)
                    + [["loop", [["term", 0]]]]))
        # two completions published between two sweeps
        out.append(("two-finishes-one-sweep", p,
                    [["loop", [["connect", 1], ["connect", 2], ["send", 1, "k"], ["send", 2, "c"]]], ["loop", []],
                     ["loop", []], ["loop", []],
                     ["wait0", [["start", 1], ["start", 2], ["handle", 1], ["handle", 2], ["finish", 1], ["finish", 2]]],
                     ["wait0", [["start", 2], ["handle", 2], ["finish", 2]]]]))
        # the job completes before the submitting thread attaches the callback (inline finish)
        out.append(("finish-before-callback", p,
                    [["loop", [["connect", 1], ["send", 1, "k"]]], ["loop", []],
                     ["addcb", [["start", 1], ["handle", 1], ["finish", 1]]], ["loop", [["leave", 1]]]]))
        # handler failure / cancelled job
        out.append(("handler-crash", p,
                    [["loop", [["connect", 1], ["send", 1, "k"]]], ["loop", []], ["wait0", [["start", 1]]],
                     ["parent", [["crash", 1]]], ["parent", [["finish", 1]]]]))
        out.append(("job-cancelled", p,
                    [["loop", [["connect", 1], ["send", 1, "k"]]], ["loop", []], ["wait0", [["cancel", 1]]]]))
        out.append(("parent-died", p,
                    [["loop", [["connect", 1], ["send", 1, "k"]]], ["loop", []], ["wait0", [["pdead", 0]]]]))
        # completion published while the reaper is between pop and put-back
        out.append(("finish-inside-reaper", p,
                    [["loop", [["connect", 1], ["connect", 2], ["send", 1, "k"]]], ["loop", []]] + serve(1)
                    + [["loop", [["send", 2, "k"]]], ["loop", []], ["wait0", [["start", 2], ["handle", 2]]],
                       ["lock:murder_keepalived", []], ["lock:murder_keepalived", [["finish", 2]]]]))
        # another worker wins the race for a connection this worker's poller already announced (accept() -> EAGAIN), as
        # often as this worker has slots; a client that really reaches it afterwards is served and everything is closed
        seq = []
        for c in (1, 2):
            seq += [["loop", [["connect", c]]], ["accept", [["steal", c]]], ["loop", []]]
        seq += [["loop", [["connect", 3], ["send", 3, "c"]]], ["loop", []]] + serve(3) + [["loop", []]] * 3
        out.append(("accept-race-lost", p, seq))
        # the keep-alive budget (worker_connections - threads parked connections): clients that make one request each
        # and stay; whoever is over the budget is answered with a close, so a later client is still served
        if k > 0:
            seq = []
            for c in (1, 2):
                seq += [["loop", [["connect", c], ["send", c, "k"]]], ["loop", []]] + serve(c)
            seq += [["loop", [["connect", 3], ["send", 3, "k"]]], ["loop", []]] + serve(3) + [["loop", []]] * 4
            out.append(("keepalive-budget", p, seq))
            # ... with a keep-alive time much longer than the patience of the monitor (a parked connection over the
            # budget then stalls the newcomer for the whole keep-alive time, not for a tick or two)
            out.append(("keepalive-budget-long", params(t, w, 9), seq + [["loop", []]] * 6))
            out.append(("keepalive-budget-long-app-connection-header", dict(params(t, w, 9), app_conn=True), seq + [["loop", []]] * 6))
        if k > 0 and w > t:
            pf = dict(p, fine=True)
            first = [["loop", [["connect", 1], ["send", 1, "k"]]], ["loop", []], ["sweep", [["start", 1]]],
                     ["parent", [["handle", 1]]]]
            for b in (1, 2, 3, 4):
                # keep-alive finish while the client's next request is already waiting: the completion
                # is suspended at its b-th visible operation, the main loop polls, then it resumes
                out.append(("fine:finish-keep-next-request-waiting/b%d" % b, pf,
                            first + [["parent", [["send", 1, "k"], ["finish", 1, b]]],
                                     ["lock:on_client_socket_readable", []], ["sweep", [["resume", 1, -1]]]]))
                # ... while the client has left (the departure must still be noticed)
                out.append(("fine:finish-keep-client-left/b%d" % b, pf,
                            first + [["parent", [["leave", 1], ["finish", 1, b]]],
                                     ["lock:on_client_socket_readable", []], ["sweep", [["resume", 1, -1]]]]))
            for b in (1, 2, 3):
                # a completion interleaved with the reaper between popleft and put-back / unregister
                out.append(("fine:finish-keep-inside-reaper/b%d" % b, pf,
                            [["loop", [["connect", 1], ["connect", 2], ["send", 1, "k"]]], ["loop", []]] + serve(1)
                            + [["loop", [["send", 2, "k"]]], ["loop", []], ["sweep", [["start", 2], ["handle", 2]]],
                               ["lock:murder_keepalived", []], ["lock:murder_keepalived", [["finish", 2, b]]],
                               ["v:keep:appendleft", [["resume", 2, 1]]], ["loop", [["resume", 2, -1]]]]))
                # the reaper expires a connection while another completion holds the lock
                out.append(("fine:finish-keep-holds-lock-at-expiry/b%d" % b, pf,
                            [["loop", [["connect", 1], ["connect", 2], ["send", 1, "k"]]], ["loop", []]] + serve(1)
                            + [["loop", [["send", 2, "k"]]], ["loop", []], ["sweep", [["start", 2], ["handle", 2]]]]
                            + [["loop", []]] * k + [["parent", [["finish", 2, b + 1]]]]))
    return out


def sim_behaviours(ctx, label, t, w, k, num, depth, term, faults, fine=False):
    cfg = model_cfg("GThread_sim_" + label, dev=CURRENT_TREE_DEV, threads=t, wc=w, ka=k, nconn=3, maxreq=2,
                    faults=faults, term=term, obs=True, invariants=[], props=[], fine=fine)
    behs, r = tlc.simulate_behaviours("GThread", cfg, num=num, depth=depth, seed=ctx.seed + 1,
                                      name="GThread_sim_" + label, timeout=300)
    return behs


# ---------------------------------------------------------------------------------------------
# judging
# ---------------------------------------------------------------------------------------------

def p_trace(r):
    return {"cfg": r["cfg"], "ev": r["ev"]}


def scenario_class(r, verdict, step):
    """abstract class of a failing run, computed from the recorded run alone"""
    pev = [e for e in r["full"] if e["e"] in drv.P_EVENTS]
    upto = pev[:step]
    wc = r["cfg"]["wc"]
    if verdict in ("ServedIfThreadFree", "AllClosedAtEnd", "ReturnsToZero") and upto[-1]["e"] != "exit":
        # was the worker at its connection limit (exactly, with exact accounting) at the loop tops
        # over which the obligation ran out?
        opened = 0
        tops = []
        for e in upto:
            if e["e"] == "accept":
                opened += 1
            elif e["e"] == "close":
                opened -= 1
            elif e["e"] == "loop":
                tops.append((e["nr"] == wc and opened == wc, bool(e["st"]["futures"])))
        if verdict != "ServedIfThreadFree":
            window = tops[-4:]
        elif upto[-1]["e"] == "close":
            window = tops[-1:]
        else:
            window = tops[-(r["cfg"]["K"] + 1):-1]
        if window and all(full for full, _ in window):
            # how many of the open connections are parked keep-alive ones?  The worker's budget is wc - threads, so that
            # `threads` slots stay available to connections that may still send a request
            budget = max(0, wc - r["cfg"]["threads"])

            def parked_before(idx):
                n = 0
                for c in range(1, r["cfg"]["nconn"] + 1):
                    mine = [e for e in upto[:idx] if e["c"] == c and e["e"] in ("jobend", "reg", "submit", "close", "cancel")]
                    if len(mine) >= 2 and mine[-1]["e"] == "reg" and mine[-2]["e"] == "jobend" and mine[-2]["x"] == "keep":
                        n += 1
                return n
            kept = parked_before(len(upto))
            over = ""
            if kept > budget:
                # the handler decides on keep-alive from len(_keep) while it runs; a connection enters _keep only in the
                # completion callback.  Did some handler keep its connection although the budget was visibly used up
                # (impossible on this tree), or did concurrent handlers all decide before any of them was parked (a race
                # this tree has)?
                over = ",keepalive-budget-race"
                for c in range(1, r["cfg"]["nconn"] + 1):
                    ends = [i for i, e in enumerate(upto) if e["c"] == c and e["e"] == "jobend" and e["x"] == "keep"]
                    if ends and parked_before(ends[-1]) >= budget and budget > 0:
                        over = ",keepalive-over-budget"
                    if ends and budget == 0:
                        over = ",keepalive-over-budget"
            return ("gate-full-pool-busy" if any(b for _, b in window) else "gate-full-pool-empty") + over
    if verdict == "ServedIfThreadFree":
        # was a readable event of the waiting connection consumed without a dispatch?
        c = upto[-1]["c"] if upto[-1]["e"] == "close" else None
        full = r["full"][:r["full"].index(upto[-1]) + 1]
        for cand in ([c] if c else range(1, r["cfg"]["nconn"] + 1)):
            sends = [i for i, e in enumerate(full) if e["e"] == "send" and e["c"] == cand]
            if not sends:
                continue
            after = [e["e"] for e in full[sends[-1]:] if e["c"] == cand and e["e"] in ("unreg", "submit")]
            if "unreg" in after and "submit" not in after[after.index("unreg"):]:
                return "readable-event-dropped"
    if verdict == "AllClosedAtEnd" and upto[-1]["e"] == "exit":
        return "left-open-after-stop"
    # otherwise: name the worker path that acted last on a connection before the failing point
    last = None
    if verdict == "Accounting":
        # root event: the event at which the error of nr_conns took the value it still has at the
        # failing observation (transient windows such as accept -> count are skipped)
        opened, discs = 0, []
        for e in upto:
            if e["e"] == "accept":
                opened += 1
            elif e["e"] == "close":
                opened -= 1
            if e["e"] != "accept":          # nr_conns is still being updated at the accept event itself
                discs.append((e, e["nr"] - opened))
        k = len(discs) - 1
        while k > 0 and discs[k - 1][1] == discs[-1][1]:
            k -= 1
        root = discs[k][0]
        if root["e"] == "reg" and root["c"]:
            prev = [x for x in upto[:upto.index(root)] if x["c"] == root["c"] and x["e"] in ("accept", "jobend")]
            if prev and prev[-1]["e"] == "accept":
                return "at-accept"
        if root is not None and root["e"] in ("close", "reclose", "accept", "cancel", "jobend", "finish"):
            last = root
            if last["e"] == "finish":
                return "at-finish"
    for e in reversed(upto):
        if last is not None:
            break
        if e["e"] in ("close", "reclose", "accept", "cancel", "jobend", "reg"):
            last = e
            break
    if last is None:
        return "no-connection-event"
    if last["e"] in ("close", "reclose"):
        c = last["c"]
        i = upto.index(last)
        ctxt = "reaper"
        for e in reversed(upto[:i]):
            if e["c"] != c:
                continue
            if e["e"] == "jobend":
                ctxt = "finish-" + e["x"]
                break
            if e["e"] == "cancel":
                ctxt = "cancelled"
                break
            if e["e"] in ("reg", "accept"):
                break
        return last["e"] + "-by-" + ctxt
    if last["e"] == "jobend":
        return "after-jobend-" + last["x"]
    if last["e"] == "reg":
        return "after-keepalive-rearm" if last["c"] else "start"
    return "after-" + last["e"]


def judge(ctx, runs, name="GThreadTrace_C13"):
    traces = [p_trace(r) for r in runs]
    # non-vacuity: two corrupted copies of accepted runs must be rejected
    verdicts, stats = tlc.validate_batch("GThreadTrace", "GThreadTrace.cfg", traces, name=name, chunk=3000)
    ctx.add_traces(len(traces), stats)
    ok_runs = [r for r, v in zip(runs, verdicts) if v[0] == "ok" and any(e["e"] == "close" for e in r["ev"])]
    if ok_runs:
        a = copy.deepcopy(p_trace(ok_runs[0]))
        i = next(i for i, e in enumerate(a["ev"]) if e["e"] == "close")
        del a["ev"][i]
        b = copy.deepcopy(p_trace(ok_runs[-1]))
        for e in b["ev"]:
            if e["e"] == "loop":
                e["nr"] += 1
        cv, _ = tlc.validate_batch("GThreadTrace", "GThreadTrace.cfg", [a, b], name=name + "_smoke")
        if cv[0][0] == "ok" or cv[1][0] == "ok":
            raise tlc.TLCError("GThreadTrace accepts corrupted traces (binding is vacuous): %s" % (cv,))
        ctx.coverage["nonvacuity"] = {"dropped_close": cv[0][0], "nr_off_by_one": cv[1][0]}
    bad = Counter()
    best = {}
    for r, (v, step) in zip(runs, verdicts):
        if v == "ok":
            continue
        cls = scenario_class(r, v, step)
        sig = "C13/%s/%s" % (v, cls)
        bad[sig] += 1
        if cls.startswith("gate-full") and "budget" not in cls:
            # one root cause (the capacity gate stops all polling), three bounded-response symptoms
            # (request not served / departure not noticed / count stuck) x pool empty or busy:
            # one signature; the observed variants are counted in the evidence
            sig = GATE_SIGNATURE
            r = dict(r, variant="%s/%s" % (v, cls))
        if sig not in best or rank(r, v) < rank(best[sig][0], best[sig][1]):
            best[sig] = (r, v, step)
    for sig, (r, v, step) in sorted(best.items()):
        p = r["params"]
        cls = sig.split("/", 2)[2]
        if "variant" in r:
            cls = r["variant"].split("/")[1]
        what = ("%s fails at event %d (%s) of a %s run with threads=%d worker_connections=%d keepalive=%d: %s"
                % (v, step, r["ev"][step - 1]["e"], r.get("source", "?"), p["threads"], p["wc"], p["ka"],
                   explain(v, cls)))
        ctx.violation(sig, what, {"params": p, "decisions": r["decisions"], "source": r.get("source"),
                                  "verdict": v, "step": step, "schedule": readable_schedule(r),
                                  "events": [[e["e"], e["c"], e["x"], e["nr"], e["now"]] for e in r["ev"][:step]]})
    ctx.coverage["failing_runs_by_signature"] = dict(bad)
    return verdicts


GATE_SIGNATURE = "C13/ServedIfThreadFree/gate-full-pool-empty"


def rank(r, v):
    """prefer, as the representative of a signature, the literal clause, then short schedules"""
    return (0 if r.get("variant", GATE_SIGNATURE[4:]) == GATE_SIGNATURE[4:] else 1,
            0 if r.get("source") == "scenario:gate-full-then-request" and r["params"]["wc"] == 2
            and r["params"]["threads"] == 2 and r["params"]["ka"] == 2 else 1,
            0 if str(r.get("source", "")).startswith("scenario") else 1, len(r["decisions"]))


def explain(v, cls):
    if cls.startswith("gate-full"):
        return ("nr_conns == worker_connections, so run() skips poller.select and only waits on the futures: "
                "requests and departures on the accepted connections are never noticed")
    return "scenario class " + cls


def readable_schedule(r):
    out = []
    for i, (kind, steps, order) in enumerate(r["decisions"]):
        if steps:
            out.append("%d@%s: %s" % (i, kind, " ".join("%s%s%s" % (s[0], (" %d" % s[1]) if s[1] else "",
                                                               (" " + str(s[2])) if len(s) > 2 and s[2] not in ("", None) else "")
                                                    for s in steps)))
    return out


# ---------------------------------------------------------------------------------------------

def c13(ctx):
    rng = ctx.rng
    jobs = design_jobs(ctx)
    if os.environ.get("VERIF_C13_NO_MODEL"):      # development aid (mutation sweeps): skip (D)
        jobs = []
    pool = ThreadPoolExecutor(max_workers=3)
    fut_design = pool.submit(run_design, ctx, jobs)
    # spec -> code behaviours, generated while the design runs
    simjobs = []
    simpar = [(1, 2, 2), (2, 3, 2), (2, 2, 0), (1, 1, 2)] if ctx.quick else PARAMS
    nsim = 45 if ctx.quick else 150
    for i, (t, w, k) in enumerate(simpar):
        simjobs.append(pool.submit(sim_behaviours, ctx, "n%d" % i, t, w, k, nsim, 110, False, 0))
        simjobs.append(pool.submit(sim_behaviours, ctx, "t%d" % i, t, w, k, nsim, 110, True, 1))
    # the two-step model (FinishKeepA/B) replayed with the fine-grained driver
    finejobs = [((t, w, k), pool.submit(sim_behaviours, ctx, "f%d" % i, t, w, k, nsim, 110, i % 2 == 1, i % 2, True))
                for i, (t, w, k) in enumerate([(1, 2, 2), (2, 3, 2)] if ctx.quick else [(1, 2, 2), (2, 3, 2), (1, 3, 2)])]
    runs = []
    # explicit scenarios
    for name, p, script in scenarios():
        r = drv.run_script(p, script)
        r["source"] = "scenario:" + name
        runs.append(r)
    nscen = len(runs)
    # code -> spec: seeded random schedules
    nrand = 650 if ctx.quick else 6000
    nfine = 0
    for i in range(nrand):
        t, w, k = PARAMS[i % len(PARAMS)]
        budget = rng.choice([30, 60, 90, 140])
        cap = (w - 1) if (w >= 2 and i % 5 < 3) else None      # 60 %: stay below the connection limit
        pr = params(t, w, k)
        if i % 5 in (1, 3):
            pr["fine"] = True        # 40 %: pool completions interleaved at visible operations
            nfine += 1
        if i % 4 == 2:
            pr["app_conn"] = True    # the application sets a Connection: keep-alive header on its responses
        r = drv.run_random(pr, random.Random(rng.getrandbits(48)), budget=budget, cap=cap,
                           p_step=rng.choice([0.3, 0.45, 0.6]),
                           weights={"tick": rng.choice([0.5, 1, 3])})
        r["source"] = "random"
        runs.append(r)
    # spec -> code
    nbeh = nsteps = ndrift = 0
    replay_jobs = [(x, f, False) for x, f in zip([x for x in simpar for _ in (0, 1)], simjobs)]
    replay_jobs += [(x, f, True) for x, f in finejobs]
    for (t, w, k), f, fine in replay_jobs:
        for beh in f.result():
            r = drv.run_behaviour(dict(params(t, w, k), fine=fine), beh)
            r["source"] = "tlc-behaviour"
            runs.append(r)
            nbeh += 1
            nsteps += r["compared"]
            if r["drift"]:
                ndrift += 1
                if ndrift <= 5:
                    ctx.note_drift("GThread.tla behaviour vs real ThreadWorker (threads=%d wc=%d ka=%d): %s"
                                   % (t, w, k, r["drift"]))
    undecided = sum(1 for r in runs if r["outcome"] == "abort")
    runs = [r for r in runs if r["outcome"] != "abort"]
    verdicts = judge(ctx, runs)
    # real processes, real sockets, real clock: segmented requests on kept-alive connections, keep-alive time
    from props import gthread_real
    gthread_real.real_side(ctx)
    account_design(ctx, fut_design.result())
    pool.shutdown()
    ctx.coverage["exhaustive"] = True
    ctx.coverage["rule"] = ("TLC: every interleaving of main-loop segments, pool-thread steps and environment steps of "
                            "the bounded instances listed in tlc_runs; traces: real ThreadWorker.run() under scripted "
                            "selector/sockets/executor/virtual time")
    ctx.coverage["runs"] = {"scenario": nscen, "random": nrand, "random_fine_grained": nfine,
                            "yields_inside_pool_completions": sum(1 for r in runs for e in r["full"] if e["e"] == "yield"),
                            "tlc_behaviours": nbeh,
                            "behaviour_states_compared": nsteps, "behaviours_with_drift": ndrift,
                            "undecided": undecided}
    ctx.coverage["events"] = dict(Counter(e["e"] for r in runs for e in r["ev"]))
    ctx.coverage["verdicts"] = dict(Counter(v[0] for v in verdicts))
    for r in runs[:2] + runs[nscen:nscen + 1]:
        ctx.sample({"source": r["source"], "params": r["params"], "schedule": readable_schedule(r)[:12],
                    "events": [[e["e"], e["c"], e["x"], e["nr"], e["now"]] for e in r["ev"][:40]]})
    ctx.assumptions += [
        "pool jobs are three steps (start / handler body / publish result + callbacks) placed between visible "
        "operations of the main thread; in the fine-grained runs the third step is a greenlet suspended and "
        "resumed at its lock / poller / _keep operations (the lock excludes); the handler body stays atomic; "
        "single OS thread, deterministic; `nr_conns -= 1` is atomic",
        "clients do not pipeline: the next request is sent after the previous response",
        "murder_keepalived takes no time (no tick between its time.time() and its last comparison)",
        "one listener; the WSGI application does not fail (the handler-error double close path is not driven)",
        "run() returning is followed by process exit, which closes connections left idle before the stop request"]


def replay(ctx, data):
    case = data["case"]
    print("replaying %s" % data["signature"])
    print("  params:", case["params"])
    for ln in case.get("schedule", []):
        print("   ", ln)
    r = drv.run_replay(case["params"], case["decisions"])
    if r.get("diverged"):
        print("  note: the run diverged from the recorded schedule:", r["diverged"])
    verdicts, _ = tlc.validate_batch("GThreadTrace", "GThreadTrace.cfg", [p_trace(r)], name="GThreadTrace_replay")
    v, step = verdicts[0]
    print("  verdict:", v, "at event", step, r["ev"][step - 1] if step else None)
    if v != "ok":
        print("  class:", scenario_class(r, v, step))
        print("VIOLATION property=%s replay=(replayed)" % data["property"])
        return 1
    return 0


CHECKS = {"C13": c13}
