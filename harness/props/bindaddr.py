"""specs/BindAddr.tla (what a `bind` setting means: gunicorn.util.parse_address, transcribed statement by statement over
character sequences) against the real function: TLC checks the sanity invariants over every bind string of at most MaxLen
pieces (and shows each named deviation violating the one it is meant to), specs/BindAddrCases.tla writes every such string
with the result the model computes, and each is replayed into the real util.parse_address and through Config.address.
Not one of the listed properties: differences are reported as drift (run with C14, next to specs/Listeners.tla)."""
import json
import os

import tlc

INVS = ["TypeOK", "KindByPrefix", "UnixPathIsTail", "HostLowered", "NoSilentDefaultPort", "NumbersHaveDigits",
        "SettingIgnoresOuterBlanks"]
DEVS = (("FirstUnixPiece", "UnixPathIsTail", 4), ("KeepCase", "HostLowered", 2), ("PortUnchecked", "NoSilentDefaultPort", 3))


def _cfg(label, maxlen, dev, spec="Spec", invs=INVS):
    cfgp = os.path.join(tlc.OUT, "cfg", "BindAddr_%s.cfg" % label)
    os.makedirs(os.path.dirname(cfgp), exist_ok=True)
    tlc.write_cfg(cfgp, spec=spec, constants={"MaxLen": maxlen, "Dev": set(dev)}, invariants=invs)
    return cfgp


def design(ctx):
    maxlen = 3 if ctx.quick else 4
    r = tlc.run("BindAddr", _cfg("design", maxlen, ()), name="BindAddr_design", workers=4, timeout=900)
    if not r.ok:
        raise tlc.TLCError("BindAddr design violates %s" % r.violated)
    ctx.add_model(r, "BindAddr (bind strings of <= %d pieces)" % maxlen)
    for dev, expect, need in DEVS:
        r = tlc.run("BindAddr", _cfg(dev, need, (dev,)), name="BindAddr_" + dev, workers=2, timeout=300)
        ctx.coverage.setdefault("deviation_runs", []).append({"dev": dev, "expected": expect, "reproduced": expect in r.violated})
    return maxlen


def emit(maxlen):
    outp = os.path.join(tlc.OUT, "cases_bindaddr.ndjson")
    if os.path.exists(outp):
        os.unlink(outp)
    tlc.run("BindAddrCases", _cfg("cases", maxlen, (), spec="CSpec", invs=()), name="BindAddrCases", workers=1, timeout=900,
            env={"CASES_OUT": outp})
    with open(outp) as f:
        return [json.loads(x) for x in f if x.strip()]


def expected(r):
    num = None
    if r["kind"] in ("fd", "tcp"):
        num = int("".join(r["digits"])) * (-1 if r["neg"] else 1)
    text = "".join(r["text"])
    if r["kind"] == "unix":
        return ("unix", text)
    if r["kind"] == "fd":
        return ("fd", num)
    if r["kind"] == "tcp":
        return ("tcp", text, num)
    return ("error", text)


def observe(fn, s):
    try:
        v = fn(s)
    except RuntimeError as e:
        return ("error", "fd" if "file descriptor" in str(e) else "port" if "port number" in str(e) else str(e))
    except Exception as e:   # noqa  (anything else is not what the model allows: shown as it is)
        return ("raised", type(e).__name__)
    if isinstance(v, bool):
        return ("other", repr(v))
    if isinstance(v, str):
        return ("unix", v)
    if isinstance(v, int):
        return ("fd", v)
    if isinstance(v, tuple) and len(v) == 2:
        return ("tcp", v[0], v[1])
    return ("other", repr(v))


def replay_cases(ctx, cases):
    from gunicorn import util
    from gunicorn.config import Config

    def through_config(s):
        c = Config()
        c.set("bind", [s])
        return c.address[0]

    bad = 0
    unlowered = 0
    kinds = {}
    for c in cases:
        s = "".join(c["s"])
        want = expected(c["r"])
        kinds[want[0]] = kinds.get(want[0], 0) + 1
        for name, fn in (("util.parse_address", util.parse_address), ("Config.address", through_config)):
            got = observe(fn, s)
            want = expected(c["rc"] if name == "Config.address" else c["r"])
            if got != want:
                bad += 1
                if bad <= 4:
                    ctx.note_drift("bind address: %s(%r) gives %r, the model %r" % (name, s, got, want))
        # the binding is tight: the same comparison on a copy of the function that forgets .lower() must find differences
        got = observe(lambda x: _nolower(util.parse_address, x), s)
        if got != expected(c["r"]):
            unlowered += 1
    ctx.coverage["bind_strings_replayed"] = len(cases)
    ctx.coverage["bind_strings_by_result"] = kinds
    ctx.coverage["bind_mismatches"] = bad
    ctx.coverage["bind_binding_demo"] = "a variant that upper-cases the host differs on %d of %d strings" % (unlowered, len(cases))
    if cases:
        ctx.sample({"bind": "".join(cases[len(cases) // 2]["s"]), "model": list(expected(cases[len(cases) // 2]["r"]))})


def _nolower(fn, s):
    v = fn(s)
    if isinstance(v, tuple):
        return (v[0].upper(), v[1])
    return v


def run(ctx):
    """Outside the listed properties: a failure of this part is recorded, it never fails the check it runs with."""
    try:
        maxlen = design(ctx)
        replay_cases(ctx, emit(maxlen))
    except tlc.TLCError:
        raise
    except Exception as e:   # noqa
        ctx.coverage["bind_strings_replayed"] = "not run: %r" % (e,)
