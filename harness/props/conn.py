"""C05: hostile or broken input is contained: error reply, no application call, worker lives.

(D) specs/Conn.tla: the try/except/finally ladders of the three handle() implementations and
    Worker.handle_error over parse outcome x application outcome x error-page write outcome;
(C)+(P) byte streams (the C01 stream families concretized, truncated at every offset; mutated valid
    requests; random bytes) combined with client faults (reset while the server reads, dead socket while
    it writes, at every position) are served by the REAL handle() of SyncWorker / ThreadWorker / AsyncWorker
    on scripted sockets; afterwards a normal connection is served by the same worker object; the wire
    (read by the strict response reader) and the worker's state are judged by TLC against specs/ConnTrace.tla.
"""
import errno
import json
import os

import tlc
import oracle_wire
import concretize as cz
from drivers import conn as drv
from props import http_parse as hp

OUT = tlc.OUT
KINDS = ["sync", "gthread", "async"]
OKBODY = b"ok"


def conn_cfg(label, dev=(), live=True):
    cfg = os.path.join(OUT, "cfg", "Conn_%s.cfg" % label)
    os.makedirs(os.path.dirname(cfg), exist_ok=True)
    tlc.write_cfg(cfg, spec="Spec", constants={"Dev": set(dev)},
                  invariants=["NoAppCallAfterReject", "AtMostOneErrorPage", "ErrorPageOnlyWithoutResponse",
                              "HandleNeverRaises", "ExactlyOneRecordPerCompletedApp", "AtMostOneRecordPerRejected"],
                  properties=["AlwaysClosed"] if live else [])
    return cfg


def echo_app(calls, fails):
    def app(environ, start_response):
        calls.append(1)
        try:
            environ["wsgi.input"].read()
        except BaseException:
            fails.append(1)
            raise
        start_response("200 OK", [("Content-Type", "text/plain"), ("Content-Length", str(len(OKBODY)))])
        return [OKBODY]
    return app


PEERS = [("127.0.0.1", 45678), ("127.0.0.1", 45678), ("2001:db8::1", 5555, 0, 0), ("::1", 40000, 0, 7), "", "/run/client.sock", b""]


def serve_stream(kind, data, cuts, fault="none", fault_at=0, send_errno=errno.EPIPE, cfgkw=None, peer=None):
    """-> (events, info).  peer: what accept() reported for the client (IPv4 pair, IPv6 4-tuple, unnamed / bound unix)"""
    calls, fails = [], []
    app = echo_app(calls, fails)
    cfg = drv.make_cfg(keepalive=2, **(cfgkw or {}))
    w = drv.make_worker(kind, cfg, app)
    segs = hp.drv.segments(data, cuts)
    kw = {}
    if fault == "recv":
        kw = {"recv_fault": (fault_at, errno.ECONNRESET)}
    elif fault == "recv_eofreset":
        kw = {"eof_kind": "reset"}
    elif fault == "send":
        kw = {"send_fail_at": fault_at, "send_errno": send_errno}
    if peer is not None:
        kw["peer"] = tuple(peer) if isinstance(peer, list) else peer
        if not isinstance(kw["peer"], tuple):
            w.sockets[0].name = "/run/gunicorn.sock"
    r = drv.serve(kind, cfg, segs, app, worker=w, eof_dispatch=True, **kw)
    ncalls, nfails = len(calls), len(fails)
    # the same worker object must serve the next connection normally
    r2 = drv.serve(kind, cfg, [b"GET /next HTTP/1.1\r\nHost: h\r\nConnection: close\r\n\r\n"], app, worker=w)
    next_ok = r2.wire.startswith(b"HTTP/1.1 200 OK\r\n") and r2.wire.endswith(OKBODY) and r2.escaped is None and r2.closed
    ev = []
    recs = oracle_wire.read_responses(r.wire, True, [])
    for x in recs:
        if not x.get("wellformed"):
            # bytes that are not a response: a reply cut short by the dead socket, or junk
            partial = fault.startswith("send")
            ev.append({"e": "resp", "kind": "partial" if partial else "junk", "status": 0, "close": False, "clok": False})
            continue
        is_err = x["status"] >= 400
        complete = bool(x.get("complete"))
        clok = x["cl"] >= 0 and complete and len(x["body"]) == x["cl"]
        kindr = "error" if is_err else "app"
        if not complete:
            kindr = "partial"
        ev.append({"e": "resp", "kind": kindr, "status": x["status"], "close": x["conn"] == "close", "clok": bool(clok)})
    ev.append({"e": "end", "closed": bool(r.closed), "escaped": r.escaped is not None, "appcalls": ncalls, "appfail": nfails,
               "alive": bool(w.alive), "next_ok": bool(next_ok), "sent_requests": -1})
    return ev, {"escaped": r.escaped, "wire": r.wire[:200].decode("latin-1"), "kept": r.kept}


VALID = [b"GET /a HTTP/1.1\r\nHost: h\r\n\r\n",
         b"POST /b HTTP/1.1\r\nHost: h\r\nContent-Length: 5\r\n\r\nhello",
         b"POST /c HTTP/1.1\r\nHost: h\r\nTransfer-Encoding: chunked\r\n\r\n3\r\nabc\r\n2;x=y\r\nde\r\n0\r\nX-T: 1\r\n\r\n",
         b"GET /d HTTP/1.0\r\n\r\n",
         b"PUT /e?q=1 HTTP/1.1\r\nHost: h\r\nConnection: keep-alive\r\nContent-Length: 0\r\n\r\nGET /f HTTP/1.1\r\nHost: h\r\n\r\n"]
INTERESTING = [b"\x00", b"\r", b"\n", b"\r\n", b" ", b"\t", b":", b",", b";", b"\x0b", b"\xff", b"\x80", b"0", b"-", b"+",
               b"chunked", b"Transfer-Encoding: chunked\r\n", b"Content-Length: 3\r\n", b"\r\n\r\n", b"HTTP/1.1", b"%"]


def mutate(rng, data):
    data = bytearray(data)
    for _ in range(rng.randint(1, 3)):
        op = rng.randrange(5)
        pos = rng.randrange(len(data) + 1)
        if op == 0 and data:
            del data[pos % len(data)]
        elif op == 1:
            data[pos:pos] = rng.choice(INTERESTING)
        elif op == 2 and data:
            data[pos % len(data)] = rng.randrange(256)
        elif op == 3 and data:
            a = pos % len(data)
            b = min(len(data), a + rng.randint(1, 8))
            data[a:a] = data[a:b]
        else:
            data = data[:pos]
    return bytes(data)


HOSTILE_TLS = ["plain_http", "random", "connect_close", "half_hello_reset", "hello_then_garbage"]


def real_tls(wk, eager):
    """real process with TLS listeners: peers that do not complete the handshake (plain HTTP on the TLS port, random
    bytes, connect-and-close, half a ClientHello then a reset) must not take the worker down; one trace per peer"""
    import socket
    import struct
    import time
    from drivers import realproc as rp
    s = rp.Server(wk, workers=1, threads=2 if wk == "gthread" else None, tls=True,
                  args=["--keep-alive", "1"] + (["--do-handshake-on-connect"] if eager else []), name="c05tls")
    out = []
    try:
        s.start()
        wp = s.wait_booted(1)
        hello = bytes.fromhex("16030100c8010000c40303") + bytes(range(60))
        for peer in HOSTILE_TLS:
            c = s.connect(timeout=4, raw=True)
            got = b""
            try:
                if peer == "plain_http":
                    c.sendall(b"GET /pid HTTP/1.1\r\nHost: h\r\n\r\n")
                elif peer == "random":
                    c.sendall(bytes((i * 37 + 11) % 256 for i in range(300)))
                elif peer == "half_hello_reset":
                    c.sendall(hello[:40])
                    time.sleep(0.2)
                    c.setsockopt(socket.SOL_SOCKET, socket.SO_LINGER, struct.pack("ii", 1, 0))
                elif peer == "hello_then_garbage":
                    c.sendall(hello)
                    time.sleep(0.1)
                    c.sendall(b"\x00" * 200)
                if peer not in ("connect_close", "half_hello_reset"):
                    c.settimeout(2.0)
                    try:
                        while True:
                            d = c.recv(65536)
                            if not d:
                                break
                            got += d
                    except OSError:
                        pass
            except OSError:
                pass
            finally:
                c.close()
            time.sleep(0.4)
            alive = [p for p in wp if rp.proc_state(p) not in (None, "Z")]
            try:
                st2, body2, info2 = s.get("/pid", timeout=5)
                next_ok = st2 == 200 and rp.parse_ident(body2)[0] in wp
            except OSError:
                next_ok = False
            ev = []
            # anything the peer got back in clear must be a well-formed error reply that closes
            if got.startswith(b"HTTP/"):
                for x in oracle_wire.read_responses(got, True, []):
                    if not x.get("wellformed"):
                        ev.append({"e": "resp", "kind": "junk", "status": 0, "close": False, "clok": False})
                    else:
                        clok = x["cl"] >= 0 and len(x["body"]) == x["cl"]
                        ev.append({"e": "resp", "kind": "error" if x["status"] >= 400 else "app", "status": x["status"],
                                   "close": x["conn"] == "close", "clok": bool(clok)})
            ev.append({"e": "end", "closed": True, "escaped": False, "appcalls": 0, "appfail": 0, "alive": len(alive) == len(wp),
                       "next_ok": bool(next_ok), "sent_requests": -1})
            out.append(({"ms": [], "cut": 0, "oracle": 0, "fault": "none", "ev": ev},
                        {"kind": wk, "bytes": "tls peer: " + peer, "cuts": [], "fault": "tls-" + peer, "fault_at": 0,
                         "src": "real-tls eager=%s" % eager, "escaped": None, "wire": got[:80].decode("latin-1"),
                         "log": s.errlog()[-300:] if len(alive) != len(wp) or not next_ok else ""}))
            if len(alive) != len(wp):
                wp = s.wait_booted(1)
        return out
    finally:
        s.cleanup()


def real_hostile(wk, kind):
    """real process, hostile clients that do not read / do not send:
    hugepage  a request whose error page is several MB (a header line without colon is echoed), from a client with a tiny
              receive buffer that never reads and keeps the connection open;
    empties   more connect-and-close clients (the empty byte stream) than the worker has connection slots.
    The next connection must be served by the same worker."""
    import socket
    import time
    from drivers import realproc as rp
    args = ["--keep-alive", "1", "--timeout", "60"]
    if kind == "empties":
        args += ["--worker-connections", "6"]
    # hangup / hangup-daemon: clients that reset the connection while a response of several writes is on its way
    # (foreground server, and one started with --daemon)
    s = rp.Server(wk, workers=1, threads=2 if wk == "gthread" else None, args=args, name="c05h", daemon=kind == "hangup-daemon")
    held = []
    try:
        s.start()
        wp = s.wait_booted(1)
        if kind == "hugepage":
            c = socket.socket(socket.AF_INET, socket.SOCK_STREAM)
            c.setsockopt(socket.SOL_SOCKET, socket.SO_RCVBUF, 2048)
            c.settimeout(10)
            c.connect(("127.0.0.1", s.port))
            try:
                c.sendall(b"GET /bad HTTP/1.1\r\n" + b'"' * 810000 + b"\r\n\r\n")
            except OSError:
                pass
            held.append(c)                  # never read, never closed while the next client is served
            time.sleep(1.0)
        elif kind.startswith("hangup"):
            import struct
            for k, path in enumerate(("/stream?n=5&d=0.25", "/gen?prod=iter&sizes=1000,1000,1000,1000&d=0.25", "/stream?n=5&d=0.25",
                                      "/gen?prod=write&sizes=1000,1000,1000,1000")):
                c = s.connect(timeout=5)
                c.sendall(("GET %s HTTP/1.1\r\nHost: h\r\n\r\n" % path).encode())
                try:
                    c.recv(65536)                       # the head (and maybe a first piece) has arrived
                    c.settimeout(0.1)
                    c.recv(65536)                       # (nothing left unread: the close below sends FIN, not RST)
                except OSError:
                    pass
                if k % 2:
                    # a reset: the server's next write fails with ECONNRESET
                    c.setsockopt(socket.SOL_SOCKET, socket.SO_LINGER, struct.pack("ii", 1, 0))
                # (else an ordinary close: the server's next write is accepted and answered with a reset, the one after
                # that fails with EPIPE -- and raises SIGPIPE in a process that does not ignore it)
                c.close()
                time.sleep(1.4)
            time.sleep(0.5)
        else:
            for _ in range(10):
                c = s.connect(timeout=5)
                c.close()
                time.sleep(0.05)
            time.sleep(0.5)
        t0 = time.time()
        try:
            st2, body2, info2 = s.get("/pid", timeout=6)
            next_ok = st2 == 200 and rp.parse_ident(body2)[0] in wp
        except OSError:
            next_ok = False
        alive = [p for p in wp if rp.proc_state(p) not in (None, "Z")]
        ev = [{"e": "end", "closed": True, "escaped": False, "appcalls": 0, "appfail": 0, "alive": len(alive) == len(wp),
               "next_ok": bool(next_ok), "sent_requests": -1}]
        return {"ms": [], "cut": 0, "oracle": 0, "fault": "none", "ev": ev}, \
            {"kind": wk, "bytes": "hostile client: " + kind, "cuts": [], "fault": "real-" + kind, "fault_at": 0, "src": "real-hostile",
             "escaped": None, "wire": "", "waited_s": round(time.time() - t0, 1)}
    finally:
        for c in held:
            try:
                c.close()
            except OSError:
                pass
        s.cleanup()


def real_keepalive(wk, tail):
    """real process, keep-alive on: one complete request, then silence or a truncated request for longer than the
    keep-alive time; the server must close without sending anything that was not asked for"""
    import socket
    import time
    from drivers import realproc as rp
    s = rp.Server(wk, workers=1, threads=2 if wk == "gthread" else None, args=["--keep-alive", "1"], name="c05")
    try:
        s.start()
        s.wait_booted(1)
        c = s.connect(timeout=6)
        st, body, info = s.get("/pid", sock=c, keepalive=True)
        first_ok = st == 200 and info["complete"]
        if tail:
            c.sendall(tail)
        extra = b""
        closed = False
        # phase 1: the client is silent for longer than the keep-alive time; phase 2: it half-closes
        # (the stream is now truncated for good) and waits for the server to close
        for phase, span in (("silent", 2.6), ("eof", 3.0)):
            if closed:
                break
            if phase == "eof":
                try:
                    c.shutdown(socket.SHUT_WR)
                except OSError:
                    closed = True
                    break
            c.settimeout(span)
            t0 = time.time()
            try:
                while time.time() - t0 < span:
                    d = c.recv(65536)
                    if not d:
                        closed = True
                        break
                    extra += d
            except socket.timeout:
                pass
            except OSError:
                closed = True
        c.close()
        st2, body2, info2 = s.get("/pid", timeout=5)
        ev = [{"e": "resp", "kind": "app" if first_ok else "junk", "status": 200, "close": False, "clok": True}]
        for x in oracle_wire.read_responses(extra, True, []):
            if not x.get("wellformed"):
                ev.append({"e": "resp", "kind": "junk", "status": 0, "close": False, "clok": False})
            else:
                clok = x["cl"] >= 0 and len(x["body"]) == x["cl"]
                ev.append({"e": "resp", "kind": "error" if x["status"] >= 400 else "app", "status": x["status"],
                           "close": x["conn"] == "close", "clok": bool(clok)})
        ev.append({"e": "end", "closed": closed, "escaped": False, "appcalls": 1, "appfail": 0, "alive": True,
                   "next_ok": st2 == 200, "sent_requests": 1})
        return {"ms": [], "cut": 0, "oracle": 0, "fault": "none", "ev": ev}, \
            {"kind": wk, "bytes": "GET /pid (keep-alive) then %r then silence" % tail, "cuts": [], "fault": "keepalive-idle",
             "fault_at": 0, "src": "real", "escaped": None, "wire": extra[:200].decode("latin-1")}
    finally:
        s.cleanup()


def c05(ctx):
    rng = ctx.rng
    r = tlc.run("Conn", conn_cfg("design"), name="Conn_design", workers=4, timeout=600)
    if not r.ok:
        raise tlc.TLCError("Conn design violates %s" % r.violated)
    ctx.add_model(r, "design")
    ctx.coverage["exhaustive"] = True
    traces, metas = [], []

    def add(kind, data, cuts, fault="none", fault_at=0, ms=None, cut=0, src="", send_errno=errno.EPIPE, cfgkw=None, maxapp=1000,
            peer=None):
        """maxapp: for streams without message descriptors, how many of its requests a correct server may hand to the
        application at most"""
        peer = peer if peer is not None else rng.choice(PEERS)
        if cfgkw and cfgkw.get("proxy_protocol"):
            peer = PEERS[0]
        ev, info = serve_stream(kind, data, cuts, fault, fault_at, send_errno, cfgkw, peer=peer)
        traces.append({"ms": ms or [], "cut": cut, "oracle": 1 if ms else 0, "maxapp": maxapp,
                       "fault": "send" if fault == "send" else "recv" if fault.startswith("recv") else "none", "ev": ev})
        metas.append({"kind": kind, "bytes": data[:300].decode("latin-1"), "cuts": cuts[:10], "fault": fault,
                      "fault_at": fault_at, "src": src, "escaped": info["escaped"], "wire": info["wire"], "cfgkw": cfgkw,
                      "peer": peer.decode() if isinstance(peer, bytes) else peer})

    # 1. grammar streams with the strict oracle (rejected heads, bad chunked bodies, truncation at every offset)
    fams = ["heads1", "chunks", "trunc"] + ([] if ctx.quick else ["heads2", "pipeline"])
    for f in fams:
        cases = hp.emit_cases(f)
        if ctx.quick and len(cases) > 400:
            cases = rng.sample(cases, 400)
        for case in cases:
            v = rng.randrange(cz.num_variants(case["ms"]))
            c = cz.concretize(case["ms"], v, case["cut"])
            data = bytes(c.data)
            for kind in (KINDS if not ctx.quick else [rng.choice(KINDS)]):
                add(kind, data, hp.rand_cuts(rng, len(data)), ms=case["ms"], cut=case["cut"], src=f)
    # 2. valid requests truncated at every offset, with EOF and with a reset
    for base in VALID:
        for k in range(len(base) + 1):
            for kind in KINDS:
                if ctx.quick and rng.random() < 0.5:
                    continue
                add(kind, base[:k], hp.rand_cuts(rng, k) if k > 1 else [], src="truncate")
                add(kind, base[:k], [], fault="recv_eofreset", src="truncate+reset")
    # 3. client dead while the server writes: every byte position of the reply, EPIPE and ECONNRESET
    for base in VALID[:3]:
        for at in range(0, 170, 1 if not ctx.quick else 7):
            for kind in KINDS:
                add(kind, base, [], fault="send", fault_at=at, src="sendfail",
                    send_errno=rng.choice([errno.EPIPE, errno.ECONNRESET]))
    # ... also while the error page for a rejected request is written
    bad = b"GET /x HTTP/1.1\r\nBad Header\r\n\r\n"
    for at in range(0, 60, 1 if not ctx.quick else 5):
        for kind in KINDS:
            add(kind, bad, [], fault="send", fault_at=at, src="sendfail-errorpage")
    # 4. mutated valid requests and random bytes
    n = 1500 if ctx.quick else 30000
    for i in range(n):
        base = rng.choice(VALID)
        data = mutate(rng, base) if rng.random() < 0.9 else bytes(rng.randrange(256) for _ in range(rng.randint(1, 60)))
        fault, at = "none", 0
        x = rng.random()
        if x < 0.15:
            fault, at = "recv", rng.randint(0, 4)
        elif x < 0.3:
            fault, at = "send", rng.randint(0, 200)
        add(rng.choice(KINDS), data, hp.rand_cuts(rng, len(data)) if len(data) > 1 else [], fault=fault, fault_at=at, src="mutated")
    # 5. PROXY protocol switched on: peers that may / may not send a PROXY line, good and bad lines, truncation
    plines = [b"PROXY TCP4 1.2.3.4 5.6.7.8 1111 80\r\n", b"PROXY TCP6 ::1 ::2 1111 80\r\n", b"PROXY UNKNOWN\r\n",
              b"PROXY TCP4 1.2.3.4 5.6.7.8 1111\r\n", b"PROXY TCP4 999.2.3.4 5.6.7.8 1111 80\r\n", b"PROXY TCP4 1.2.3.4 5.6.7.8 x 80\r\n",
              b"PROXY TCP9 1.2.3.4 5.6.7.8 1111 80\r\n", b"PROXY {0} %s %(x)s\r\n", b"PROXY TCP4 1.2.3.4 5.6.7.8 1111 70000\r\n", b"PROXY \r\n",
              b"PROXY TCP4 1.2.3.4 5.6.7.8 1111 80\n", b""]
    for pl in plines:
        for allow in ("*", "127.0.0.1", "10.9.8.7", "10.0.0.1,10.9.8.7"):
            for kind in KINDS:
                for base in (VALID[0], VALID[1], VALID[0] + pl + VALID[0]):
                    data = pl + base
                    if ctx.quick and rng.random() < 0.5:
                        continue
                    # (a PROXY line is part of the first request of a connection only: what follows a second one is refused)
                    add(kind, data, hp.rand_cuts(rng, len(data)), src="proxy", cfgkw={"proxy_protocol": True, "proxy_allow_ips": allow},
                        maxapp=1 if pl and base.count(b"PROXY") else 1000)
                    k = rng.randrange(len(data) + 1)
                    add(kind, data[:k], [], fault=rng.choice(["none", "recv_eofreset"]), src="proxy-truncated",
                        cfgkw={"proxy_protocol": True, "proxy_allow_ips": allow})
    # 5b. refusals decided after the parser has accepted the request: a trusted peer names a SCRIPT_NAME the path does not
    # start with (ConfigurationProblem, raised while the environ is built); alone, after a served request, cut, and with the
    # client gone while the error page is written
    mism = b"GET /other HTTP/1.1\r\nHost: h\r\nSCRIPT_NAME: /x\r\n\r\n"
    for kind in KINDS:
        for data, mx in ((mism, 0), (VALID[4] + mism, 2), (mism + VALID[0], 0),
                         (b"POST /o HTTP/1.1\r\nHost: h\r\nScript_Name: /mount\r\nContent-Length: 3\r\n\r\nabc", 0)):
            add(kind, data, hp.rand_cuts(rng, len(data)), src="late-refusal", maxapp=mx, peer=PEERS[0])
            add(kind, data, [], fault="recv_eofreset", src="late-refusal+reset", maxapp=mx, peer=PEERS[0])
            for at in range(0, 60, 3 if not ctx.quick else 13):
                add(kind, data, [], fault="send", fault_at=at, src="late-refusal-sendfail", maxapp=mx, peer=PEERS[0])
    # 6. real processes: the keep-alive wait of the async / threaded workers (timers cannot be scripted in-process)
    from props.reload_real import _parallel
    plan = [("gevent", b""), ("gevent", b"GET /second HTT"), ("gthread", b"GET /second HTT")] if ctx.quick else \
        [(wk, tail) for wk in ("gevent", "eventlet", "gthread") for tail in (b"", b"GET /second HTT", b"GET /s HTTP/1.1\r\nHost")]
    for t, m in _parallel(plan, lambda a, i: real_keepalive(a[0], a[1])):
        traces.append(t)
        metas.append(m)
    ctx.coverage["real_process_keepalive_runs"] = len(plan)
    # 7. real processes with TLS listeners and peers that do not complete the handshake
    tplan = [("sync", True), ("sync", False), ("gthread", True), ("gevent", True), ("eventlet", True)] if ctx.quick else \
        [(wk, e) for wk in ("sync", "gthread", "gevent", "eventlet") for e in (True, False)]
    for res in _parallel(tplan, lambda a, i: real_tls(a[0], a[1])):
        for t, m in res:
            traces.append(t)
            metas.append(m)
    ctx.coverage["real_process_tls_peers"] = len(tplan) * len(HOSTILE_TLS)
    # 8. real processes: clients that never read a multi-megabyte error page / that connect and leave without a byte
    hplan = [("sync", "hugepage"), ("gthread", "empties"), ("gthread", "hugepage"), ("sync", "hangup-daemon"), ("gevent", "hangup")] if ctx.quick else \
        [(wk, k) for wk in ("sync", "gthread", "gevent", "eventlet") for k in ("hugepage", "empties", "hangup", "hangup-daemon")]
    for t, m in _parallel(hplan, lambda a, i: real_hostile(a[0], a[1]), par=8):
        traces.append(t)
        metas.append(m)
    for t in traces:
        t.setdefault("maxapp", 1000)
    verdicts, stats = tlc.validate_batch("ConnTrace", "ConnTrace.cfg", traces, name="ConnTrace_C05", chunk=4000)
    ctx.add_traces(len(traces), stats)
    for t, m, (v, step) in zip(traces, metas, verdicts):
        if v == "ok":
            continue
        sig = "C05/%s/wk=%s/fault=%s" % (v, m["kind"], m["fault"] if str(m.get("fault", "")).startswith(("tls-", "real-")) else t["fault"])
        if m["escaped"]:
            sig += "/exc=%s" % m["escaped"]
        ctx.violation(sig, "%s: %s" % (v, json.dumps(m)[:500]), {"trace": t, "meta": m})
    for t, m in list(zip(traces, metas))[:1] + list(zip(traces, metas))[-2:]:
        ctx.sample({"bytes": m["bytes"][:100], "worker": m["kind"], "fault": m["fault"], "events": t["ev"]})
    ctx.assumptions += ["scripted in-process sockets; TLS handshake failures are run against real processes (lazy and on-connect handshake)",
                        "the application reads its whole input and answers 200 with Content-Length"]


def replay(ctx, data):
    m = data["case"]["meta"]
    t = data["case"]["trace"]
    ev, info = serve_stream(m["kind"], m["bytes"].encode("latin-1"), m["cuts"], m["fault"], m["fault_at"], cfgkw=m.get("cfgkw"),
                            peer=m.get("peer"))
    print("events:", ev, info)
    t = dict(t, ev=ev)
    verdicts, _ = tlc.validate_batch("ConnTrace", "ConnTrace.cfg", [t], name="ConnTrace_replay")
    print("verdict:", verdicts[0])
    return 1 if verdicts[0][0] != "ok" else 0


CHECKS = {"C05": c05}
