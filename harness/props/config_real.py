"""C16 on real servers: the merged configuration is the one the running master and its workers use.
Judged by TLC against specs/ConfigRunTrace.tla."""
import json
import os
import subprocess
import sys
import time

import tlc
from drivers import realproc as rp

DUMP = '''
import json as _json, os as _os
def _dump(cfg, where):
    out = {}
    for k, s in cfg.settings.items():
        v = s.get()
        out[k] = ("fn:" + getattr(v, "__name__", "?")) if callable(v) and not isinstance(v, type) else repr(v)
    with open(_os.path.join(%(dir)r, "cfg_" + where + ".json"), "w") as f:
        _json.dump(out, f)
def when_ready(server):
    _dump(server.cfg, "master")
_old_pwi = post_worker_init
def post_worker_init(worker):
    # what the server actually runs as, next to what the settings say
    with open(_os.path.join(%(dir)r, "eff_worker.json"), "w") as f:
        _json.dump({"class": type(worker).__module__ + "." + type(worker).__name__}, f)
    _dump(worker.cfg, "worker")
    _old_pwi(worker)
'''

# (worker class, command line, GUNICORN_CMD_ARGS, lines of the configuration file, {setting: expected repr})
RUNS = [
    ("sync", ["--keep-alive", "5", "--timeout", "41"], "--keep-alive 6 --graceful-timeout 17", ["keepalive = 7", "graceful_timeout = 9", "backlog = 99"],
     {"keepalive": "5", "timeout": "41", "graceful_timeout": "17", "backlog": "99"}),
    # a threaded worker whose threads use up every connection slot: no keep-alive connection can be parked, which is the
    # worker's business at run time -- the configured value stays what the sources say
    ("gthread", ["--threads", "4", "--worker-connections", "4", "--keep-alive", "5"], "--keep-alive 6", ["keepalive = 7"],
     {"keepalive": "5", "threads": "4", "worker_connections": "4"}),
    ("gthread", ["--threads", "3"], "--worker-connections 2 --keep-alive 6", ["keepalive = 7", "max_requests = 50"],
     {"keepalive": "6", "threads": "3", "worker_connections": "2", "max_requests": "50"}),
    # (threads given by a less authoritative source than the worker class: it changes the class of a sync worker only --
    # the documented substitution -- and no other)
    ("gevent", ["--worker-connections", "7"], "", ["keepalive = 3", "max_requests_jitter = 4", "limit_request_line = 0", "threads = 4"],
     {"worker_connections": "7", "keepalive": "3", "max_requests_jitter": "4", "limit_request_line": "0", "threads": "4"}),
    ("eventlet", [], "--keep-alive 0 --limit-request-fields 0 --threads 2", ["timeout = 0", "limit_request_field_size = 0"],
     {"keepalive": "0", "limit_request_fields": "0", "timeout": "0", "limit_request_field_size": "0", "threads": "2"}),
    ("sync", [], "--threads 3", ["keepalive = 4"], {"threads": "3", "keepalive": "4"}),
]


def run_one(i):
    wk, cli, envargs, lines, expect = RUNS[i]
    s = rp.Server(wk, workers=1, threads=None, args=list(cli), name="c16")
    try:
        s.config_text = s.hooks + DUMP % {"dir": s.dir} + "\n".join(lines) + "\n"
        with open(s.cfgfile, "w") as f:
            f.write(s.config_text)
        if envargs:
            s.env["GUNICORN_CMD_ARGS"] = envargs
        s.start()
        s.wait_booted(1)
        deadline = time.time() + 5
        vals = {}
        while time.time() < deadline:
            try:
                vals = {w: json.load(open(os.path.join(s.dir, "cfg_%s.json" % w))) for w in ("master", "worker")}
                break
            except (OSError, ValueError):
                time.sleep(0.1)
        if not vals:
            raise RuntimeError("no configuration dump from the server: %s" % s.errlog()[-500:])
        # the merged configuration of the same sources, loaded in a separate interpreter (no server started)
        code = ("import sys, json; sys.path.insert(0, %r); sys.argv = %r\n"
                "from gunicorn.app.wsgiapp import WSGIApplication\n"
                "a = WSGIApplication('%%(prog)s [OPTIONS] [APP_MODULE]', prog='gunicorn')\n"
                "out = {}\n"
                "for k, st in a.cfg.settings.items():\n"
                "    v = st.get()\n"
                "    out[k] = ('fn:' + getattr(v, '__name__', '?')) if callable(v) and not isinstance(v, type) else repr(v)\n"
                "print(json.dumps(out))\n") % (rp.REPO, ["gunicorn"] + s.cmd[3:])
        p = subprocess.run([rp.PY, "-c", code], cwd=rp.REPO, env=s.env, capture_output=True, text=True, timeout=60)
        merged = json.loads(p.stdout.strip().splitlines()[-1])
        ev = []
        for name in sorted(merged):
            if name in ("when_ready", "post_worker_init"):
                continue
            ok = True
            if name in expect:
                ok = merged[name] == expect[name]
            ev.append({"e": "setting", "name": name, "merged_ok": bool(ok), "master_same": vals["master"].get(name) == merged[name],
                       "worker_same": vals["worker"].get(name) == merged[name]})
        # the class the worker runs as is the one the merged worker_class names; documented exception (`threads`): the sync
        # worker with more than one thread is replaced by the threaded worker
        try:
            eff = json.load(open(os.path.join(s.dir, "eff_worker.json")))["class"]
        except (OSError, ValueError):
            eff = None
        named = merged.get("worker_class", "").strip("'")
        threads = int(merged.get("threads", "1"))
        want = {"sync": "gunicorn.workers.sync.SyncWorker", "gthread": "gunicorn.workers.gthread.ThreadWorker",
                "gevent": "gunicorn.workers.ggevent.GeventWorker", "eventlet": "gunicorn.workers.geventlet.EventletWorker"}.get(named)
        if named == "sync" and threads > 1:
            want = "gunicorn.workers.gthread.ThreadWorker"
        if want is not None:
            ev.append({"e": "setting", "name": "worker_class(effective)", "merged_ok": True, "master_same": True,
                       "worker_same": eff == want})
            if eff != want:
                merged["worker_class(effective)"] = want
                vals["master"]["worker_class(effective)"] = want
                vals["worker"]["worker_class(effective)"] = eff
        return {"wk": wk, "ev": ev}, {"wk": wk, "run": i, "cli": cli, "env": envargs, "file": lines,
                                      "diff": {n: [merged[n], vals["master"].get(n), vals["worker"].get(n)] for n in merged
                                               if n not in ("when_ready", "post_worker_init") and
                                               (vals["master"].get(n) != merged[n] or vals["worker"].get(n) != merged[n])}}
    finally:
        s.cleanup()


def real_side(ctx):
    from props.reload_real import _parallel
    plan = list(range(len(RUNS))) if not ctx.quick else [0, 1, 3, 5]
    results = _parallel(plan, lambda a, i: run_one(a), par=5)
    traces = [r[0] for r in results]
    metas = [r[1] for r in results]
    verdicts, stats = tlc.validate_batch("ConfigRunTrace", "ConfigRunTrace.cfg", traces, name="ConfigRunTrace_C16")
    ctx.add_traces(sum(len(t["ev"]) for t in traces), stats)
    ctx.coverage["real_servers"] = len(traces)
    for t, m, (v, step) in zip(traces, metas, verdicts):
        if v == "ok":
            continue
        e = t["ev"][step - 1]
        ctx.violation("C16/%s/real/setting=%s,wk=%s" % (v, e["name"], m["wk"]),
                      "%s: setting %s on a real %s server (command line %s, GUNICORN_CMD_ARGS %r, file %s): [merged, master, worker] = %s"
                      % (v, e["name"], m["wk"], m["cli"], m["env"], m["file"], m["diff"].get(e["name"])), {"trace": t, "meta": m})
    ctx.assumptions += ["real servers: values compared by repr() between the merged configuration (separate interpreter), "
                        "the master (when_ready) and a worker (post_worker_init)"]
