"""specs/Lifecycle.tla (the order of the server hooks) against real servers: every hook of the configuration file appends
a line to one O_APPEND file; TLC follows the log with specs/LifecycleTrace.tla.  The hook order is not one of the listed
properties: a log the model cannot follow is reported as drift (the model or the code has moved), never as a violation."""
import os
import signal
import time

import tlc
from drivers import realproc as rp

HOOKTEXT = '''
_LF = %(path)r
def _ev(name, master, *a):
    fd = _os.open(_LF, _os.O_WRONLY | _os.O_APPEND | _os.O_CREAT, 0o644)
    try:
        _os.write(fd, (" ".join([name, str(_os.getpid()), str(master)] + [str(x) for x in a]) + "\\n").encode())
    finally:
        _os.close(fd)
_pwi = post_worker_init
_wex = worker_exit
def on_starting(server): _ev("on_starting", server.pid)
def when_ready(server): _ev("when_ready", server.pid)
def pre_fork(server, worker): _ev("pre_fork", server.pid, worker.age)
def post_fork(server, worker): _ev("post_fork", worker.ppid, worker.age)
def post_worker_init(worker):
    _ev("post_worker_init", worker.ppid, worker.age)
    _pwi(worker)
def worker_int(worker): _ev("worker_int", worker.ppid, worker.age)
def worker_abort(worker): _ev("worker_abort", worker.ppid, worker.age)
def pre_request(worker, req): _ev("pre_request", worker.ppid, worker.age)
def post_request(worker, req, environ, resp): _ev("post_request", worker.ppid, worker.age)
def child_exit(server, worker): _ev("child_exit", server.pid, worker.age)
def worker_exit(server, worker):
    _ev("worker_exit", worker.ppid, worker.age)
    _wex(server, worker)
def nworkers_changed(server, new, old): _ev("nworkers_changed", _os.getpid(), new, -1 if old is None else old)
def on_reload(server): _ev("on_reload", server.pid)
def on_exit(server): _ev("on_exit", server.pid)
def pre_exec(server): _ev("pre_exec", server.pid)
'''


DEFAULT_SCRIPT = (("req", 3), ("ttin",), ("ttou",), ("hup", 3), ("req", 3), ("kill",), ("hang",), ("quit",), ("req", 1))


def random_script(rng, n=8):
    ops = []
    for _ in range(n):
        ops.append(rng.choice([("req", rng.randint(1, 4)), ("ttin",), ("ttou",), ("hup", rng.randint(1, 3)), ("kill",), ("quit",),
                               ("req", 1), ("kill",)]))
    return tuple(ops)


USR2_SCRIPT = (("req", 2), ("usr2",), ("req", 3), ("promote",), ("req", 2), ("kill",), ("ttin",), ("req", 1))


def run_lifecycle(wk, script=DEFAULT_SCRIPT):
    """operator actions on a real server whose hooks log themselves: ("req", n) requests, ("ttin",), ("ttou",),
    ("hup", k) reload with k workers configured, ("kill",) SIGKILL to a worker, ("quit",) SIGQUIT to a worker,
    ("hang",) a request that never returns (the watchdog aborts the worker), ("usr2",) binary upgrade: a second master
    (only requests until) ("promote",) the old master is told to leave; TERM to the master in charge at the end.
    -> list of (trace, meta), one per master"""
    s = rp.Server(wk, workers=2, threads=2 if wk == "gthread" else None, name="life", pidfile=True,
                  args=["--timeout", "3", "--graceful-timeout", "3", "--keep-alive", "1"])
    i = s.cmd.index("-w")
    del s.cmd[i:i + 2]
    logp = os.path.join(s.dir, "hooks.log")
    hooks = HOOKTEXT % {"path": logp}
    s.rewrite_config(hooks + "workers = 2\n")
    killed_pids = []
    cur = {"pid": None, "new": None}
    halts = {}                 # master pid -> number of its log lines when it was told to stop

    def readlog():
        try:
            with open(logp) as f:
                return [ln.split() for ln in f.read().splitlines()]
        except OSError:
            return []

    def nlines(master):
        return len([ln for ln in readlog() if len(ln) > 2 and ln[2] == str(master)])

    def workers():
        return [p for p in rp.children_of(cur["pid"]) if p != cur["new"]]

    def settle(n, timeout=10):
        deadline = time.time() + timeout
        while time.time() < deadline:
            live = [p for p in workers() if rp.proc_state(p) not in (None, "Z") and p in s.booted()]
            if len(live) == n and len(workers()) == n:
                return live
            time.sleep(0.1)
        return [p for p in workers() if rp.proc_state(p) not in (None, "Z")]
    lines = []
    try:
        s.start()
        s.wait_booted(2)
        cur["pid"] = s.pid
        n = 2
        for op in script:
            if op[0] == "req":
                for _ in range(op[1]):
                    try:
                        s.get("/pid")
                    except OSError:
                        pass
            elif op[0] == "ttin":
                os.kill(cur["pid"], signal.SIGTTIN)
                n += 1
                settle(n)
            elif op[0] == "ttou":
                os.kill(cur["pid"], signal.SIGTTOU)
                n = max(1, n - 1)
                time.sleep(0.3)
                settle(n)
            elif op[0] == "hup":
                s.rewrite_config(hooks + "workers = %d\n" % op[1])
                os.kill(cur["pid"], signal.SIGHUP)
                n = op[1]
                time.sleep(1.5)
                settle(n)
            elif op[0] in ("kill", "quit"):
                live = settle(n)
                if live:
                    if op[0] == "kill":
                        killed_pids.append(live[0])
                    os.kill(live[0] if op[0] == "kill" else live[-1], signal.SIGKILL if op[0] == "kill" else signal.SIGQUIT)
                    time.sleep(0.6)
                    settle(n)
            elif op[0] == "hang":
                # a request that never returns: the watchdog aborts the worker (classes whose heartbeat stops)
                try:
                    c = s.connect(timeout=8)
                    c.sendall(b"GET /hang HTTP/1.1\r\nHost: h\r\n\r\n")
                    time.sleep(5.5)
                    c.close()
                except OSError:
                    pass
                settle(n)
            elif op[0] == "usr2" and cur["new"] is None:
                os.kill(cur["pid"], signal.SIGUSR2)
                deadline = time.time() + 10
                while time.time() < deadline and cur["new"] is None:
                    for ln in readlog():
                        if ln[0] == "when_ready" and int(ln[2]) != cur["pid"]:
                            cur["new"] = int(ln[2])
                    time.sleep(0.1)
                time.sleep(1.0)
            elif op[0] == "promote" and cur["new"] is not None:
                halts[cur["pid"]] = nlines(cur["pid"])
                os.kill(cur["pid"], signal.SIGTERM)
                s.wait_exit(10)
                cur["pid"], cur["new"] = cur["new"], None
                n = 2
                settle(n)
        time.sleep(0.3)
        halts[cur["pid"]] = nlines(cur["pid"])
        os.kill(cur["pid"], signal.SIGTERM)
        deadline = time.time() + 10
        while time.time() < deadline and rp.proc_state(cur["pid"]) not in (None, "Z"):
            time.sleep(0.1)
        lines = readlog()
    finally:
        for p in (cur["new"], cur["pid"]):
            if p and p != getattr(s.proc, "pid", None) and rp.proc_state(p) not in (None, "Z"):
                for c in rp.children_of(p):
                    try:
                        os.kill(c, signal.SIGKILL)
                    except OSError:
                        pass
                try:
                    os.kill(p, signal.SIGKILL)
                except OSError:
                    pass
        s.cleanup()
    out = []
    masters = []
    for ln in lines:
        if len(ln) > 2 and ln[2] not in masters:
            masters.append(ln[2])
    for mp in masters:
        mine = [ln for ln in lines if len(ln) > 2 and ln[2] == mp]
        pid_age = {int(ln[1]): int(ln[3]) for ln in mine if ln[0] == "post_fork"}
        halt_at = halts.get(int(mp))
        ev = []
        for k, ln in enumerate(mine):
            if k == halt_at:
                ev.append({"h": "halt", "a": 0, "b": 0})
            ev.append({"h": ln[0], "a": int(ln[3]) if len(ln) > 3 else 0, "b": int(ln[4]) if len(ln) > 4 else 0})
        if halt_at is not None and halt_at >= len(mine):
            ev.append({"h": "halt", "a": 0, "b": 0})
        out.append(({"wk": wk, "killed": [pid_age[p] for p in killed_pids if p in pid_age], "ev": ev},
                    {"wk": wk, "script": [list(o) for o in script], "master": len(out) + 1, "hooks_logged": len(mine),
                     "kinds": sorted({ln[0] for ln in mine})}))
    return out


def design(ctx):
    for dev, expect in (((), None), (("ForkBeforeReady",), "NoWorkerBeforeReady"), (("ChildExitForLiving",), "ChildExitOnlyForTheDead")):
        label = "_".join(dev) or "design"
        cfgp = os.path.join(tlc.OUT, "cfg", "Lifecycle_%s.cfg" % label)
        os.makedirs(os.path.dirname(cfgp), exist_ok=True)
        tlc.write_cfg(cfgp, spec="Spec", constants={"MaxAge": 3 if not (ctx.quick and not dev) else 2, "MaxN": 2,
                                                       "Threads": 1 if ctx.quick or dev else 2, "Dev": set(dev)},
                      invariants=["TypeOK", "NoWorkerBeforeReady", "RequestsOnlyAfterInit"],
                      properties=["ChildExitOnlyForTheDead", "NoForkWhileHalting", "NothingAfterOnExit"] + (["DeadAreReaped"] if not dev else []))
        r = tlc.run("Lifecycle", cfgp, name="Lifecycle_" + label, workers=8, timeout=600)
        if expect is None:
            if not r.ok:
                raise tlc.TLCError("Lifecycle design violates %s" % r.violated)
            ctx.add_model(r, "Lifecycle (server hooks)")
        else:
            ctx.coverage.setdefault("deviation_runs", []).append({"dev": dev[0], "expected": expect, "reproduced": expect in r.violated})


def inductive(ctx):
    """Apalache: the safety part of Lifecycle.tla as an inductive invariant (specs/apalache/MC_Lifecycle.tla) for constants
    beyond TLC's enumeration (6 workers over a master's life, 4 configured, 3 threads): Init => IndInv, IndInv /\\ Next =>
    IndInv'; and the deviation ForkBeforeReady must break consecution (non-vacuity)."""
    import shutil
    import subprocess
    d = os.path.join(tlc.OUT, "apalache", "Lifecycle")
    shutil.rmtree(d, ignore_errors=True)
    os.makedirs(d)
    specs = os.path.join(os.path.dirname(os.path.dirname(os.path.dirname(os.path.abspath(__file__)))), "specs")
    for f in ("Lifecycle.tla", os.path.join("apalache", "MC_Lifecycle.tla"), os.path.join("apalache", "MC_LifecycleDev.tla")):
        shutil.copy(os.path.join(specs, f), d)
    res = {}
    for label, mod, args in (("initiation", "MC_Lifecycle.tla", ["--init=Init", "--inv=IndInv", "--length=0"]),
                             ("consecution", "MC_Lifecycle.tla", ["--init=IndInit", "--inv=IndInv", "--length=1"]),
                             ("deviation", "MC_LifecycleDev.tla", ["--init=IndInit", "--inv=IndInv", "--length=1"])):
        try:
            os.makedirs(os.path.join(d, "tmp"), exist_ok=True)
            r = subprocess.run(["apalache-mc", "check"] + args + ["--out-dir=" + os.path.join(d, "out"), mod], cwd=d,
                               env=dict(os.environ, TMPDIR=os.path.join(d, "tmp")),      # (the wrapper's SANY scratch directories)
                               stdout=subprocess.PIPE, stderr=subprocess.STDOUT, text=True, timeout=900)
        except (OSError, subprocess.TimeoutExpired) as e:
            res[label] = "not run: %s" % type(e).__name__
            continue
        res[label] = "NoError" if "The outcome is: NoError" in r.stdout else "Error" if "Checker has found an error" in r.stdout else "failed"
    shutil.rmtree(d, ignore_errors=True)
    ctx.coverage["apalache_inductive_invariant"] = dict(res, constants="MaxAge=6 MaxN=4 Threads=3",
                                                        invariant="Types, NoWorkerBeforeReady, RequestsOnlyAfterInit, ages in order")
    if res.get("initiation") == "Error" or res.get("consecution") == "Error":
        raise tlc.TLCError("Lifecycle: the inductive invariant does not hold: %s" % res)
    if res.get("deviation") == "NoError":
        raise tlc.TLCError("Lifecycle: the deviation ForkBeforeReady does not break the inductive invariant")


def follow(ctx):
    from props.reload_real import _parallel
    plan = [("sync", DEFAULT_SCRIPT), ("gthread", DEFAULT_SCRIPT), ("sync", random_script(ctx.rng, 6)), ("gthread", USR2_SCRIPT)] if ctx.quick else \
        [(wk, sc) for wk in ("sync", "gthread", "gevent", "eventlet") for sc in (DEFAULT_SCRIPT, USR2_SCRIPT)] + \
        [(wk, random_script(ctx.rng)) for wk in ("sync", "gthread", "gevent", "eventlet") for _ in range(4)]
    try:
        results = [x for r in _parallel(plan, lambda a, i: run_lifecycle(a[0], a[1]), par=6) for x in r]
    except Exception as e:   # noqa  (outside the property: a failure of this follower is recorded, it does not fail the check)
        ctx.coverage["hook_log_runs"] = "not run: %r" % (e,)
        return
    n = 0
    for (t, m) in results:
        threads = {"sync": 1, "gthread": 2}.get(t["wk"], 1000)
        cfgp = os.path.join(tlc.OUT, "cfg", "LifecycleTrace_%s.cfg" % t["wk"])
        os.makedirs(os.path.dirname(cfgp), exist_ok=True)
        tlc.write_cfg(cfgp, spec="TSpec", constants={"MaxAge": 64, "MaxN": 8, "Threads": threads, "Dev": set()},
                      constraints=["Record"], postcondition="Post")
        verdicts, stats = tlc.validate_batch("LifecycleTrace", cfgp, [t], name="LifecycleTrace_%s" % t["wk"])
        ctx.add_traces(1, stats)
        n += m["hooks_logged"]
        v, stepn = verdicts[0]
        if v != "ok":
            ctx.note_drift("server hooks (%s, %s, master %d): %s at event %d: ...%s" % (t["wk"], m["script"], m["master"], v, stepn,
                                                                                     t["ev"][max(0, stepn - 4):stepn]))
    ctx.coverage["hook_kinds_followed"] = sorted({k for _, m in results for k in m["kinds"]})
    ctx.coverage["hook_kinds_never_logged"] = sorted({"pre_exec"} - {k for _, m in results for k in m["kinds"]})
    ctx.coverage["hook_log_runs"] = len(results)
    ctx.coverage["hook_calls_followed"] = n
