"""Master process: C03 (worker pool converges), C10 (reload), C11 (timeout scan), C04 (shutdown) -
master side.

(D) specs/Arbiter.tla checked exhaustively by TLC on small constants (intended design Dev = {} must
    satisfy every invariant / temporal property; the deviations of the current tree must reproduce
    the expected counterexamples);
(C) spec -> code: TLC -simulate behaviours of Arbiter.tla (deviations of the current tree on) are
    replayed step by step into the REAL gunicorn.arbiter.Arbiter.run() on the simulated kernel
    (drivers/simos_kernel.py), projected state compared before every master operation;
    a mismatch is DRIFT;
(P) real-code traces (explicit dangerous-window schedules, single-fault injection at every injection
    point of base scenarios, seeded random schedules, and the replayed TLC behaviours) are judged by
    TLC against specs/ArbiterTrace.tla.  Only a (P) failure is a violation.
"""
import os
import re
import time
from concurrent.futures import ThreadPoolExecutor

import tlc
from drivers import arbiter as drv

OUT = tlc.OUT
AS_IS_DEV = {"HbInitWallClock", "HaltEscapes", "ReloadRetiresByCount"}

SAFETY = ["NoUntrackedChild", "NoZombieAtRest", "TargetBounds", "KillOnlyChildren", "RetireIsOldest",
          "NoRespawnForever", "SigQueueBound", "MurderOnlyStale", "HungKilledInTime",
          "ListenersUntouchedIfSameAddress", "ListenRefcountPositive", "OldWorkersOnlyTermed",
          "SpawnBeforeRetire", "ExitStatusZeroOnTerm", "NothingLeftBehind", "ExitWithinGraceful",
          "TermIsGraceful", "KillAfterDeadline"]

BASE = dict(MaxForks=6, InitWorkers=2, MaxNW=3, MaxFaults=2, MaxHangs=0, MaxSigs=1,
            Sigs={"TTIN", "TTOU", "HUP"}, HupW={1, 2}, HupChg={0}, Statuses={"ok", "b3"},
            Timeout=2, Graceful=2, AutoBeat=True, Dev=set())


# ---------------------------------------------------------------------------------------------
# (D) model runs
# ---------------------------------------------------------------------------------------------

def _run_tlc(label, props=(), inv=SAFETY, spec=None, workers=4, timeout=1500, **over):
    """-> dict(label, ok, violated, temporal, result)"""
    c = dict(BASE)
    c.update(over)
    spec = spec or ("SpecAuto" if c["AutoBeat"] else "Spec")
    os.makedirs(os.path.join(OUT, "cfg"), exist_ok=True)
    cfg = tlc.write_cfg(os.path.join(OUT, "cfg", "Arbiter_%s.cfg" % label), spec=spec, constants=c,
                        invariants=list(inv), properties=list(props), constraints=["LevelBound"])
    name = "Arbiter_" + label
    temporal = []
    try:
        r = tlc.run("Arbiter", cfg, name=name, workers=workers, timeout=timeout)
    except tlc.TLCError:
        # harness/tlc.py does not recognise "Temporal property X was violated" (TLC 1.8 wording)
        path = os.path.join(OUT, "tlc", name, "tlc.out")
        out = open(path).read() if os.path.exists(path) else ""
        temporal = re.findall(r"Error: Temporal property (\w+) was violated", out)
        if not temporal:
            raise
        r = tlc.TLCResult()
        r.output = out
        m = None
        for m in re.finditer(r"(\d+) states generated, (\d+) distinct states found", out):
            pass
        if m:
            r.generated, r.distinct = int(m.group(1)), int(m.group(2))
        r.violated = list(temporal)
        r.cmd = cfg
    return {"label": label, "ok": r.ok, "violated": list(r.violated), "result": r,
            "trace": re.findall(r"State \d+: <(\w+(?:\([^)]*\))?) line", r.output)}


def run_models(ctx, design, deviations):
    """design: [(label, kwargs)] must pass.  deviations: [(label, expected clause, kwargs)] must fail
    with the expected clause (otherwise the model no longer describes the tree: drift)."""
    jobs = [("d", j) for j in design] + [("x", j) for j in deviations]

    def one(job):
        kind, j = job
        if kind == "d":
            return kind, j, _run_tlc(j[0], **j[1])
        return kind, j, _run_tlc(j[0], **j[2])

    ex = ThreadPoolExecutor(max_workers=4)
    futs = [ex.submit(one, j) for j in jobs]
    ex.shutdown(wait=False)
    return futs


def collect_models(ctx, futs):
    for f in futs:
        kind, j, res = f.result()
        r = res["result"]
        if kind == "d":
            if not res["ok"]:
                raise tlc.TLCError("design model %s (Dev = {}) violates %s: %s"
                                   % (j[0], res["violated"], res["trace"][-25:]))
            ctx.add_model(r, j[0])
        else:
            expected = j[1]
            hit = (not res["ok"]) and expected in res["violated"]
            ctx.coverage.setdefault("deviation_runs", []).append(
                {"label": j[0], "expected": expected, "reproduced": hit, "violated": res["violated"],
                 "distinct": r.distinct, "counterexample": res["trace"][-20:]})
            if not hit:
                ctx.note_drift("model with deviations %s no longer violates %s (got %s)"
                               % (sorted(j[2].get("Dev", [])), expected, res["violated"]))
    ctx.coverage["exhaustive"] = True


# ---------------------------------------------------------------------------------------------
# schedules
# ---------------------------------------------------------------------------------------------

def ex(steps, **kw):
    s = {"nw": 2, "timeout": 2, "graceful": 1, "T": 2,
         "sched": {"kind": "explicit", "steps": [{"at": a, "do": d} for a, d in steps]}}
    s.update(kw)
    return s


def rnd(seed, **kw):
    sched = {"kind": "random", "seed": seed}
    top = {}
    for k, v in kw.items():
        if k in ("nw", "timeout", "graceful", "T", "unix", "pidfile", "tail_s"):
            top[k] = v
        else:
            sched[k] = v
    s = {"nw": 2, "timeout": 2, "graceful": 1, "T": 2, "sched": sched}
    s.update(top)
    return s


def n_points(base):
    tr = drv.run_one(base)
    tail = [i for i, st in tr["meta"]["applied"] if st[0] == "tail"]
    return (tail[0] if tail else tr["meta"]["points"]), tr


def inject_everywhere(base_steps, extra_sets, stride=1, **kw):
    """single-fault injection: the steps of `extra` at EVERY injection point of the base scenario"""
    base = ex(base_steps, **kw)
    n, _ = n_points(base)
    out = []
    for extra in extra_sets:
        for i in range(1, n + 1, stride):
            out.append(ex(base_steps + [(["#", i], extra)], **kw))
    return out


def fam_c03(ctx):
    rng = ctx.rng
    S = []
    # the fork/assign window, for every fork of the start-up and of a respawn
    for k in (1, 2, 3):
        for status in (256, 9, 0, 768, 1024):
            S.append(ex([(["fork.post", k], [["die", "last", status]])], nw=3))
    for to in (1, 2, 3):
        S.append(ex([(["fork.post", 2], [["die", "last", 256]])], timeout=to))
    # respawn window: a worker dies, its replacement dies inside the window
    S.append(ex([(["select.pre", 2], [["die", "oldest", 9]]), (["fork.post", 3], [["die", "last", 256]])]))
    # deaths between the kills of manage_workers (TTOU x2 at 3 workers)
    for k in (1, 2):
        for who in ("oldest", "youngest"):
            S.append(ex([(["select.pre", 2], [["sig", "TTOU"], ["sig", "TTOU"]]),
                         (["kill.pre", k], [["die", who, 256]])], nw=3))
            S.append(ex([(["select.pre", 2], [["sig", "TTOU"], ["sig", "TTOU"]]),
                         (["kill.post", k], [["die", who, 0]])], nw=3))
    # more than 5 signals queued at once
    for mix in (["TTIN"] * 7, ["TTOU"] * 7, ["TTIN", "TTOU"] * 4, ["TTIN"] * 5 + ["TTOU"] * 3,
                ["TTIN", "TTIN", "HUP", "TTOU", "TTIN", "TTIN", "TTOU"]):
        S.append(ex([(["select.pre", 2], [["sig", n, 2, 0] if n == "HUP" else ["sig", n] for n in mix])]))
    # TTOU at one worker
    S.append(ex([(["select.pre", 2], [["sig", "TTOU"]]), (["select.pre", 4], [["sig", "TTOU"]])], nw=1))
    S.append(ex([(["select.pre", 2], [["sig", "TTOU"], ["sig", "TTOU"], ["sig", "TTOU"]])], nw=2))
    # two deaths, one SIGCHLD (coalesced)
    S.append(ex([(["select.pre", 2], [["die", "oldest", 256], ["die", "youngest", 9]])], nw=3))
    S.append(ex([(["select.pre", 2], [["die", 1, 0], ["die", 2, 0], ["die", 3, 0]])], nw=3))
    # death while the handler is reaping
    S.append(ex([(["select.pre", 2], [["die", "oldest", 256]]), (["wait.post", 1], [["die", "youngest", 9]])], nw=3))
    S.append(ex([(["select.pre", 2], [["die", "oldest", 256]]), (["wait.pre", 2], [["die", "youngest", 9]])], nw=3))
    # boot failures (status 3 / 4) at every early point; a second one while halting
    for code in (768, 1024):
        for at in (["fork.post", 1], ["assign.post", 1], ["sleep.post", 1], ["fork.post", 2], ["select.pre", 1],
                   ["select.pre", 3]):
            S.append(ex([(at, [["die", "last", code]])]))
        S.append(ex([(["select.pre", 2], [["die", "oldest", code]]), (["kill.post", 1], [["die", "youngest", code]])]))
        S.append(ex([(["select.pre", 2], [["die", "oldest", code], ["die", "youngest", code]])], nw=3))
    # HUP with a changed worker count, a worker dying during the reload
    for nwn in (1, 3):
        S.append(ex([(["select.pre", 2], [["sig", "HUP", nwn, 0]])]))
        S.append(ex([(["select.pre", 2], [["sig", "HUP", nwn, 0]]), (["fork.post", 3], [["die", "oldest", 256]])]))
        S.append(ex([(["select.pre", 2], [["sig", "HUP", nwn, 0]]), (["kill.post", 1], [["die", "youngest", 256]])]))
    # single-fault injection at every injection point of two base scenarios
    base1 = [(["select.pre", 2], [["sig", "TTIN"]]), (["select.pre", 4], [["sig", "TTOU"], ["sig", "TTOU"]])]
    S += inject_everywhere(base1, [[["die", "oldest", 256]], [["die", "youngest", 9]], [["die", "last", 768]],
                                   [["sig", "TTOU"]], [["sig", "HUP", 1, 0]]], stride=1 if not ctx.quick else 2)
    base2 = [(["select.pre", 2], [["sig", "HUP", 3, 0]])]
    S += inject_everywhere(base2, [[["die", "oldest", 0]], [["die", "youngest", 256], ["die", "oldest", 256]],
                                   [["sig", "TTIN"]]], stride=1 if not ctx.quick else 2)
    # a worker dies (and is reaped by the SIGCHLD handler) at every source line the master executes inside its
    # once-a-second passes over the workers: murder_workers (between its snapshot of WORKERS and each heartbeat lookup),
    # manage_workers, kill_workers ...
    for fn, upto in (("murder_workers", 14 if ctx.quick else 40), ("manage_workers", 10 if ctx.quick else 30)):
        for nth in range(1, upto):
            for who in ("youngest", "oldest"):
                S.append(ex([(["line:" + fn, nth], [["die", who, 9]])], nw=2, line_points=True))
    # seeded random histories
    n = 1000 if ctx.quick else 6000
    for i in range(n):
        S.append(rnd(ctx.seed * 100000 + i, nw=rng.choice([1, 2, 2, 3]), timeout=rng.choice([1, 2, 3]),
                     events=rng.choice([3, 6, 10, 16]), sigs=["TTIN", "TTOU", "HUP", "TTOU", "TTIN"],
                     # exit codes, plain signals, signals with the core-dump bit (139, 134), real-time signals (34, 64), exit code 255
                     statuses=[0, 256, 256, 9, 15, 11, 139, 134, 34, 64, 65280, 512] + ([768, 1024] if i % 5 == 0 else []),
                     window=rng.choice([0.0, 0.3, 0.6]), p_act=rng.choice([0.05, 0.12, 0.3]),
                     burst=rng.choice([0.05, 0.3])))
    return S


def fam_c11(ctx):
    rng = ctx.rng
    S = []
    # a worker hangs at the k-th rest of the master (before / after its first heartbeat), blocked or
    # ignoring ABRT, for several timeouts
    for to in (1, 2, 3):
        for k in range(1, 3 * to + 6):
            for ign in (0, 1):
                for who in ("oldest", "youngest"):
                    # (abrt_core: the aborted worker dumps core - its wait status carries the 0x80 bit)
                    S.append(ex([(["select.tick", k], [["hang", who, ign]])], timeout=to, nw=2, tail_s=to + 6,
                                abrt_core=bool((k + ign) % 2)))
    # long timeouts: the lateness of the kill must not grow with the timeout (the master looks once a second)
    # (the worker hangs after its first heartbeat: 2 ticks per second, the environment beats just in time)
    for to in (8, 20, 30):
        for k in (2 * to + 2, 2 * to + 5, 2 * to + 9, 2 * to + 14):
            for ign in (0, 1):
                S.append(ex([(["select.tick", k], [["hang", "oldest", ign]])], timeout=to, nw=2, tail_s=2 * to + 8))
    # hang right after fork, after assign, of a respawned worker
    for ign in (0, 1):
        S.append(ex([(["fork.post", 1], [["hang", "last", ign]])]))
        S.append(ex([(["select.pre", 5], [["die", "oldest", 9]]), (["fork.post", 3], [["hang", "last", ign]])]))
        S.append(ex([(["select.pre", 5], [["die", "oldest", 9]]), (["select.pre", 9], [["hang", "youngest", ign]])]))
        # two workers hang together; hang while signals are being handled
        S.append(ex([(["select.pre", 6], [["hang", "oldest", ign], ["hang", "youngest", 1 - ign]])], nw=3))
        S.append(ex([(["select.pre", 6], [["hang", "oldest", ign], ["sig", "TTIN"], ["sig", "TTOU"], ["sig", "HUP", 2, 0]])]))
    n = 900 if ctx.quick else 5000
    for i in range(n):
        to = rng.choice([1, 2, 3])
        S.append(rnd(ctx.seed * 100000 + 50000 + i, nw=rng.choice([1, 2, 3]), timeout=to, tail_s=to + 6,
                     events=rng.choice([2, 4, 8]), sigs=["TTIN", "TTOU", "HUP"], die=1, hang=4,
                     sig=rng.choice([0, 1, 2]), no_window=True, statuses=[0, 256, 9],
                     p_act=rng.choice([0.05, 0.1, 0.2]), jitter=rng.choice([0, 0, 1, 2]),
                     max_points=rng.choice([60, 150, 300]), hup_workers=[1, 2, 3]))
    return S


def fam_c10(ctx):
    rng = ctx.rng
    S = []
    for nw0 in (1, 2, 3):
        for nwn in (1, 2, 3):
            for chg in (0, 1):
                S.append(ex([(["select.pre", 2], [["sig", "HUP", nwn, chg]])], nw=nw0, unix=bool(chg and nw0 == 2)))
    # a NEW worker crashes inside the reload's spawn loop (recorded as an observation, see WAIVE_ON_CRASH)
    S.append(ex([(["select.pre", 2], [["sig", "HUP", 2, 0]]), (["fork.post", 4], [["die", 3, 256]])]))
    # several HUPs, HUP with TTIN/TTOU
    S.append(ex([(["select.pre", 2], [["sig", "HUP", 2, 0], ["sig", "HUP", 3, 0]])]))
    S.append(ex([(["select.pre", 2], [["sig", "HUP", 2, 0]]), (["kill.post", 1], [["sig", "HUP", 1, 0]])]))
    S.append(ex([(["select.pre", 2], [["sig", "HUP", 2, 1]]), (["select.pre", 5], [["sig", "HUP", 2, 0]])]))
    S.append(ex([(["select.pre", 2], [["sig", "TTIN"], ["sig", "HUP", 2, 0], ["sig", "TTOU"]])]))
    # a second HUP / an old worker's death / TTIN / TTOU at every injection point of a reload
    base = [(["select.pre", 2], [["sig", "HUP", 2, 0]])]
    S += inject_everywhere(base, [[["sig", "HUP", 3, 0]], [["die", "oldest", 256]], [["sig", "TTOU"]],
                                  [["sig", "HUP", 1, 1]]], stride=1)
    base = [(["select.pre", 2], [["sig", "HUP", 1, 0]])]
    S += inject_everywhere(base, [[["sig", "HUP", 2, 0]], [["die", "oldest", 9]], [["sig", "TTIN"]]], nw=3, stride=1)
    # an old worker dies (and is reaped by the SIGCHLD handler) at every source line of the master's once-a-second passes
    # that follow a reload
    for fn, upto in (("murder_workers", 14 if ctx.quick else 40), ("manage_workers", 10 if ctx.quick else 30)):
        for nth in range(1, upto):
            S.append(ex([(["select.pre", 2], [["sig", "HUP", 2, 0]]), (["line:" + fn, nth], [["die", "oldest", 15 if nth % 2 else 0]])],
                        nw=2, line_points=True))
    n = 800 if ctx.quick else 5000
    for i in range(n):
        S.append(rnd(ctx.seed * 100000 + 60000 + i, nw=rng.choice([1, 2, 3]), timeout=rng.choice([2, 3]),
                     events=rng.choice([2, 4, 8]), sigs=["HUP", "HUP", "HUP", "TTIN", "TTOU"], die=1, sig=4,
                     no_window=True, statuses=[0, 256, 9], addrchg=rng.choice([0.0, 0.3]),
                     p_act=rng.choice([0.05, 0.15, 0.3]), unix=(i % 7 == 0)))
    return S


def fam_c04(ctx):
    rng = ctx.rng
    S = []
    hangs = [[], [["hang", "oldest", 0]], [["hang", "youngest", 1]], [["hang", "oldest", 1], ["hang", "youngest", 1]]]
    for sig in ("TERM", "INT", "QUIT"):
        for hg in hangs:
            for gr in (1, 2):
                pre = [(["select.pre", 3], hg)] if hg else []
                S.append(ex(pre + [(["select.pre", 4], [["sig", sig]])], graceful=gr, unix=(gr == 2), nw=2))
    # the signal at every injection point of a start-up + TTIN + reload scenario
    base = [(["select.pre", 2], [["sig", "TTIN"]]), (["select.pre", 4], [["sig", "HUP", 2, 0]])]
    S += inject_everywhere(base, [[["sig", "TERM"]], [["sig", "INT"]], [["sig", "QUIT"]]], stride=1)
    base = [(["select.pre", 3], [["hang", "oldest", 1]])]
    S += inject_everywhere(base, [[["sig", "TERM"]], [["sig", "QUIT"]]], stride=1, unix=True)
    # signals and deaths while inside stop()
    for sig in ("TERM", "INT"):
        basestop = [(["select.pre", 3], [["hang", "oldest", 1]]), (["select.pre", 4], [["sig", sig]])]
        S += inject_everywhere(basestop, [[["sig", "INT"]], [["sig", "TERM"]], [["sig", "HUP", 2, 0]],
                                          [["die", "youngest", 256]], [["sig", "TTIN"]]], stride=1, graceful=2)
    n = 700 if ctx.quick else 4000
    for i in range(n):
        S.append(rnd(ctx.seed * 100000 + 70000 + i, nw=rng.choice([1, 2, 3]), timeout=rng.choice([2, 3]),
                     graceful=rng.choice([1, 2, 3]), events=rng.choice([2, 4, 8]),
                     sigs=["TERM", "INT", "QUIT", "TTIN", "HUP", "TTOU"], die=1, hang=2, sig=3, no_window=True,
                     statuses=[0, 256, 9], p_act=rng.choice([0.05, 0.15, 0.3]), unix=(i % 3 == 0),
                     jitter=rng.choice([0, 0, 1]), max_points=rng.choice([40, 120])))
    return S


# ---------------------------------------------------------------------------------------------
# (C) spec -> code
# ---------------------------------------------------------------------------------------------

SIM_CFGS = {
    "serve": dict(MaxForks=10, MaxFaults=3, MaxHangs=1, MaxSigs=4, Sigs={"TTIN", "TTOU", "HUP"},
                  HupW={1, 2, 3}, HupChg={0, 1}, Statuses={"ok", "err", "sig", "b3", "b4"}, AutoBeat=True),
    "beat": dict(MaxForks=8, MaxFaults=1, MaxHangs=2, MaxSigs=1, Sigs={"TTIN", "HUP"}, HupW={1, 2},
                 HupChg={0}, Statuses={"err"}, AutoBeat=False),
    "stop": dict(MaxForks=8, MaxFaults=2, MaxHangs=1, MaxSigs=3, Sigs={"TTIN", "HUP", "TERM", "INT", "QUIT"},
                 HupW={1, 2}, HupChg={0, 1}, Statuses={"ok", "err", "b3"}, AutoBeat=True),
}


def conformance(ctx, kinds, num):
    """TLC behaviours -> real code.  Returns the recorded traces (judged with the others)."""
    traces = []
    stats = {"behaviours": 0, "master_ops": 0, "drift": 0}
    for kind in kinds:
        c = dict(BASE)
        c.update(SIM_CFGS[kind])
        c["Dev"] = set(AS_IS_DEV)
        cfg = tlc.write_cfg(os.path.join(OUT, "cfg", "Arbiter_sim_%s_%s.cfg" % (kind, ctx.prop)),
                            spec="SpecAuto" if c["AutoBeat"] else "Spec", constants=c, constraints=["LevelBound"])
        behs, _ = tlc.simulate_behaviours("Arbiter", cfg, num=num, depth=90, seed=ctx.seed + 1,
                                          name="Arbiter_sim_%s_%s" % (kind, ctx.prop))
        for b in behs:
            drift, tr = drv.replay_behaviour(b, c)
            stats["behaviours"] += 1
            stats["master_ops"] += tr["meta"]["replayed_ops"]
            if drift:
                stats["drift"] += 1
                ctx.note_drift("spec->code (%s): %s [%s]" % (kind, drift, " ".join(a for a, _ in b[:40])))
            elif tr["meta"]["end"] != "end":
                tr["spec"] = {"replayed": kind}
                tr["cfg"]["prop"] = ctx.prop
                traces.append(tr)
    ctx.coverage["spec_to_code"] = stats
    return traces


# ---------------------------------------------------------------------------------------------
# (P) judging
# ---------------------------------------------------------------------------------------------

def summarize(ev, upto):
    """python mirror of the monitor's kernel model, for signatures only"""
    ps, W, info = {}, set(), {"mode": 0, "bf": 0, "cfgreads": 0, "new_died_in_reload": False}
    rel_age, in_reload = -1, False
    for e in ev[:upto + 1]:
        n, p, a, b, now = e[0], e[1], e[2], e[3], e[4]
        if n == "kill" and b == 1 and p in ps and p in W:
            ps[p]["esrch"] = True
        if n == "fork":
            ps[p] = {"st": "run", "hb": now, "nb": 0, "sent": set(), "ign": False, "ghost": False, "hang": None}
        elif n == "assign":
            W.add(p)
            if p in ps and ps[p]["st"] == "reaped":
                ps[p]["ghost"] = True
        elif n == "untrack":
            W.discard(p)
        elif n == "kill" and b == 0 and p in ps and ps[p]["st"] in ("run", "hung"):
            ps[p]["sent"].add(a)
            if a == 9 or (a == 6 and not (ps[p]["st"] == "hung" and ps[p]["ign"])):
                ps[p]["st"] = "zomb"
        elif n == "wait" and p > 0 and p in ps:
            ps[p]["st"] = "reaped"
            if (a >> 8) in (3, 4) and not info["bf"]:
                info["bf"] = a >> 8
        elif n == "die" and p in ps:
            ps[p]["st"] = "zomb"
            if in_reload and p > rel_age:
                info["new_died_in_reload"] = True
        elif n == "hang" and p in ps:
            ps[p].update(st="hung", ign=(a == 2), hang=now)
        elif n == "beat" and p in ps:
            ps[p]["hb"] = now
            ps[p]["nb"] += 1
        elif n == "sig" and b == 1 and a in (15, 2, 3) and not info["mode"]:
            info["mode"] = a
        elif n == "cfgread":
            info["cfgreads"] += 1
            rel_age, in_reload = len(ps), True
        elif n == "select":
            in_reload = False
    info["rel_age"] = rel_age
    return ps, W, info


def signature(prop, tr, verdict, step):
    ev = tr["ev"]
    ps, W, info = summarize(ev, step)
    e = ev[step] if step < len(ev) else ev[-1]
    parts = []
    if verdict in ("Converged", "NoZombieLeft", "HungReplaced", "NewNumberAfterReload", "NoUntrackedChild"):
        live = set(p for p, x in ps.items() if x["st"] in ("run", "hung"))
        cats = set()
        for p in W - live:
            x = ps.get(p)
            if x is None:
                cats.add("unknown-tracked")
            elif x.get("esrch"):
                cats.add("dead-tracked,kept-after-ESRCH")
            elif x["ghost"]:
                cats.add("ghost(reaped-before-assign),never-beaten" if x["nb"] == 0 else "ghost,beaten")
            elif x["st"] == "zomb":
                cats.add("zombie-tracked")
            else:
                cats.add("dead-tracked,never-beaten" if x["nb"] == 0 else "dead-tracked,beaten")
        for p in live - W:
            cats.add("untracked-live")
        if any(ps[p]["st"] == "hung" for p in live):
            cats.add("hung-alive")
        nw = e[5]
        if not cats:
            cats.add("live<target" if len(live) < nw else "live>target" if len(live) > nw else "ok?")
        parts = sorted(cats)
    elif verdict == "HungKilledInTime":
        to, T = tr["cfg"]["to"], tr["cfg"]["T"]
        over = [x for x in ps.values() if x["st"] == "hung" and e[4] - x["hb"] > to + 2 * T + tr["cfg"]["jit"]]
        for x in over[:1]:
            parts = ["beats=0" if x["nb"] == 0 else "beats>0", "abrt=%d" % (6 in x["sent"])]
            if 6 in x["sent"]:
                parts += ["kill=%d" % (9 in x["sent"]), "ignores=%d" % x["ign"]]
    elif verdict == "BootFailureHalts":
        parts = [e[0], ("status=%d" % e[2]) if e[0] in ("exit", "escape") else "",
                 "exc=" + tr["meta"].get("exc", "") if e[0] == "escape" else ""]
    elif verdict in ("MurderOnlyStale", "OldOnlyTermed", "RetireIsOldest", "AbortBeforeKill", "TermIsGraceful", "KillBeforeDeadline",
                     "QuickUsesQuit", "SpawnBeforeRetire", "KillOnlyChildren"):
        x = ps.get(e[1])
        parts = ["sig=%d" % e[2]]
        if verdict in ("MurderOnlyStale", "OldOnlyTermed") and x is not None:
            lag = e[4] - x["hb"]
            parts.append("lag=timeout" if lag == tr["cfg"]["to"] else "lag<timeout")
    elif verdict == "OnlyNewGenerationAfterReload":
        parts = ["new-worker-died-during-reload" if info["new_died_in_reload"] else "no-death-during-reload"]
    elif verdict in ("ExitStatusZeroOnTerm", "UnexpectedExit"):
        parts = [e[0], "status=%d" % e[2], "mode=%d" % info["mode"]]
    elif verdict in ("NoWorkerSurvives", "ListenersClosed", "PidfileRemoved", "UnixSocketRemoved",
                     "ExitWithinGraceful", "QuickShutdownDoesNotWait", "ShutdownCompletes"):
        parts = ["mode=%d" % info["mode"]]
        if verdict == "NoWorkerSurvives":
            sv = [x for x in ps.values() if x["st"] in ("run", "hung")]
            parts.append("survivor=%s" % ("hung" if any(x["st"] == "hung" for x in sv) else "healthy"))
    return "%s/%s/%s" % (prop, verdict, ",".join(x for x in parts if x))


def describe(tr, verdict, step):
    ev = tr["ev"]
    lo = max(0, step - 14)
    return "%s at event %d %s; preceding events: %s" % (
        verdict, step, ev[step] if step < len(ev) else "", " ".join("%s(%s,%s,%s)@%s" % tuple(e[:5]) for e in ev[lo:step]))


# C10 clauses that are only claimed when no NEW worker crashes inside the reload's spawn loop
# (C10 quantifies over signal timings, not over crashes): recorded as an observation instead
WAIVE_ON_CRASH = {"OnlyNewGenerationAfterReload"}


def judge(ctx, prop, runs):
    """runs: list of (spec, trace).  Validates with ArbiterTrace and turns verdicts into violations."""
    traces = [{"cfg": dict(t["cfg"], prop=prop), "ev": t["ev"]} for _, t in runs]
    verdicts = []
    stats_all = []
    chunk = 700
    parts = [traces[i:i + chunk] for i in range(0, len(traces), chunk)]

    def val(args):
        i, part = args
        return tlc.validate_batch("ArbiterTrace", "ArbiterTrace.cfg", part, name="ArbiterTrace_%s_%d" % (prop, i),
                                  timeout=1200)
    with ThreadPoolExecutor(max_workers=4) as exr:
        for v, st in exr.map(val, list(enumerate(parts))):
            verdicts += v
            stats_all.append(st)
    undecided = sum(1 for _, t in runs if t["ev"][-1][0] == "end" and t["ev"][-1][6] != 1)
    ctx.add_traces(len(traces) - undecided, {"generated": sum(s["generated"] for s in stats_all),
                                             "distinct": sum(s["distinct"] for s in stats_all),
                                             "wall_s": round(sum(s["wall_s"] for s in stats_all), 2)})
    ctx.coverage["undecided_runs"] = undecided
    ends = {}
    nev = 0
    for _, t in runs:
        ends[t["meta"]["end"]] = ends.get(t["meta"]["end"], 0) + 1
        nev += len(t["ev"])
    ctx.coverage["run_ends"] = ends
    ctx.coverage["events"] = nev
    observations = {}
    for (spec, t), (v, step) in zip(runs, verdicts):
        if v == "ok":
            continue
        step -= 1                      # the monitor reports the 1-based index of the failing event
        if v == "BadTrace":
            raise tlc.TLCError("harness produced an inconsistent trace at step %d: %s" % (step, t["ev"][max(0, step - 3):step + 1]))
        sig = signature(prop, t, v, step)
        if v in WAIVE_ON_CRASH and "new-worker-died-during-reload" in sig:
            observations[sig] = observations.get(sig, 0) + 1
            continue
        case = {"spec": drv.explicit_from(t, spec) if "spec" not in t else None, "behaviour": t.get("spec"),
                "verdict": v, "step": step, "trace": {"cfg": dict(t["cfg"], prop=prop), "ev": t["ev"]},
                "log": t["meta"]["log"]}
        ctx.violation(sig, describe(t, v, step), case)
    if observations:
        ctx.coverage["observations"] = observations
        for s, n in observations.items():
            ctx.notes.append("observation (outside the quantifier, not a violation): %s in %d runs" % (s, n))
    for spec, t in runs[:2]:
        ctx.sample({"cfg": t["cfg"], "applied": t["meta"]["applied"][:6], "events": t["ev"][:40]})


def binding_smoke(ctx, runs):
    """the binding is not vacuous: a corrupted field and a removed injection point must be rejected"""
    import copy
    for spec, t in runs:
        idx = [i for i, e in enumerate(t["ev"]) if e[0] == "wait" and e[1] > 0]
        if idx and t["ev"][-1][0] == "end":
            a = copy.deepcopy(t["ev"])
            a[idx[0]][1] += 1                                  # wrong pid in a reap event
            b = [e for e in t["ev"] if e[0] != "assign"]       # the WORKERS[pid] = worker hook removed
            cfg = dict(t["cfg"], prop="ALL")
            v, _ = tlc.validate_batch("ArbiterTrace", "ArbiterTrace.cfg", [{"cfg": cfg, "ev": a}, {"cfg": cfg, "ev": b}],
                                      name="ArbiterTrace_smoke_" + ctx.prop)
            ctx.coverage["binding_smoke"] = {"corrupted_pid": v[0][0], "removed_assign_hook": v[1][0]}
            if v[0][0] == "ok" or v[1][0] == "ok":
                raise tlc.TLCError("trace binding is vacuous: %s" % (v,))
            return


def execute(specs, line_points=False):
    runs = []
    for s in specs:
        if line_points:
            s = dict(s, line_points=True)
        runs.append((s, drv.run_one(s)))
    return runs


def common(ctx, prop, fam, design, deviations, sim_kinds):
    t0 = time.time()
    if os.environ.get("ARBITER_LIGHT"):          # development aid: traces + monitor only
        design, deviations, sim_kinds = [], [], []
    futs = run_models(ctx, design, deviations)
    specs = fam(ctx)
    runs = execute(specs)
    # every source line of arbiter.py is an injection point for a share of the random runs
    extra = [s for s in specs if s["sched"]["kind"] == "random"][:(50 if ctx.quick else 1500)]
    runs += execute(extra, line_points=True)
    ctx.coverage["simos_runs"] = len(runs)
    ctx.coverage["simos_wall_s"] = round(time.time() - t0, 1)
    for tr in conformance(ctx, sim_kinds, 120 if ctx.quick else 1500):
        runs.append((None, tr))
    judge(ctx, prop, runs)
    binding_smoke(ctx, runs)
    collect_models(ctx, futs)
    drv.cleanup()
    ctx.assumptions += [
        "workers are the kernel's abstract processes (FakeWorker); the child side of spawn_worker is not run",
        "the heartbeat file is the real WorkerTmp on a real file; notify() is called by the environment on the shared object",
        "virtual time: T ticks per second, select/sleep may only return on tick boundaries",
        "a healthy worker that is sent TERM/QUIT exits before the end of the quiescent tail; a healthy worker's heartbeat "
        "never gets older than the timeout",
        "pid reuse by the kernel is not modelled"]


def c03(ctx):
    design = [
        ("c03_safety", dict(MaxFaults=1, MaxSigs=2, inv=SAFETY, workers=8)),
        ("c03_live", dict(MaxFaults=2, MaxSigs=1, Statuses={"err", "b3"}, HupW={1},
                          props=["Converges", "BootFailureHalts"], inv=SAFETY, workers=2)),
    ]
    dev = [
        ("c03_dev_ghost", "Converges", dict(MaxFaults=1, MaxSigs=0, Statuses={"err"}, Dev={"HbInitWallClock"},
                                            props=["Converges"], inv=[])),
        ("c03_dev_escape", "BootFailureHalts", dict(MaxFaults=2, MaxSigs=0, Statuses={"b3"}, Dev={"HaltEscapes"},
                                                    props=["BootFailureHalts"], inv=[])),
        ("c03_dev_reapone", "NoZombieAtRest", dict(MaxFaults=2, MaxSigs=0, Statuses={"err"}, Dev={"ReapOnlyOne"},
                                                   inv=["NoZombieAtRest"])),
    ]
    if not ctx.quick:
        design.append(("c03_big", dict(MaxForks=6, MaxFaults=2, MaxSigs=2, Statuses={"ok", "b3"}, inv=SAFETY,
                                       workers=8)))
    common(ctx, "C03", fam_c03, design, dev, ["serve"])


def c11(ctx):
    design = [
        ("c11_t2", dict(MaxForks=5, MaxFaults=1, MaxHangs=2, MaxSigs=0, Statuses={"err"}, AutoBeat=False, Timeout=2,
                        props=["HungReplaced", "Converges"], inv=SAFETY)),
        ("c11_t1", dict(MaxForks=5, MaxFaults=0, MaxHangs=2, MaxSigs=1, Sigs={"TTIN", "HUP"}, HupW={1},
                        AutoBeat=False, Timeout=1, props=["HungReplaced"], inv=SAFETY)),
        ("c11_t3", dict(MaxForks=4, MaxFaults=0, MaxHangs=1, MaxSigs=0, AutoBeat=False, Timeout=3, InitWorkers=2,
                        props=["HungReplaced"], inv=SAFETY)),
    ]
    dev = [
        ("c11_dev_nobeat", "HungKilledInTime", dict(MaxForks=5, MaxFaults=0, MaxHangs=1, MaxSigs=0, AutoBeat=False,
                                                    Dev={"HbInitWallClock"}, inv=["HungKilledInTime"])),
    ]
    common(ctx, "C11", fam_c11, design, dev, ["beat"])


def c10(ctx):
    design = [
        ("c10_hup2", dict(MaxFaults=1, MaxSigs=2, Sigs={"HUP", "TTIN"}, HupW={1, 2}, HupChg={0, 1}, Statuses={"err"},
                          inv=SAFETY)),
        ("c10_live", dict(MaxFaults=1, MaxSigs=1, Sigs={"HUP"}, HupW={1, 2, 3}, HupChg={0, 1}, Statuses={"err"},
                          props=["OnlyNewGeneration", "Converges"], inv=SAFETY)),
    ]
    dev = [
        ("c10_dev_count", "OnlyNewGeneration", dict(MaxFaults=1, MaxSigs=1, Sigs={"HUP"}, Statuses={"err"},
                                                    Dev={"ReloadRetiresByCount"}, props=["OnlyNewGeneration"], inv=[])),
    ]
    if not ctx.quick:
        design.append(("c10_big", dict(MaxForks=8, MaxFaults=1, MaxSigs=2, Sigs={"TTIN", "HUP", "TTOU"}, HupW={1, 2, 3},
                                       HupChg={0, 1}, Statuses={"err"}, inv=SAFETY, workers=8)))
    common(ctx, "C10", fam_c10, design, dev, ["serve"])


def c04(ctx):
    design = [
        ("c04_stop", dict(MaxForks=5, MaxFaults=1, MaxHangs=1, MaxSigs=1, Sigs={"TERM", "INT", "QUIT"},
                          Statuses={"err"}, props=["ShutdownCompletes"], inv=SAFETY)),
        ("c04_sigs2", dict(MaxForks=5, MaxFaults=0, MaxHangs=1, MaxSigs=2, Sigs={"TERM", "INT", "HUP"}, HupW={1},
                           HupChg={0, 1}, Statuses={"err"}, inv=SAFETY, workers=8)),
        ("c04_g1", dict(MaxForks=4, MaxFaults=0, MaxHangs=2, MaxSigs=2, Sigs={"TERM", "QUIT"}, Graceful=1,
                        props=["ShutdownCompletes"], inv=SAFETY)),
    ]
    if not ctx.quick:
        design.append(("c04_big", dict(MaxForks=5, MaxFaults=1, MaxHangs=1, MaxSigs=2, Sigs={"TERM", "INT", "HUP"},
                                       HupW={1}, HupChg={0, 1}, Statuses={"err"}, props=["ShutdownCompletes"],
                                       inv=SAFETY, workers=8)))
    common(ctx, "C04", fam_c04, design, [], ["stop"])


def replay(ctx, data):
    case = data["case"]
    prop = data["property"]
    print("replaying %s" % data["signature"])
    if case.get("spec"):
        tr = drv.run_one(case["spec"])
        t = {"cfg": dict(tr["cfg"], prop=prop), "ev": tr["ev"]}
        same = tr["ev"] == case["trace"]["ev"]
        print("re-executed the schedule on the real Arbiter: %d events, identical to the recorded trace: %s"
              % (len(tr["ev"]), same))
    else:
        t = case["trace"]
        print("trace came from a replayed TLC behaviour; re-validating the recorded trace")
    verdicts, _ = tlc.validate_batch("ArbiterTrace", "ArbiterTrace.cfg", [t], name="ArbiterTrace_replay")
    v, step = verdicts[0]
    print("verdict:", v, "at event", step)
    for e in t["ev"][max(0, step - 12):step + 1]:
        print("   ", e)
    drv.cleanup()
    if v != "ok":
        print("VIOLATION property=%s replay=%s" % (prop, "(replayed)"))
        return 1
    return 0


CHECKS = {"C03": c03, "C10": c10, "C11": c11, "C04": c04}
