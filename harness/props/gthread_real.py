"""C13 on real gthread processes: segmented requests on fresh / kept-alive connections while some handler threads
are busy, and the keep-alive time on the wall clock.  Judged by TLC against specs/GThreadRealTrace.tla."""
import socket
import threading
import time

import tlc
from drivers import realproc as rp

KA = 2
SLACK = 1500


def split(data, nseg):
    if nseg <= 1:
        return [data]
    step = max(1, len(data) // nseg)
    cuts = [step * i for i in range(1, nseg)]
    return [data[a:b] for a, b in zip([0] + cuts, cuts + [len(data)])]


def send_req(c, path, nseg, gap):
    data = ("GET %s HTTP/1.1\r\nHost: h\r\nX-Pad: %s\r\n\r\n" % (path, "p" * 40)).encode()
    segs = split(data, nseg)
    try:
        for i, sg in enumerate(segs):
            c.sendall(sg)
            if i + 1 < len(segs):
                time.sleep(gap)
        st, body, info = rp.read_response(c)
        return st == 200 and info["complete"]
    except OSError:
        return False


def run_real(threads, busy, plan, gap=0.25, chatter=False):
    """plan: segments of each successive request on ONE keep-alive connection; busy: slow requests kept in flight on
    other connections meanwhile; chatter: other clients connect, ask and leave several times a second all the while (the
    worker's poller never times out).  -> (trace, meta)"""
    s = rp.Server("gthread", workers=1, threads=threads, args=["--keep-alive", str(KA), "--timeout", "30"], name="c13")
    try:
        s.start()
        s.wait_booted(1)
        total = sum(plan) * gap + 3.0
        bg = []
        for _ in range(busy):
            t = threading.Thread(target=lambda: s.get("/sleep?t=%.1f" % total, timeout=total + 10), daemon=True)
            t.start()
            bg.append(t)
        time.sleep(0.3)
        ev = []
        quiet = threading.Event()

        def chat():
            while not quiet.is_set():
                try:
                    s.get("/pid", timeout=5)
                except OSError:
                    pass
                time.sleep(0.15)
        if chatter:
            threading.Thread(target=chat, daemon=True).start()
        c = s.connect(timeout=8)
        alive = True
        for nth, nseg in enumerate(plan, 1):
            ok = alive and send_req(c, "/pid", nseg, gap)
            ev.append({"e": "req", "c": 1, "nseg": nseg, "nth": nth, "inflight": busy, "answered": bool(ok)})
            if not ok:
                alive = False
            else:
                time.sleep(0.2)
        if alive:
            t0 = time.time()
            c.settimeout(KA + 1 + SLACK / 1000.0 + 1.5)
            after = -1
            try:
                d = c.recv(100)
                if d == b"":
                    after = int((time.time() - t0) * 1000) + 200      # measured from the last response
            except socket.timeout:
                after = -1
            except OSError:
                after = int((time.time() - t0) * 1000) + 200
            ev.append({"e": "idle", "c": 1, "after_ms": after})
        c.close()
        quiet.set()
        return {"threads": threads, "ka_ms": KA * 1000, "slack_ms": SLACK, "ev": ev}, \
            {"threads": threads, "busy": busy, "plan": plan, "chatter": chatter, "log": s.errlog()[-400:]}
    finally:
        quiet.set()
        s.cleanup()


def run_pipelined(threads):
    """two requests arrive in ONE segment on a fresh connection: the second is in the worker's hands (read ahead by the
    parser) when the first has been answered"""
    s = rp.Server("gthread", workers=1, threads=threads, args=["--keep-alive", str(KA), "--timeout", "30"], name="c13")
    try:
        s.start()
        s.wait_booted(1)
        c = s.connect(timeout=KA + 4)
        c.sendall(b"GET /pid?1 HTTP/1.1\r\nHost: h\r\n\r\nGET /pid?2 HTTP/1.1\r\nHost: h\r\n\r\n")
        buf = b""
        t0 = time.time()
        try:
            while time.time() - t0 < KA + 3:
                d = c.recv(65536)
                if not d:
                    break
                buf += d
        except OSError:
            pass
        c.close()
        n = buf.count(b"HTTP/1.1 200")
        ev = [{"e": "req", "c": 1, "nseg": 1, "nth": 1, "inflight": 0, "answered": n >= 1},
              {"e": "req", "c": 1, "nseg": 0, "nth": 2, "inflight": 0, "answered": n >= 2}]
        return {"threads": threads, "ka_ms": KA * 1000, "slack_ms": SLACK, "ev": ev}, \
            {"threads": threads, "busy": 0, "plan": "pipelined", "log": s.errlog()[-300:]}
    finally:
        s.cleanup()


def run_saturated():
    """every connection slot taken for longer than --timeout by a healthy worker: the long request is answered all the same"""
    s = rp.Server("gthread", workers=1, threads=2, args=["--keep-alive", str(KA), "--timeout", "2", "--worker-connections", "2"], name="c13")
    try:
        s.start()
        s.wait_booted(1)
        res = {}

        def long1():
            try:
                st, body, info = s.get("/sleep?t=5", timeout=15)
                res["c1"] = st == 200 and info["complete"]
            except OSError:
                res["c1"] = False
        t1 = threading.Thread(target=long1)
        t1.start()
        time.sleep(0.5)
        c2 = s.connect(timeout=15)              # takes the last connection slot
        c2.sendall(b"GET /pid HTTP/1.1\r\nHost: h\r\nConnection: close\r\n\r\n")
        t1.join()
        try:
            st2, body2, info2 = rp.read_response(c2)
            res["c2"] = st2 == 200
        except OSError:
            res["c2"] = False
        c2.close()
        ev = [{"e": "req", "c": 1, "nseg": 1, "nth": 1, "inflight": 0, "answered": bool(res.get("c1"))}]
        return {"threads": 2, "ka_ms": KA * 1000, "slack_ms": SLACK, "ev": ev}, \
            {"threads": 2, "busy": 0, "plan": "saturated", "res": res, "log": s.errlog()[-300:]}
    finally:
        s.cleanup()


def run_tls_stall(eager):
    """TLS (with or without --do-handshake-on-connect): a keep-alive connection is parked; a peer connects, sends the first
    byte of a ClientHello and stalls, another sends plain HTTP to the TLS port; the request on the parked connection and a
    new client are answered all the same (threads are free: the stalled peers hold at most a handler thread each)"""
    s = rp.Server("gthread", workers=1, threads=3, tls=True, name="c13",
                  args=["--keep-alive", "8", "--timeout", "30"] + (["--do-handshake-on-connect"] if eager else []))
    held = []
    try:
        s.start()
        s.wait_booted(1)
        c = s.connect(timeout=6)
        held.append(c)
        st, body, info = s.get("/pid", sock=c, keepalive=True, timeout=5)
        ev = [{"e": "req", "c": 1, "nseg": 1, "nth": 1, "inflight": 0, "answered": bool(st == 200 and info["complete"])}]
        stall = s.connect(timeout=6, raw=True)
        held.append(stall)
        stall.sendall(b"\x16")
        time.sleep(0.7)
        try:
            st, body, info = s.get("/pid", sock=c, keepalive=True, timeout=4)
            ok = st == 200 and info["complete"]
        except OSError:
            ok = False
        ev.append({"e": "req", "c": 1, "nseg": 1, "nth": 2, "inflight": 1, "answered": bool(ok)})
        try:
            st, body, info = s.get("/pid", timeout=4)
            ok = st == 200 and info["complete"]
        except OSError:
            ok = False
        ev.append({"e": "req", "c": 2, "nseg": 1, "nth": 1, "inflight": 1, "answered": bool(ok)})
        plain = s.connect(timeout=6, raw=True)
        held.append(plain)
        plain.sendall(b"GET / HTTP/1.1\r\nHost: h\r\n\r\n")
        time.sleep(0.7)
        try:
            st, body, info = s.get("/pid", timeout=4)
            ok = st == 200 and info["complete"]
        except OSError:
            ok = False
        ev.append({"e": "req", "c": 3, "nseg": 1, "nth": 1, "inflight": 1, "answered": bool(ok)})
        return {"threads": 3, "ka_ms": 8000, "slack_ms": SLACK, "ev": ev}, \
            {"threads": 3, "busy": 0, "plan": "tls_stall", "eager": eager, "log": s.errlog()[-300:]}
    finally:
        for x in held:
            try:
                x.close()
            except OSError:
                pass
        s.cleanup()


def run_inherited():
    """two workers share a listening socket handed over in blocking mode (fd://N): a keep-alive connection is parked on
    each; another client connects (both workers wake, one gets it); a request on every parked connection is answered,
    and afterwards the parked connections are closed when the keep-alive time has passed"""
    ka = 4
    s = rp.Server("gthread", workers=2, threads=2, bind="fd", args=["--keep-alive", str(ka), "--timeout", "30"], name="c13")
    parked = {}
    extra = []
    try:
        s.start()
        s.wait_booted(2)
        for _ in range(24):
            if len(parked) == 2:
                break
            c = s.connect(timeout=8)
            try:
                st, body, info = s.get("/pid", sock=c, keepalive=True, timeout=5)
                pid = rp.parse_ident(body)[0]
            except OSError:
                pid = None
            if pid and pid not in parked:
                parked[pid] = c
            else:
                c.close()
                time.sleep(0.1)
        if len(parked) < 2:
            raise RuntimeError("could not park a connection on each of the two workers: %s" % list(parked))
        for _ in range(3):
            x = s.connect(timeout=5)                    # wakes both workers; one of them accepts it
            extra.append(x)
            time.sleep(0.3)
        ev = []
        t_last = {}
        for k, (pid, c) in enumerate(sorted(parked.items())):
            try:
                st, body, info = s.get("/pid", sock=c, keepalive=True, timeout=3)
                ok = st == 200 and info["complete"]
            except OSError:
                ok = False
            t_last[pid] = time.time()
            ev.append({"e": "req", "c": k + 1, "nseg": 1, "nth": 2, "inflight": 0, "answered": bool(ok)})
        # keep-alive expiry of the parked connections, on the wall clock
        for k, (pid, c) in enumerate(sorted(parked.items())):
            c.settimeout(ka + 1 + SLACK / 1000.0 + 1.5)
            try:
                d = c.recv(10)
                after = int((time.time() - t_last[pid]) * 1000) if d == b"" else -1
            except OSError:
                after = -1
            ev.append({"e": "idle", "c": k + 1, "after_ms": after})
        return {"threads": 2, "ka_ms": ka * 1000, "slack_ms": SLACK, "ev": ev}, \
            {"threads": 2, "busy": 0, "plan": "inherited", "log": s.errlog()[-300:]}
    finally:
        for c in list(parked.values()) + extra:
            try:
                c.close()
            except OSError:
                pass
        s.cleanup()


def real_side(ctx):
    from props.reload_real import _parallel
    plan = [(2, 1, [1, 2, 3]), (1, 0, [2, 1, 4]), (3, 2, [3, 3])] if ctx.quick else \
        [(t, b, p) for t in (1, 2, 4) for b in range(0, t) for p in ([1, 2, 3], [2, 1, 4], [3, 3], [1, 1, 8])]
    plan = plan + [(2, 0, [1, 2], True), (3, 1, [1], True)] + ([] if ctx.quick else [(1, 0, [1, 1, 1], True), (4, 2, [2, 2], True)])
    plan = plan + [("pipelined", 2, None), ("saturated", 2, None), ("inherited", 2, None)] + ([] if ctx.quick else [("pipelined", 1, None)])
    plan = plan + [("tls_stall", True, None)] + ([] if ctx.quick else [("tls_stall", False, None)])
    def one(a, i):
        return run_pipelined(a[1]) if a[0] == "pipelined" else run_saturated() if a[0] == "saturated" \
            else run_tls_stall(a[1]) if a[0] == "tls_stall" \
            else run_inherited() if a[0] == "inherited" else run_real(a[0], a[1], a[2], chatter=len(a) > 3 and a[3])
    results = _parallel(plan, one, par=9)
    traces = [r[0] for r in results]
    metas = [r[1] for r in results]
    verdicts, stats = tlc.validate_batch("GThreadRealTrace", "GThreadRealTrace.cfg", traces, name="GThreadRealTrace_C13")
    ctx.add_traces(len(traces), stats)
    tlc.repeat_failing(ctx, "GThreadRealTrace", "GThreadRealTrace.cfg", traces, metas, verdicts, range(len(plan)),
                       lambda k: one(plan[k], k), "GThreadRealTrace_C13")
    ctx.coverage["real_process_runs"] = len(traces)
    for t, m, (v, step) in zip(traces, metas, verdicts):
        if v == "ok":
            continue
        e = t["ev"][step - 1]
        where = "nth=%s,nseg=%s" % (("1" if e.get("nth") == 1 else ">1"), ("1" if e.get("nseg") == 1 else ">1")) if e["e"] == "req" else "idle"
        if e["e"] == "req" and e.get("nseg") == 0:
            where = "pipelined"
        if m.get("plan") in ("saturated", "inherited", "tls_stall"):
            where = m["plan"]
        ctx.violation("C13/%s/real/%s" % (v, where), "%s: %s event=%s" % (v, {k: m[k] for k in m if k != "log"}, e),
                      {"trace": t, "meta": m})
    ctx.sample({"real": metas[0]["plan"], "events": traces[0]["ev"]})
    ctx.assumptions += ["real gthread processes: keep-alive 2 s, main-loop period 1 s, slack 1.5 s; segments of a request 0.25 s apart"]
