"""The connection-level loop of the three worker kinds (specs/KeepAlive.tla) on the real handle():
a scripted socket that also scripts the passing of the keep-alive time.  The async worker's timeout_ctx() is a
context manager armed on the scripted socket (gevent / eventlet: Timeout(keepalive, False), a BaseException raised
inside the blocked read and swallowed by the with block); gthread's real murder_keepalived() runs when the script
says the parked connection is past its time.  A stop request (what TERM / max_requests do: alive = False) arrives
while the application runs or while the worker waits for the next item.

Used by C01 (nothing reaches the application that the client did not send, nothing twice) and C10 (a worker that was
told to stop serves at most one more request on a connection)."""
import contextlib
import itertools
import os
from concurrent import futures

from drivers import conn as cdrv

ITEMS = ("req", "reqclose", "pause", "slowreq")
PAUSE = object()
TERM = object()


class TimerFired(BaseException):
    pass


class KASock(cdrv.FakeSock):
    def __init__(self, segs, owner):
        super().__init__([])
        self.segs = list(segs)
        self.owner = owner
        self.timer = False

    def _sentinels(self):
        while self.segs and (self.segs[0] is PAUSE or self.segs[0] is TERM) and not self._buf:
            x = self.segs.pop(0)
            if x is TERM:
                self.owner.worker.alive = False
                self.owner.ev.append(["term_wait", 0])
            elif self.timer:
                self.owner.ev.append(["timer", 0])
                raise TimerFired()
            # (a blocking read without a timer just waits for what comes after the silence)
            self.readable = True

    def recv(self, n):
        if not self.closed:
            self._sentinels()
        return super().recv(n)

    def more_input(self):
        return bool(self._buf or [x for x in self.segs if x is not PAUSE and x is not TERM])


class AsyncKA(cdrv.AsyncWorker):
    @contextlib.contextmanager
    def timeout_ctx(self):
        sock = self._ka_sock
        sock.timer = True
        try:
            yield
        except TimerFired:
            pass
        finally:
            sock.timer = False


class Run:
    pass


def segments_of(script, term):
    segs = []
    for k, it in enumerate(script, 1):
        if term == ("wait", k):
            segs.append(TERM)
        if it == "pause":
            segs.append(PAUSE)
        elif it == "slowreq":
            segs += [b"GET /%d HTTP/1.1\r\nX-Pad: " % k, PAUSE, b"GET /999 HTTP/1.1\r\nHost: h\r\n\r\n"]
        else:
            segs.append(b"GET /%d HTTP/1.1\r\nHost: h\r\n%s\r\n" % (k, b"Connection: close\r\n" if it == "reqclose" else b""))
    if term == ("wait", len(script) + 1):
        segs.append(TERM)
    return segs


def run(kind, script, term=None):
    """-> trace dict for KeepAliveTrace"""
    o = Run()
    o.ev = []

    def app(environ, start_response):
        try:
            n = int(environ["PATH_INFO"].lstrip("/"))
        except ValueError:
            n = 998
        o.ev.append(["serve", n])
        if term == ("app", n) and o.worker.alive:
            o.worker.alive = False
            o.ev.append(["term_app", 0])
        start_response("200 OK", [("Content-Length", "2")])
        return [b"ok"]
    cfg = cdrv.make_cfg(keepalive=2)
    if kind == "async":
        cdrv.WORKERS["asyncka"] = AsyncKA
        w = cdrv.make_worker("asyncka", cfg, app)
    else:
        w = cdrv.make_worker(kind, cfg, app)
    o.worker = w
    sock = KASock(segments_of(script, term), o)
    w._ka_sock = sock
    lst = w.sockets[0]
    peer = ("127.0.0.1", 45678)
    try:
        if kind in ("sync", "async"):
            w.handle(lst, sock, peer)
        else:
            conn = cdrv.TConn(cfg, sock, peer, lst.getsockname())
            w.nr_conns += 1
            for _ in range(3 * len(script) + 6):
                sock.readable = True
                fs = futures.Future()
                fs.conn = conn
                try:
                    fs.set_result(w.handle(conn))
                except BaseException as e:   # noqa
                    fs.set_exception(e)
                    o.ev.append(["escaped", 0])
                w.finish_request(fs)
                if sock.closed or conn not in w._keep:
                    break
                # parked: what happens next on the connection?
                while sock.segs and sock.segs[0] is TERM:
                    sock.segs.pop(0)
                    w.alive = False
                    o.ev.append(["term_wait", 0])
                if sock.segs and sock.segs[0] is PAUSE:
                    sock.segs.pop(0)
                    conn.timeout = 0                    # the keep-alive time has passed
                    w.murder_keepalived()
                    if sock.closed:
                        o.ev.append(["reap", 0])
                    break
                # data or end of file: the poller reports the socket readable, the main loop takes it out of _keep
                w._keep.remove(conn)
                w.poller.unregister(conn.sock)
    except BaseException as e:   # noqa
        o.ev.append(["escaped", 0])
        o.exc = repr(e)
    if sock.closed and (not o.ev or o.ev[-1][0] != "escaped"):
        o.ev.append(["close", 0])
    return {"cls": kind, "script": list(script), "ev": o.ev}


def scripts(maxlen):
    for n in range(0, maxlen + 1):
        for sc in itertools.product(ITEMS, repeat=n):
            yield sc


def terms(script):
    yield None
    for k, it in enumerate(script, 1):
        yield ("wait", k)
        if it != "pause":
            yield ("app", k)
    yield ("wait", len(script) + 1)


def design(ctx):
    import tlc
    for maxitems, dev, expect in ((3 if ctx.quick else 4, (), None), (3, ("StaleReq",), "NoPhantom"),
                                  (3, ("NoCloseOnStop",), "AtMostOneAfterStop"), (3, ("ParkAfterStop",), "NoParkAfterStop")):
        label = "%d_%s" % (maxitems, "_".join(dev) or "design")
        cfgp = os.path.join(tlc.OUT, "cfg", "KeepAlive_%s.cfg" % label)
        os.makedirs(os.path.dirname(cfgp), exist_ok=True)
        tlc.write_cfg(cfgp, spec="Spec", constants={"MaxItems": maxitems, "Dev": set(dev)},
                      invariants=["TypeOK", "NoPhantom", "AtMostOneAfterStop", "NothingAfterTheTimer"],
                      properties=["NoParkAfterStop"] + (["Closes"] if not dev else []))
        r = tlc.run("KeepAlive", cfgp, name="KeepAlive_" + label, workers=4, timeout=600)
        if expect is None:
            if not r.ok:
                raise tlc.TLCError("KeepAlive design (%s) violates %s" % (label, r.violated))
            ctx.add_model(r, "KeepAlive items<=%d" % maxitems)
        else:
            ctx.coverage.setdefault("deviation_runs", []).append({"dev": dev[0], "expected": expect,
                                                                  "reproduced": expect in r.violated or
                                                                  (dev[0] == "StaleReq" and "NothingAfterTheTimer" in r.violated)})


def model_traces(ctx, clauses, prop):
    import tlc
    maxlen = 3 if ctx.quick else 4
    items = []
    for sc in scripts(maxlen):
        for kind in ("sync", "gthread", "async"):
            for tm in terms(sc):
                if ctx.quick and len(sc) == 3 and tm is not None and ctx.rng.random() < 0.5:
                    continue
                items.append((run(kind, sc, tm), {"kind": kind, "script": list(sc), "term": tm}))
    cfgp = os.path.join(tlc.OUT, "cfg", "KeepAliveTrace.cfg")
    os.makedirs(os.path.dirname(cfgp), exist_ok=True)
    tlc.write_cfg(cfgp, spec="TSpec", constants={"MaxItems": maxlen, "Dev": set()}, constraints=["Record"], postcondition="Post")
    verdicts, stats = tlc.validate_batch("KeepAliveTrace", cfgp, [t for t, _ in items], name="KeepAliveTrace_%s" % prop, chunk=4000)
    ctx.add_traces(len(items), stats)
    ndrift = 0
    for (t, m), (v, stepn) in zip(items, verdicts):
        if v == "ok":
            continue
        if str(v).startswith("drift"):
            ndrift += 1
            if ndrift <= 3:
                ctx.note_drift("keep-alive loop (%s): %s at event %d of %s" % (m, v, stepn, t["ev"]))
            continue
        if v in clauses:
            ctx.violation("%s/%s/keepalive-loop,wk=%s" % (prop, v, m["kind"]),
                          "%s: %s; events: %s" % (v, m, t["ev"]), {"trace": t, "meta": m})
    ctx.coverage["keepalive_loop_traces"] = len(items)
