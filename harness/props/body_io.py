"""C07: wsgi.input yields exactly the request body, and never the next request.

(D) specs/BodyIO.tla: Body.read/readline/readlines/iteration over a block reader, all programs of
    <= MaxCalls calls over all bodies of <= MaxBody symbols, against io.BytesIO semantics;
(C) TLC -simulate behaviours of BodyIO replayed on the real req.body (each returned piece compared);
(P) real-scale seeded programs on the real parser (Content-Length and chunked framings, chunk layouts
    with 1-byte chunks and chunk boundaries at block boundaries, random segmentations, a pipelined
    follower) judged by TLC against specs/BodyTrace.tla.
"""
import json
import os
import time

import tlc
from drivers import body_io as drv

OUT = tlc.OUT
SIZES = [None, -1, -2, -5, -1024, 0, 1, 2, 3, 7, 1023, 1024, 1025, 2048, 8191, 8192, 8193, 100000]


def model(ctx, label, maxbody, block, maxcalls, dev=(), expect=None):
    cfg = os.path.join(OUT, "cfg", "BodyIO_%s.cfg" % label)
    os.makedirs(os.path.dirname(cfg), exist_ok=True)
    tlc.write_cfg(cfg, spec="Spec",
                  constants={"MaxBody": maxbody, "Block": block, "Sizes": {98, 0, 1, 2, 3, 99}, "MaxCalls": maxcalls,
                             "Dev": set(dev)},
                  invariants=["NoLossNoDup", "NeverReadsPastBody"], properties=["PieceMatchesFileRef", "EofForever"],
                  constraints=["LevelBound"])
    r = tlc.run("BodyIO", cfg, name="BodyIO_" + label, workers=8, timeout=1200)
    if expect is None:
        if not r.ok:
            raise tlc.TLCError("BodyIO design %s violates %s" % (label, r.violated))
        ctx.add_model(r, label)
    else:
        ctx.coverage.setdefault("deviation_runs", []).append(
            {"label": label, "reproduced": not r.ok, "violated": r.violated})
        if r.ok:
            ctx.note_drift("BodyIO with %s no longer violates" % (dev,))
    return cfg


def layouts(rng, blen):
    out = [[blen]]
    if blen:
        out.append([1] * min(blen, 40) + ([blen - 40] if blen > 40 else []))
        out.append([min(1024, blen)] + ([blen - 1024] if blen > 1024 else []))
        out.append([min(1023, blen)] + ([1] if blen > 1023 else []) + ([blen - 1024] if blen > 1024 else []))
        k = rng.randint(2, 6)
        cuts = sorted(rng.randrange(1, blen) for _ in range(k)) if blen > 1 else []
        pts = [0] + cuts + [blen]
        out.append([b - a for a, b in zip(pts, pts[1:])])
    return out


def rand_program(rng, maxlen):
    prog = []
    for _ in range(rng.randint(0, maxlen)):
        op = rng.choice(["read", "read", "readline", "readline", "next", "readlines"])
        n = rng.choice(SIZES)
        if op == "next":
            n = None
        if op == "readlines":
            n = rng.choice([None, None, 0, 5, 2000])
        prog.append((op, n))
    if rng.random() < 0.3:
        prog.append(("read", None))
    return prog


def c07(ctx):
    rng = ctx.rng
    if ctx.quick:
        cfg = model(ctx, "design", 5, 2, 4)
    else:
        cfg = model(ctx, "design", 6, 2, 5)
        model(ctx, "design_b3", 5, 3, 5)
    model(ctx, "dev_tail", 4, 2, 3, dev=["ReadlineLosesTail"], expect="violation")
    ctx.coverage["exhaustive"] = True
    traces, metas = [], []
    # (C) spec -> code: simulated behaviours replayed on the real wsgi.input
    behs, _ = tlc.simulate_behaviours("BodyIO", cfg, num=300 if ctx.quick else 6000, depth=8, seed=ctx.seed,
                                      name="BodyIO_sim")
    nsteps = 0
    for beh in behs:
        body_syms = beh[0][1]["body"]
        body = bytes(0x0A if s == "n" else 0x61 + i for i, s in enumerate(body_syms))
        prog, expect = [], []
        for act, st in beh[1:]:
            if act == "AppStop" or st["ncalls"] == len(prog):
                continue
            n = st["lastn"]
            prog.append((st["lastop"], None if n == 98 else 100000 if n == 99 else n))
            expect.append(len(st["lastret"]))
        stream = drv.frame(body, "len" if rng.random() < 0.5 else "chunked", [len(body)]) + drv.FOLLOWER
        cuts = sorted(rng.sample(range(1, len(stream)), min(3, len(stream) - 1)))
        ev = drv.run_program(stream, cuts, prog, body)
        got = [e["len"] for e in ev if e["e"] == "call"]
        nsteps += len(got)
        if got != expect:
            ctx.note_drift("BodyIO behaviour not followed: body=%s prog=%s model=%s code=%s" % (body_syms, prog, expect, got))
        traces.append({"blen": len(body), "nls": [i for i, s in enumerate(body_syms) if s == "n"], "ev": ev})
        metas.append({"kind": "sim", "body": body.decode("latin-1"), "prog": prog, "cuts": cuts, "framing": "?"})
    ctx.coverage["replayed_behaviours"] = len(behs)
    ctx.coverage["replayed_calls"] = nsteps
    # (P) real scale
    lens = [0, 1, 2, 5, 1023, 1024, 1025, 2049, 5000, 20000] if ctx.quick else [0, 1, 2, 3, 5, 100, 1022, 1023, 1024, 1025, 2047, 2048, 2049, 4096, 5000, 8191, 8192, 8193, 20000]
    reps = 2 if ctx.quick else 20
    ojobs = []
    for blen in lens:
        for nlstyle in ("none", "dense", "edges", "few", "all"):
            if nlstyle == "all" and blen > 200:
                continue
            body, nls = drv.make_body(rng, blen, nlstyle)
            for framing in ("len", "chunked"):
                for lay in (layouts(rng, blen) if framing == "chunked" else [[blen]]):
                    for _ in range(reps):
                        trailers = b"X-T: 1\r\n" if framing == "chunked" and rng.random() < 0.3 else b""
                        method = rng.choice([b"POST", b"POST", b"GET", b"HEAD", b"PUT", b"DELETE"])
                        # a share of the runs with small head limits and a pipelined request whose (legal) head is longer
                        # than the header-block cap those limits give: the limits concern heads, not the bytes after a body
                        small = rng.random() < 0.25
                        fol = drv.LONG_FOLLOWER if small else drv.FOLLOWER
                        cfgkw = {"limit_request_fields": 2, "limit_request_field_size": 64} if small else None
                        if small and trailers:
                            trailers = b"X-T: 1\r\n"
                        stream = drv.frame(body, framing, lay, trailers, ext=rng.random() < 0.5, method=method) + fol
                        k = rng.randint(0, 5)
                        cuts = sorted(rng.sample(range(1, len(stream)), min(k, len(stream) - 1)))
                        if rng.random() < 0.2:
                            cuts = list(range(1, len(stream), rng.choice([1, 3, 1024])))
                            if len(cuts) > 3000:
                                cuts = cuts[::7]
                        prog = rand_program(rng, 6 if ctx.quick else 30)
                        if rng.random() < 0.15:
                            prog = []            # the application ignores its input altogether
                        source = rng.choice(["iter", "sock", "tls"])
                        meta = {"kind": "real", "blen": blen, "nl": nlstyle, "framing": framing, "layout": lay[:10],
                                "prog": prog, "ncuts": len(cuts), "cuts": cuts[:20], "trailers": bool(trailers), "small_limits": small,
                                "method": method.decode()}
                        if rng.random() < 0.2 and len(stream) < 30000:
                            # repeated in an interpreter started with -O (assert statements compiled out)
                            ojobs.append(({"stream": stream.decode("latin-1"), "cuts": cuts, "prog": [list(x) for x in prog],
                                           "body": body.decode("latin-1"), "source": source, "cfgkw": cfgkw,
                                           "follower": fol.decode("latin-1")}, {"blen": blen, "nls": nls}, dict(meta, kind="real-O")))
                        ev = drv.run_program(stream, cuts, prog, body, source=source, cfgkw=cfgkw, follower=fol)
                        traces.append({"blen": blen, "nls": nls, "ev": ev})
                        metas.append(meta)
    # uploads of many megabytes that the application leaves (almost) unread: the parser gets past them all the same
    for framing in ("len", "chunked"):
        for prog in ([], [("read", 10)]):
            blen = 17 * 1024 * 1024 + 5
            body = bytes(range(256)) * (blen // 256) + bytes(range(blen % 256))
            stream = drv.frame(body, framing, [blen]) + drv.FOLLOWER
            ev = drv.run_program(stream, list(range(65536, len(stream), 65536)), prog, body, source="sock")
            traces.append({"blen": blen, "nls": [], "ev": [e for e in ev if e["e"] == "stop"] if not prog else ev})
            metas.append({"kind": "real", "blen": blen, "nl": "none", "framing": framing, "layout": [blen], "prog": prog, "ncuts": 0,
                          "cuts": [], "trailers": False, "small_limits": False, "method": "POST", "unread_upload": True})
    if ojobs:
        import subprocess
        import sys
        p = subprocess.run([sys.executable, "-O", "-B", os.path.abspath(drv.__file__)], input=json.dumps([j for j, _, _ in ojobs]),
                           capture_output=True, text=True, timeout=900,
                           env=dict(os.environ, VERIF_REPO=os.environ.get("VERIF_REPO", "/repo")))
        if p.returncode != 0:
            raise RuntimeError("body_io driver under -O failed: %s" % p.stderr[-1500:])
        res = json.loads(p.stdout)
        if not res["optimized"]:
            raise RuntimeError("body_io batch driver did not run optimized")
        if os.path.realpath(res["tree"]) != os.path.realpath(os.environ.get("VERIF_REPO", "/repo")):
            raise RuntimeError("body_io batch driver imported gunicorn from %s" % res["tree"])
        for (j, tr, meta), ev in zip(ojobs, res["results"]):
            traces.append(dict(tr, ev=ev))
            metas.append(meta)
        ctx.coverage["runs_under_python_O"] = len(ojobs)
    # (P) the same through the workers' connection handling: the rest of a body the application did not read arrives
    # after the response (keep-alive connection handed back to the poller / the handler loop in between)
    worker_level(ctx, traces, metas)
    real_servers(ctx, traces, metas)
    verdicts, stats = tlc.validate_batch("BodyTrace", "BodyTrace.cfg", traces, name="BodyTrace_C07", chunk=3000)
    ctx.add_traces(len(traces), stats)
    for t, m, (v, step) in zip(traces, metas, verdicts):
        if v == "ok":
            continue
        e = t["ev"][step - 1] if step >= 1 else {}
        sig = "C07/%s/op=%s/framing=%s%s" % (v, e.get("op", e.get("e")), m.get("framing"), ",python-O" if m.get("kind") == "real-O" else "")
        if m.get("kind") == "real-server":
            sig += ",real-server,wk=%s%s" % (m["wk"], ",default-socket-timeout" if m.get("default_socket_timeout") else "")
        ctx.violation(sig, "%s at call %d (%s): %s" % (v, step, e, json.dumps(m)[:300]), {"trace": t, "meta": m})
    for t, m in list(zip(traces, metas))[:1] + list(zip(traces, metas))[-2:]:
        ctx.sample({"blen": t["blen"], "events": t["ev"][:6], "meta": {k: m[k] for k in m if k not in ("body", "cuts")}})
    ctx.assumptions += ["bodies have position-dependent content; 'contig' (returned bytes == body slice at the running position) is computed by the driver",
                        "readlines(hint) may ignore the hint (PEP 3333)"]


def real_servers(ctx, traces, metas):
    """the same on REAL servers of the worker classes: the request (body framed by length or chunked) arrives in segments,
    with pauses of up to 0.8 s inside the body; the application (realapp /body) runs the program on its wsgi.input and
    reports length and checksum of every piece; a pipelined request follows on the same connection.  One variant per class
    runs with a process-wide default socket timeout shorter than the pauses (socket.setdefaulttimeout, as an application or a
    configuration file may set): what the application reads must not depend on it."""
    import urllib.parse
    import zlib
    from drivers import realproc as rp
    from props.reload_real import _parallel
    rng = ctx.rng
    plan = [("gevent", "0.4"), ("gthread", None), ("sync", "0.4"), ("eventlet", "0.4")] if ctx.quick else \
        [(wk, to) for wk in ("sync", "gthread", "gevent", "eventlet") for to in (None, "0.4")]
    jobs = {}
    for key in plan:
        lst = []
        for _ in range(5 if ctx.quick else 25):
            blen = rng.choice([5, 1200, 3000, 9000])
            body, nls = drv.make_body(rng, blen, rng.choice(["none", "few", "dense"]))
            framing = rng.choice(["len", "chunked"])
            lay = rng.choice(layouts(rng, blen)) if framing == "chunked" else [blen]
            prog = rand_program(rng, 5)
            lst.append((body, nls, framing, lay, prog, rng.random() < 0.6))
        jobs[key] = lst

    def one_server(key, i):
        wk, to = key
        s = rp.Server(wk, workers=1, threads=2 if wk == "gthread" else None, args=["--keep-alive", "5", "--timeout", "30"],
                      env={"VERIF_SOCK_TIMEOUT": to} if to else None, name="c07r")
        out = []
        try:
            s.start()
            s.wait_booted(1)
            for body, nls, framing, lay, prog, slow in jobs[key]:
                stream = drv.frame(body, framing, lay, method=b"POST")
                # the driver's request targets "/"; the program travels in the query
                target = b"/body?prog=" + urllib.parse.quote(json.dumps([[op, n] for op, n in prog])).encode()
                stream = stream.replace(b" /b HTTP/1.1", b" " + target + b" HTTP/1.1", 1)
                head_end = stream.find(b"\r\n\r\n") + 4
                follower = b"GET /pid HTTP/1.1\r\nHost: h\r\n\r\n"
                cuts = sorted(set([head_end] + ([head_end + len(stream[head_end:]) // 2] if len(stream) - head_end > 2 else [])))
                segs, prev = [], 0
                for c in cuts + [len(stream)]:
                    if c > prev:
                        segs.append(stream[prev:c])
                        prev = c
                ev = []
                foll_ok = False
                try:
                    c = s.connect(timeout=15)
                    # the next request follows in the same segment as the end of the body (async classes), or once the
                    # first response is there (threaded class: a pipelined request is its recorded finding, C13 F25)
                    pipelined = wk in ("gevent", "eventlet")
                    try:
                        for k, sg in enumerate(segs):
                            if k and slow:
                                time.sleep(0.8)              # longer than the default socket timeout of the variant
                            c.sendall(sg if k < len(segs) - 1 else sg + (follower if pipelined else b""))
                    except OSError:
                        pass          # (an application that does not read its input may have answered and left already)
                    def responses(n):
                        """the next n responses (each with a Content-Length) from the connection -> [(status, body)]"""
                        got, buf = [], b""
                        c.settimeout(6.0)
                        while len(got) < n:
                            while True:
                                he = buf.find(b"\r\n\r\n")
                                if he < 0:
                                    break
                                head = buf[:he].decode("latin-1")
                                cl = [int(x.split(":", 1)[1]) for x in head.split("\r\n")[1:] if x.lower().startswith("content-length:")]
                                need = he + 4 + (cl[0] if cl else 0)
                                if len(buf) < need:
                                    break
                                got.append((int(head.split(" ")[1]), buf[he + 4:need]))
                                buf = buf[need:]
                                if len(got) == n:
                                    return got
                            d = c.recv(65536)
                            if not d:
                                break
                            buf += d
                        return got
                    rs = responses(2 if pipelined else 1)
                    st, rbody = rs[0] if rs else (0, b"")
                    res = json.loads(rbody.decode()) if st == 200 else [{"raised": "status%d" % st}]
                    if wk != "sync":
                        if not pipelined:
                            c.sendall(follower)
                            rs += responses(1)
                        foll_ok = len(rs) == 2 and rs[1][0] == 200 and rs[1][1].startswith(b"pid=")
                    c.close()
                except (OSError, ValueError) as e:
                    res = [{"raised": "NoResponse:" + type(e).__name__}]
                pos = 0
                for (op, n), r in zip(prog, res):
                    if "raised" in r:
                        ev.append({"e": "call", "op": "raised:" + r["raised"], "n": 0, "len": 0, "contig": False})
                        break
                    rec = {"e": "call", "op": op, "n": -1 if (n is None or n < 0) else n, "len": r["len"],
                           "contig": zlib.crc32(body[pos:pos + r["len"]]) == r["crc"]}
                    if "lines" in r:
                        rec["lines"] = r["lines"]
                    pos += r["len"]
                    ev.append(rec)
                if len(res) < len(prog) and not any("raised" in r for r in res):
                    ev.append({"e": "call", "op": "raised:ShortReport", "n": 0, "len": 0, "contig": False})
                expect = len(stream)
                ev.append({"e": "stop", "next_start": expect if (foll_ok or wk == "sync") else -2, "expect_next": expect})
                out.append(({"blen": len(body), "nls": nls, "ev": ev},
                            {"kind": "real-server", "wk": wk, "default_socket_timeout": to, "blen": len(body), "framing": framing,
                             "layout": lay[:10], "prog": prog, "slow_segments": slow, "log": s.errlog()[-200:] if not foll_ok and wk != "sync" else ""}))
            return out
        finally:
            s.cleanup()
    n = 0
    for res in _parallel(plan, one_server, par=8):
        for t, m in res:
            traces.append(t)
            metas.append(m)
            n += 1
    ctx.coverage["real_server_body_programs"] = n


def worker_level(ctx, traces, metas):
    from drivers import conn as cdrv
    rng = ctx.rng
    n = 0
    for kind in ("gthread", "async"):
        for framing in ("len", "chunked"):
            for blen in (100, 1500, 3000, 20000):
                for k in (0, 10, None):
                    for early in (0, 1, 1024, 1100, blen):
                        if early > blen or (ctx.quick and rng.random() < 0.4):
                            continue
                        body, nls = drv.make_body(rng, blen, "few")
                        stream = drv.frame(body, framing, layouts(rng, blen)[-1] if framing == "chunked" else [blen])
                        follower = b"GET /next HTTP/1.1\r\nHost: h\r\nX-Mark: m%d\r\n\r\n" % n
                        headlen = stream.find(b"\r\n\r\n") + 4
                        cut = min(len(stream), headlen + early)
                        got = []
                        seen = []

                        def app(environ, start_response, k=k, got=got, seen=seen):
                            seen.append((environ.get("RAW_URI"), environ.get("HTTP_X_MARK")))
                            if environ.get("RAW_URI") == "/b":
                                got.append(environ["wsgi.input"].read() if k is None else environ["wsgi.input"].read(k))
                            start_response("200 OK", [("Content-Length", "2")])
                            return [b"ok"]
                        cfg = cdrv.make_cfg(keepalive=2)
                        segs = [stream[:cut], stream[cut:] + follower] if cut < len(stream) else [stream, follower]
                        # on a fresh connection, or as the second request of a kept-alive one (the worker parked the
                        # connection in between)
                        warm = n % 2 == 1
                        if warm:
                            segs = [b"GET /warm HTTP/1.1\r\nHost: h\r\n\r\n"] + segs
                        r = cdrv.serve(kind, cfg, segs, app, eof_dispatch=True)
                        if warm and seen and seen[0][0] == "/warm":
                            del seen[0]
                        piece = got[0] if got else b""
                        want = len(body) if k is None else min(k, len(body))
                        ev = [{"e": "call", "op": "read", "n": -1 if k is None else k, "len": len(piece),
                               "contig": piece == body[:len(piece)]}]
                        ok_next = seen == [("/b", None), ("/next", "m%d" % n)]
                        ev.append({"e": "stop", "next_start": len(stream) if ok_next else -3, "expect_next": len(stream)})
                        traces.append({"blen": blen, "nls": nls, "ev": ev})
                        metas.append({"kind": "worker:" + kind, "blen": blen, "framing": framing, "prog": [("read", k)],
                                      "early": early, "warm": warm, "seen": seen[:4], "wire": r.wire[:80].decode("latin-1"), "escaped": r.escaped})
                        n += 1
    ctx.coverage["worker_level_runs"] = n


def replay(ctx, data):
    case = data["case"]
    verdicts, _ = tlc.validate_batch("BodyTrace", "BodyTrace.cfg", [case["trace"]], name="BodyTrace_replay")
    print("trace:", case["trace"]["ev"], "meta:", case["meta"], "verdict:", verdicts[0])
    return 1 if verdicts[0][0] != "ok" else 0


CHECKS = {"C07": c07}
