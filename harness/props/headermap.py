"""C08: only trusted peers can set scheme, script name or client address.

(D) specs/HeaderMap.tla: Model(case) (parse_headers scheme/underscore policy, PROXY line checks,
    wsgi.create, carrying of PROXY info over keep-alive) satisfies the trust-rule envelope for the complete
    products A (proxy protocol) and B (header lists x allow lists x header_map x forwarder_headers);
(C)+(P) the same cases are emitted by TLC, turned into a real Config + byte requests, served by the real
    handle() of the worker class (two requests on one connection for idx = 2); the environ the application
    saw is abstracted and judged by TLC (specs/HeaderMapTrace.tla: envelope first, then equality with the
    model = drift).
"""
import json
import os

import tlc
from drivers import conn as drv

OUT = tlc.OUT
AS_IS_DEV = []   # NoProxyCarryGthread: fixed in /repo (707c9ca)

HDR = {"proto_s": ("X-Forwarded-Proto", "https"), "proto_i": ("X-Forwarded-Proto", "http"),
       "ssl_s": ("X-Forwarded-Ssl", "on"), "ssl_i": ("X-Forwarded-Ssl", "off"),
       "proto_us": ("X_Forwarded_Proto", "HTTPS-us"), "sn": ("SCRIPT_NAME", "/app"), "sn_h": ("Script-Name", "/app/x"),
       "pi": ("PATH_INFO", "/evil"), "cu": ("X_Custom", "cu"), "ch": ("X-Custom", "ch"), "cdot": ("X.Custom", "cd"),
       "plain": ("Accept", "pl")}
TOKEN_SEPS = ".~!+#$%&'*^`|"
PEER = {"listed": ("10.0.0.1", 5555), "unlisted": ("10.9.9.9", 5555), "unix": ""}
# the same abstract peers over IPv6 (accept() returns a 4-tuple there)
PEER6 = {"listed": ("2001:db8::1", 5555, 0, 0), "unlisted": ("2001:db8::9", 5555, 0, 0), "unix": ""}
ALLOW = {"none": "", "listed": "10.0.0.1,2001:db8::1", "star": "*"}


def emit(product):
    cfgp = os.path.join(OUT, "cfg", "HeaderMapCases_%s.cfg" % product)
    os.makedirs(os.path.dirname(cfgp), exist_ok=True)
    tlc.write_cfg(cfgp, spec="CSpec", constants={"Dev": set(), "Product": product})
    outp = os.path.join(OUT, "cases_hm_%s.ndjson" % product)
    if os.path.exists(outp):
        os.unlink(outp)
    tlc.run("HeaderMapCases", cfgp, name="HeaderMapCases_" + product, workers=1, timeout=900, env={"CASES_OUT": outp})
    with open(outp) as f:
        return [json.loads(x) for x in f if x.strip()]


def randcase(s, rng):
    return "".join(ch.upper() if rng.random() < 0.5 else ch.lower() for ch in s)


def observe(case, rng):
    fa = ALLOW[case["fa"]]
    if case.get("decl") and fa != "*":
        fa = (fa + "," if fa else "") + "1.2.3.4"      # the address the PROXY line declares
    kw = {"forwarded_allow_ips": fa, "header_map": case["hm"], "proxy_protocol": bool(case["pp"]),
          "proxy_allow_ips": ALLOW[case["pa"]], "keepalive": 5}
    if case["fh"] != "default":
        kw["forwarder_headers"] = "" if case["fh"] == "empty" else "*"
    if case["ssh"] == "empty":
        kw["secure_scheme_headers"] = {}
    if case.get("tls"):
        # the listener terminates TLS itself (certfile / keyfile configured); the scripted sockets carry plain bytes, the
        # workers' wrap step is the identity for the run
        repo = os.environ.get("VERIF_REPO", "/repo")
        kw["certfile"] = os.path.join(repo, "examples", "server.crt")
        kw["keyfile"] = os.path.join(repo, "examples", "server.key")
    cfg = drv.make_cfg(**kw)
    environs = []

    def app(environ, start_response):
        environs.append(dict(environ))
        start_response("200 OK", [("Content-Length", "2")])
        return [b"ok"]

    lines = []
    for i, h in enumerate(case["hs"]):
        n, v = HDR[h]
        if "_" not in n and h != "sn_h":
            n = randcase(n, rng)
        if h == "cdot":
            n = n.replace(".", rng.choice(TOKEN_SEPS))
        if h in ("cu", "ch", "cdot", "plain", "pi"):
            v = "%s%d" % (v, i)
        lines.append((n, v))
    hdrs = "".join("%s: %s\r\n" % (n, v) for n, v in lines).encode("latin-1")
    pline = b"PROXY TCP4 1.2.3.4 5.6.7.8 1111 2222\r\n" if case["pline"] else b""
    if case["idx"] == 1:
        data = pline + b"GET /app/x HTTP/1.1\r\nHost: h\r\n" + hdrs + b"\r\n"
    else:
        pline2 = b"PROXY TCP4 1.2.3.4 5.6.7.8 1111 2222\r\n" if case.get("pline2") else b""
        data = pline + b"GET /first HTTP/1.1\r\nHost: h\r\n\r\n" + pline2 + b"GET /app/x HTTP/1.1\r\nHost: h\r\n" + hdrs + b"\r\n"
    w = drv.make_worker(case["wk"], cfg, app)
    if case["peer"] == "unix":
        w.sockets[0].name = "/run/gunicorn.sock"
    segs = [data] if rng.random() < 0.5 else [data[:len(data) // 2], data[len(data) // 2:]]
    if case["idx"] == 2 and case["wk"] == "gthread":
        # the second request arrives later (the keep-alive connection goes back to the poller in between)
        cut = len(pline) + len(b"GET /first HTTP/1.1\r\nHost: h\r\n\r\n")
        segs = [data[:cut], data[cut:]]
    peer = (PEER6 if rng.random() < 0.4 else PEER)[case["peer"]]
    if case["peer"] == "unlisted" and isinstance(peer, tuple) and len(peer) == 2 and rng.random() < 0.5:
        # unlisted addresses whose text contains / ends with / extends a listed one
        peer = (rng.choice(["110.0.0.1", "210.0.0.1", "10.0.0.11", "10.0.0.10", "1.10.0.0.1"[2:] + "0", "10.0.0.2"]), peer[1])
    if case["pp"] and case["wk"] in ("async", "gthread") and rng.random() < 0.5:
        # another connection of the same worker, from a permitted proxy, announced a client address just before:
        # it must not leak into this connection
        drv.serve(case["wk"], cfg, [b"PROXY TCP4 1.2.3.4 5.6.7.8 1111 2222\r\nGET /other HTTP/1.1\r\nHost: h\r\n\r\n"], app,
                  peer=("10.0.0.1", 6001) if case["pa"] != "none" else "", worker=w, eof_dispatch=True)
    import gunicorn.sock as gsock
    saved_wrap = gsock.ssl_wrap_socket
    if case.get("tls"):
        gsock.ssl_wrap_socket = lambda sock_, conf_: sock_
    try:
        r = drv.serve(case["wk"], cfg, segs, app, peer=peer, worker=w, eof_dispatch=True)
    finally:
        gsock.ssl_wrap_socket = saved_wrap
    obs = {"out": "reject", "scheme": "http", "sn": False, "addr": "peer", "merged": []}
    env = None
    for e in environs:
        if e.get("RAW_URI") == "/app/x":
            env = e
    if env is not None:
        obs["out"] = "app"
        obs["scheme"] = env.get("wsgi.url_scheme")
        obs["sn"] = env.get("SCRIPT_NAME", "") != ""
        obs["addr"] = "declared" if env.get("REMOTE_ADDR") == "1.2.3.4" else "peer"
        byval = {}
        for i, (n, v) in enumerate(lines):
            byval.setdefault(v, []).append(i + 1)
        for k, val in env.items():
            if not k.startswith("HTTP_") or not isinstance(val, str):
                continue
            idxs = []
            for tok in val.split(","):
                idxs += byval.get(tok, [])
            idxs = sorted(set(idxs))
            for a in idxs:
                for b in idxs:
                    if a < b:
                        obs["merged"].append([a, b])
    return {"case": case, "obs": obs}, {"request": data.decode("latin-1"), "escaped": r.escaped,
                                        "environ": {k: env[k] for k in env if k.isupper()} if env else None}


def c08(ctx):
    rng = ctx.rng
    for prod in ["A", "B", "T"] + ([] if ctx.quick else ["B3"]):
        cfg = os.path.join(OUT, "cfg", "HeaderMap_%s.cfg" % prod)
        tlc.write_cfg(cfg, spec="Spec", constants={"Dev": set(), "Product": prod}, invariants=["DesignSatisfiesEnvelope"])
        r = tlc.run("HeaderMap", cfg, name="HeaderMap_" + prod, workers=8, timeout=1800)
        if not r.ok:
            raise tlc.TLCError("HeaderMap design violates the envelope on product %s" % prod)
        ctx.add_model(r, prod)
    ctx.coverage["exhaustive"] = True
    cfg = os.path.join(OUT, "cfg", "HeaderMap_dev.cfg")
    tlc.write_cfg(cfg, spec="Spec", constants={"Dev": {"NoProxyCarryGthread"}, "Product": "A"}, invariants=["DesignSatisfiesEnvelope"])
    rr = tlc.run("HeaderMap", cfg, name="HeaderMap_dev", workers=4, timeout=600)
    ctx.coverage["deviation_runs"] = [{"dev": "NoProxyCarryGthread", "reproduced": not rr.ok}]
    cfg = os.path.join(OUT, "cfg", "HeaderMap_dev2.cfg")
    tlc.write_cfg(cfg, spec="Spec", constants={"Dev": {"TrustDeclaredAddr"}, "Product": "A"}, invariants=["DesignSatisfiesEnvelope"])
    rr = tlc.run("HeaderMap", cfg, name="HeaderMap_dev2", workers=4, timeout=600)
    ctx.coverage["deviation_runs"].append({"dev": "TrustDeclaredAddr", "reproduced": not rr.ok})
    cfg = os.path.join(OUT, "cfg", "HeaderMap_dev3.cfg")
    tlc.write_cfg(cfg, spec="Spec", constants={"Dev": {"LatePlineAccepted"}, "Product": "A"}, invariants=["DesignSatisfiesEnvelope"])
    rr = tlc.run("HeaderMap", cfg, name="HeaderMap_dev3", workers=4, timeout=600)
    ctx.coverage["deviation_runs"].append({"dev": "LatePlineAccepted", "reproduced": not rr.ok})
    cases = emit("A")
    cb = emit("B")
    if ctx.quick:
        cb = rng.sample(cb, 2500)
    cases += cb
    ct = emit("T")
    cases += ct if not ctx.quick else rng.sample(ct, min(len(ct), 800))
    if not ctx.quick:
        c3 = emit("B3")
        cases += rng.sample(c3, 8000)
    traces, metas = [], []
    for c in cases:
        c["hs"] = list(c["hs"])
        t, m = observe(c, rng)
        traces.append(t)
        metas.append(m)
    # the trace spec compares with the model of the CURRENT tree
    tcfg = os.path.join(OUT, "cfg", "HeaderMapTrace_run.cfg")
    tlc.write_cfg(tcfg, spec="TSpec", constants={"Dev": set(AS_IS_DEV), "Product": "A"}, constraints=["Record"],
                  postcondition="Post")
    verdicts, stats = tlc.validate_batch("HeaderMapTrace", tcfg, traces, name="HeaderMapTrace_C08", chunk=6000)
    ctx.add_traces(len(traces), stats)
    ndrift = 0
    for t, m, (v, step) in zip(traces, metas, verdicts):
        if v == "ok":
            continue
        c = t["case"]
        if v == "DRIFT":
            ndrift += 1
            if ndrift <= 5:
                ctx.note_drift("HeaderMap model not followed: case=%s obs=%s" % (c, t["obs"]))
            continue
        sig = "C08/%s/wk=%s,idx=%d,hm=%s%s" % (v, c["wk"] if "Proxy" in v else "*", c["idx"], c["hm"], ",tls" if c.get("tls") else "")
        ctx.violation(sig, "%s: case=%s obs=%s request=%r" % (v, c, t["obs"], m["request"][:300]), {"trace": t, "meta": m})
    if ndrift > 5:
        ctx.note_drift("... %d drifting cases in total" % ndrift)
    for t, m in list(zip(traces, metas))[:2] + list(zip(traces, metas))[-1:]:
        ctx.sample({"case": t["case"], "obs": t["obs"], "request": m["request"][:200]})
    ctx.assumptions += ["unix-socket peers count as permitted (documented)",
                        "forwarder headers honoured from a permitted peer may share a variable with their hyphen spelling (documented: mapped regardless of header_map)",
                        "header_map = dangerous is excluded from the SCRIPT_NAME trust clause (documented-unsafe mode)"]


def replay(ctx, data):
    import random
    t = data["case"]["trace"]
    t2, m = observe(t["case"], random.Random(0))
    print("observed:", t2["obs"], m)
    tcfg = os.path.join(OUT, "cfg", "HeaderMapTrace_run.cfg")
    tlc.write_cfg(tcfg, spec="TSpec", constants={"Dev": set(AS_IS_DEV), "Product": "A"}, constraints=["Record"], postcondition="Post")
    verdicts, _ = tlc.validate_batch("HeaderMapTrace", tcfg, [t2], name="HeaderMapTrace_replay")
    print("verdict:", verdicts[0])
    return 1 if verdicts[0][0] not in ("ok", "DRIFT") else 0


CHECKS = {"C08": c08}
