"""C04 worker / client side on real processes: clients are put into a chosen phase of a connection's
life, the master is signalled, the clients carry on; exit status, exit time, survivors, listening socket,
pid file and unix socket file are observed.  Judged by TLC against specs/ShutdownTrace.tla."""
import os
import signal
import socket
import threading
import time

import tlc
from drivers import realproc as rp

PHASES = ["idle", "head_partial", "head_partial_late", "app_running", "resp_partial", "keepalive_idle", "second_partial"]


class Client(threading.Thread):
    def __init__(self, srv, phase, appfin, go, graceful):
        super().__init__(daemon=True)
        self.srv, self.phase, self.appfin, self.go = srv, phase, appfin, go
        self.graceful = graceful
        self.ready = threading.Event()
        self.outcome = "nothing"
        self.started = phase in ("head_partial", "head_partial_late", "app_running", "resp_partial", "second_partial")
        self.err = None

    def path(self):
        if self.phase == "resp_partial":
            d = {"within": 0.3, "overrun": self.graceful + 2.0, "never": 3600, "late": (self.graceful - 1.5) / 3.0}[self.appfin]
            return "/stream?n=3&d=%s" % d
        if self.appfin == "never":
            return "/hang"
        # "late": finishes inside the graceful timeout, but later than --timeout after the signal
        t = {"within": 0.8, "overrun": self.graceful + 3.0, "late": self.graceful - 1.5}[self.appfin]
        return "/sleep?t=%s" % t

    def run(self):
        try:
            s = self.srv.connect(timeout=self.graceful + 12)
        except OSError:
            self.outcome = "refused"
            self.ready.set()
            return
        try:
            if self.phase == "idle":
                self.ready.set()
                self.go.wait()
                time.sleep(0.5)
                self.outcome = "nothing"
                return
            if self.phase == "keepalive_idle":
                st, body, info = self.srv.get("/pid", sock=s, keepalive=True)
                self.ready.set()
                self.go.wait()
                time.sleep(0.3)
                self.outcome = "nothing"
                return
            if self.phase in ("head_partial", "head_partial_late"):
                s.sendall(b"GET /pid HTTP/1.1\r\nHo")
                time.sleep(0.3)          # let the worker accept and start reading
                self.ready.set()
                self.go.wait()
                # the rest of the head arrives shortly after the signal / after the worker has closed its listeners
                time.sleep(0.4 if self.phase == "head_partial" else 1.7)
                s.sendall(b"st: h\r\nConnection: close\r\n\r\n")
                st, body, info = rp.read_response(s)
                self.outcome = "complete" if (st == 200 and info["complete"]) else self.classify(info, body)
                return
            if self.phase == "second_partial":
                # the head of a second request on the same connection is partly there while the application works on the
                # first one; its rest arrives 0.7 s after the signal: both are answered
                s.sendall(("GET %s HTTP/1.1\r\nHost: h\r\n\r\nGET /pid HTTP/1.1\r\nHo" % self.path()).encode())
                time.sleep(0.3)
                self.ready.set()
                self.go.wait()
                st, body, info = rp.read_response(s)
                first = st == 200 and info["complete"]
                time.sleep(0.7)
                s.sendall(b"st: h\r\nConnection: close\r\n\r\n")
                st2, body2, info2 = rp.read_response(s)
                self.outcome = "complete" if (first and st2 == 200 and info2["complete"]) else self.classify(info2 if first else info, body2 if first else body)
                return
            req = ("GET %s HTTP/1.1\r\nHost: h\r\nConnection: close\r\n\r\n" % self.path()).encode()
            s.sendall(req)
            if self.phase == "resp_partial":
                buf = b""
                while b"000x" not in buf:       # first chunk of the streamed body has arrived
                    d = s.recv(65536)
                    if not d:
                        break
                    buf += d
                self.ready.set()
                self.go.wait()
                try:
                    while True:
                        d = s.recv(65536)
                        if not d:
                            break
                        buf += d
                    self.outcome = "complete" if (b"END pid=" in buf and buf.endswith(b"0\r\n\r\n")) else "truncated"
                except ConnectionResetError:
                    self.outcome = "reset"
                except socket.timeout:
                    self.outcome = "truncated"
                return
            time.sleep(0.3)              # the application is running now
            self.ready.set()
            self.go.wait()
            st, body, info = rp.read_response(s)
            self.outcome = "complete" if (st == 200 and info["complete"]) else self.classify(info, body)
        except ConnectionResetError:
            self.outcome = "reset"
        except OSError as e:
            self.outcome = "reset"
            self.err = str(e)
        finally:
            self.ready.set()
            try:
                s.close()
            except OSError:
                pass

    @staticmethod
    def classify(info, body):
        if info.get("reset"):
            return "reset"
        if body:
            return "truncated"
        return "nothing"


def run_shutdown(wk, sig, phases, appfin="within", graceful=3, bind="tcp", slack_ms=2500, pre=(), timeout=60, server_args=()):
    """-> (trace, meta).  pre: signals sent to the master (0.6 s apart) after the clients are in their phase and
    before the final signal, e.g. ("TTIN", "TTOU") retires the busy worker first"""
    if sig != "TERM":
        # quick shutdown: "prompt" (about a second for the async classes) against "waited for the graceful timeout" --
        # a gap wide enough for a loaded machine
        graceful = max(graceful, 9)
        slack_ms = max(slack_ms, 4500)
    nworkers = len(phases) if wk == "sync" else 1
    threads = max(2, len(phases)) if wk == "gthread" else None
    # "tcp2": a second listener that stays idle while the clients use the first one
    extra = ["-b", "127.0.0.1:%d" % rp.free_port()] if bind == "tcp2" else []
    s = rp.Server(wk, workers=nworkers, threads=threads, bind="tcp" if bind in ("tcp2", "tcpunix") else bind, pidfile=True,
                  args=["--graceful-timeout", str(graceful), "--keep-alive", "5", "--timeout", str(timeout)] + extra + list(server_args), name="c04")
    if bind == "tcpunix":
        # a TCP listener first, a unix-socket listener second: the clients use the first, the file of the second must go
        s.sockpath = os.path.join(s.dir, "second.sock")
        s.cmd[-1:-1] = ["-b", "unix:" + s.sockpath]
    try:
        s.start()
        wpids = s.wait_booted(nworkers)
        time.sleep(0.2)
        go = threading.Event()
        clients = [Client(s, ph, appfin, go, graceful) for ph in phases]
        for c in clients:
            c.start()
            # one connection per sync worker; for the other classes the clients arrive in the order of the list (with a
            # bounded pool the last one is the one that finds no free slot)
            time.sleep(0.15 if wk == "sync" else 0.08)
        for c in clients:
            c.ready.wait(10)
        allpids = set(wpids)
        for name in pre:
            if name == "TERMNEW":
                # back out of an upgrade: stop the master that USR2 started, wait until the old one has reaped it
                newpid = None
                deadline = time.time() + 6
                while time.time() < deadline and not newpid:
                    try:
                        with open(s.pidfile + ".2") as f:
                            newpid = int(f.read().strip() or 0)
                    except (OSError, ValueError):
                        time.sleep(0.05)
                if newpid:
                    time.sleep(0.5)
                    allpids |= set(rp.children_of(newpid))
                    os.kill(newpid, signal.SIGTERM)
                    deadline = time.time() + 8
                    while time.time() < deadline and rp.proc_state(newpid) not in (None, "Z"):
                        time.sleep(0.05)
                    time.sleep(1.5)
                continue
            s.signal(getattr(signal, "SIG" + name))
            time.sleep(0.6)
            allpids |= set(s.workers())
        wpids = sorted(allpids)
        t0 = time.time()
        s.signal({"TERM": signal.SIGTERM, "INT": signal.SIGINT, "QUIT": signal.SIGQUIT}[sig])
        go.set()
        status = s.wait_exit(graceful + 15)
        elapsed = int((time.time() - t0) * 1000)
        # the end state is read at the moment the master is gone, before the clients are waited for
        time.sleep(0.25)
        survivors = [p for p in wpids if rp.proc_state(p) not in (None, "Z")]
        listening = False
        try:
            c2 = s.connect(timeout=0.5)
            c2.close()
            listening = True
        except OSError:
            listening = False
        after = {"e": "after", "workers": len(survivors), "listening": listening,
                 "pidfile": os.path.exists(s.pidfile), "sockfile": bool(s.sockpath and os.path.exists(s.sockpath))}
        for c in clients:
            c.join(graceful + 12)
        ev = [{"e": "client", "phase": c.phase, "started": bool(c.started), "appfin": appfin, "outcome": c.outcome}
              for c in clients]
        ev.append({"e": "exit", "status": -1 if status is None else status, "elapsed_ms": elapsed})
        ev.append(after)
        tr = {"sig": sig, "graceful_ms": graceful * 1000, "slack_ms": slack_ms, "wk": wk, "ev": ev}
        return tr, {"wk": wk, "sig": sig, "phases": phases, "appfin": appfin, "bind": bind, "elapsed_ms": elapsed,
                    "pre": list(pre), "server_args": list(server_args), "log": s.errlog()[-600:]}
    finally:
        s.cleanup()


def run_boot_stop(wk, sig, graceful=8):
    """the stop signal reaches the master while its workers are still importing a slow application (no preload)"""
    import subprocess
    s = rp.Server(wk, workers=2, threads=2 if wk == "gthread" else None, pidfile=True,
                  args=["--graceful-timeout", str(graceful), "--timeout", "60"], env={"VERIF_BOOT_SLEEP": "7"}, name="c04boot")
    try:
        p = subprocess.Popen(s.cmd, cwd=rp.REPO, env=s.env, stdout=subprocess.DEVNULL, stderr=subprocess.DEVNULL)
        deadline = time.time() + 10
        while time.time() < deadline and len(rp.children_of(p.pid)) < 2:
            time.sleep(0.02)
        wpids = rp.children_of(p.pid)
        time.sleep(1.0)                      # the workers are inside the application import now
        t0 = time.time()
        os.kill(p.pid, {"TERM": signal.SIGTERM, "INT": signal.SIGINT, "QUIT": signal.SIGQUIT}[sig])
        try:
            status = p.wait(graceful + 12)
        except subprocess.TimeoutExpired:
            status = None
        elapsed = int((time.time() - t0) * 1000)
        time.sleep(0.25)
        survivors = [x for x in wpids if rp.proc_state(x) not in (None, "Z")]
        for x in survivors:
            try:
                os.kill(x, signal.SIGKILL)
            except OSError:
                pass
        if status is None:
            p.kill()
        ev = [{"e": "exit", "status": -1 if status is None else status, "elapsed_ms": elapsed},
              {"e": "after", "workers": len(survivors), "listening": False, "pidfile": os.path.exists(s.pidfile), "sockfile": False}]
        tr = {"sig": sig, "graceful_ms": graceful * 1000, "slack_ms": 3500, "wk": wk, "ev": ev}
        return tr, {"wk": wk, "sig": sig, "phases": ["booting"], "appfin": "import", "bind": "tcp", "elapsed_ms": elapsed,
                    "pre": [], "log": s.errlog()[-400:]}
    finally:
        s.cleanup()


def plan_for(ctx):
    if ctx.quick:
        return [("sync", "TERM", ["app_running", "head_partial"], "within", "tcp"),
                ("gthread", "TERM", ["app_running", "resp_partial", "keepalive_idle"], "within", "unix"),
                ("gevent", "TERM", ["app_running", "head_partial", "head_partial_late", "resp_partial"], "within", "tcp"),
                ("sync", "QUIT", ["app_running"], "within", "unix"),
                ("sync", "TERM", ["app_running"], "overrun", "tcp", ("TTIN", "TTOU")),
                ("gevent", "TERM", ["app_running", "resp_partial"], "within", "tcp2"),
                ("sync", "TERM", ["app_running"], "within", "unix", ("USR2", "TERMNEW")),
                ("gthread", "TERM", ["app_running", "resp_partial"], "late", "tcp", (), 6, 2),
                # every worker binds its own SO_REUSEPORT socket: the master has no listener of its own
                ("sync", "TERM", ["app_running"], "within", "tcp", (), 3, 60, ("--reuse-port",)),
                ("gthread", "QUIT", ["app_running"], "never", "tcp", (), 3, 60, ("--reuse-port",)),
                # every connection slot of the worker taken, one more connection accepted, when the stop request arrives
                ("eventlet", "TERM", ["app_running", "app_running", "idle"], "within", "tcp", (), 3, 60, ("--worker-connections", "2")),
                # --reload: the workers run a file-watching thread besides their main loop
                ("sync", "QUIT", ["idle"], "within", "tcp", (), 3, 60, ("--reload",)),
                ("gthread", "TERM", ["app_running"], "within", "tcpunix"),
                ("gevent", "TERM", ["second_partial", "app_running"], "within", "tcp"),
                ("gthread", "TERM", ["app_running"], "within", "tcp", (), 3, 60, ("--reload",)),
                # started by something that left the master's signals set to "ignore" (nohup, cron): a stop request is obeyed all the same
                ("sync", "TERM", ["app_running", "idle"], "within", "tcp", (), 3, 60, ("@ignsig",)),
                # the stop request arrives while the worker serves the request that makes it reach max_requests (it has
                # already decided to leave after this request; the master's TERM is then the second reason to)
                ("sync", "TERM", ["app_running"], "within", "tcp", (), 3, 60, ("--max-requests", "1")),
                ("gevent", "TERM", ["app_running", "resp_partial"], "within", "unix", (), 3, 60, ("--max-requests", "1"))]
    plan = []
    for wk in ("sync", "gthread", "gevent", "eventlet"):
        for bind in ("tcp", "unix"):
            plan.append((wk, "TERM", ["idle", "head_partial", "head_partial_late", "app_running", "resp_partial", "keepalive_idle"],
                         "within", bind))
        plan.append((wk, "TERM", ["app_running", "resp_partial"], "overrun", "tcp"))
        plan.append((wk, "TERM", ["app_running"], "never", "unix"))
        plan.append((wk, "QUIT", ["app_running", "keepalive_idle"], "within", "tcp"))
        plan.append((wk, "INT", ["app_running", "idle"], "never", "unix"))
        plan.append((wk, "TERM", ["app_running"], "overrun", "tcp", ("TTIN", "TTOU")))
        plan.append((wk, "QUIT", ["app_running"], "never", "tcp", ("TTIN", "TTOU")))
        plan.append((wk, "TERM", ["app_running", "resp_partial", "head_partial"], "within", "tcp2"))
        plan.append((wk, "TERM", ["app_running"], "within", "unix", ("USR2", "TERMNEW")))
        plan.append((wk, "QUIT", ["idle"], "within", "unix", ("USR2", "TERMNEW")))
        plan.append((wk, "TERM", ["app_running", "resp_partial"], "late", "tcp", (), 6, 2))
        plan.append((wk, "TERM", ["app_running", "idle"], "within", "tcp", (), 3, 60, ("--reuse-port",)))
        plan.append((wk, "INT", ["app_running"], "never", "tcp", (), 3, 60, ("--reuse-port",)))
        if wk in ("gevent", "eventlet"):
            plan.append((wk, "TERM", ["second_partial", "app_running"], "within", "unix"))
            # (the threaded worker with all its connection slots taken does not poll its connections at all - the recorded
            # finding of C13 - so the requests of this scenario would never start)
            plan.append((wk, "TERM", ["app_running", "app_running", "idle"], "within", "tcp", (), 3, 60, ("--worker-connections", "2")))
        plan.append((wk, "QUIT", ["idle"], "within", "tcp", (), 3, 60, ("--reload",)))
        plan.append((wk, "TERM", ["app_running", "idle"], "within", "tcpunix"))
        plan.append((wk, "INT", ["idle"], "within", "tcpunix"))
        plan.append((wk, "TERM", ["app_running"], "within", "tcp", (), 3, 60, ("--reload",)))
        plan.append((wk, "TERM", ["app_running", "idle"], "within", "tcp", (), 3, 60, ("@ignsig",)))
        plan.append((wk, "QUIT", ["app_running"], "never", "unix", (), 3, 60, ("@ignsig",)))
        plan.append((wk, "TERM", ["app_running", "resp_partial"], "within", "tcp", (), 3, 60, ("--max-requests", "1")))
        plan.append((wk, "TERM", ["app_running"], "within", "unix", ("TTIN", "TTOU"), 3, 60, ("--max-requests", "2")))
    return plan


def worker_side(ctx):
    """runs the plan (4 servers in parallel), validates with TLC, reports violations on ctx"""
    plan = plan_for(ctx)
    results = [None] * len(plan)

    def runner(i):
        wk, sig, phases, appfin, bind = plan[i][:5]
        pre = plan[i][5] if len(plan[i]) > 5 else ()
        graceful = plan[i][6] if len(plan[i]) > 6 else 3
        timeout = plan[i][7] if len(plan[i]) > 7 else 60
        sargs = plan[i][8] if len(plan[i]) > 8 else ()
        try:
            results[i] = run_shutdown(wk, sig, phases, appfin, graceful=graceful, bind=bind, pre=pre, timeout=timeout,
                                      server_args=sargs)
        except Exception as e:   # noqa
            results[i] = e
    par = 9
    for base in range(0, len(plan), par):
        ths = [threading.Thread(target=runner, args=(i,)) for i in range(base, min(base + par, len(plan)))]
        [t.start() for t in ths]
        [t.join() for t in ths]
    traces, metas = [], []
    for r in results:
        if isinstance(r, Exception):
            raise r
        traces.append(r[0])
        metas.append(r[1])
    # stop signals while the workers are still booting
    from props.reload_real import _parallel
    bplan = [("sync", "QUIT"), ("gthread", "INT")] if ctx.quick else \
        [(wk, sg) for wk in ("sync", "gthread", "gevent", "eventlet") for sg in ("QUIT", "INT", "TERM")
         # (an eventlet worker acts on INT / QUIT from a greenlet its handler spawns: that happens when the hub next wakes
         # up, i.e. when the green sleep of the slow import is over; the bound of this scenario does not apply to it)
         if not (wk == "eventlet" and sg != "TERM")]
    for t, m in _parallel(bplan, lambda a, i: run_boot_stop(a[0], a[1]), par=6):
        traces.append(t)
        metas.append(m)
    verdicts, stats = tlc.validate_batch("ShutdownTrace", "ShutdownTrace.cfg", traces, name="ShutdownTrace_C04")
    ctx.add_traces(len(traces), stats)

    def rerun(k):
        if k < len(plan):
            runner(k)
            if isinstance(results[k], Exception):
                raise results[k]
            return results[k]
        a = bplan[k - len(plan)]
        return run_boot_stop(a[0], a[1])
    tlc.repeat_failing(ctx, "ShutdownTrace", "ShutdownTrace.cfg", traces, metas, verdicts, range(len(traces)), rerun, "ShutdownTrace_C04")
    ctx.coverage["real_process_shutdowns"] = len(traces)
    for t, m, (v, step) in zip(traces, metas, verdicts):
        if v == "ok":
            continue
        e = t["ev"][step - 1]
        sig = "C04/%s/wk=%s,sig=%s" % (v, m["wk"], m["sig"])
        if e.get("e") == "client":
            sig += ",phase=%s" % e["phase"]
        ctx.violation(sig, "%s: %s event=%s" % (v, {k: m[k] for k in m if k != "log"}, e), {"trace": t, "meta": m})
    for t, m in list(zip(traces, metas))[:2]:
        ctx.sample({"wk": m["wk"], "sig": m["sig"], "phases": m["phases"], "events": t["ev"]})
    ctx.assumptions += ["real-process shutdowns: graceful_timeout 3 s, scheduling slack 2.5 s, loopback TCP and unix sockets"]
