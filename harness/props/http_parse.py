"""C01 (framing exact), C06 (segmentation independence), C12 (limits, bounded buffering).

(D) specs/HttpParse.tla checked exhaustively over the stream families of specs/HttpGen.tla
    (every segmentation into reads of 1..MaxRecv symbols);
(C) the same families are emitted by TLC (specs/HttpCases.tla), concretized to bytes and pushed
    through the real gunicorn.http.RequestParser; TLC -simulate behaviours of HttpParse (with the
    deviations of the current tree on) are replayed and their terminal observation compared;
(P) the recorded traces are judged by TLC against specs/HttpTrace.tla (strict reading only).
"""
import json
import os
import random
from concurrent.futures import ThreadPoolExecutor

import tlc
import concretize as cz
from drivers import http_parse as drv

OUT = tlc.OUT

AS_IS_DEV = ["UnboundedChunkLine"]  # CapWholeBlock fixed (733fedc);   # StripPyWs, DroppedNotCounted, UnboundedTrailers: fixed in /repo

HREJECT = {"CLbad", "TEchunkedgzip", "TEchunked2", "TEunknown", "TEnontoken", "TEpyws", "ObsFold",
           "WsColon", "BadName", "NulVal", "NoColon"}
CLK = {"CL0", "CL1", "CL2", "CL3", "CL5"}
TEC = {"TEchunked", "TEgzipchunked", "TEempty"}


def causes(m):
    hs = m["hdrs"]
    c = sorted(set(h for h in hs if h in HREJECT))
    if m["rl"] == "RLbad":
        c.append("RLbad")
    if m.get("px", "none") != "none":
        c.append("px=" + m["px"])
    ncl = sum(1 for h in hs if h in CLK)
    ntec = sum(1 for h in hs if h in TEC)
    if ncl > 1:
        c.append("dupCL")
    if ntec > 1:
        c.append("dupChunked")
    if ntec == 1 and ncl > 0:
        c.append("CL+TE")
    if ntec == 1 and m["rl"] == "RL10":
        c.append("TE10")
    return c


# ---------------------------------------------------------------------------------------------

def model_cfg(name, family, dev=(), maxrecv=3, block=2, limit_line=0, limit_fields=100, fs=0,
              default_fs=20, invariants=None, liveness=True):
    inv = invariants or ["FramingExact", "RejectsListed", "CompleteOkDelivered", "FinDetermined",
                         "InOrderNoLossNoDup", "OverLimitRejected"]
    path = os.path.join(OUT, "cfg", name + ".cfg")
    os.makedirs(os.path.dirname(path), exist_ok=True)
    tlc.write_cfg(path, spec="Spec",
                  constants={"MaxRecv": maxrecv, "Block": block, "LimitLine": limit_line,
                             "LimitFields": limit_fields, "LimitFieldSize": fs, "DefaultFS": default_fs,
                             "Family": family, "Dev": set(dev)},
                  invariants=inv, properties=["Terminates"] if liveness else [],
                  constraints=["LevelBound"])
    return path


def run_models(ctx, jobs, workers=4):
    """jobs: list of (label, kwargs for model_cfg).  Design configs must pass: a failure of the
    intended design is a machinery failure, not a verdict about the code."""
    def one(job):
        label, kw = job
        cfg = model_cfg("HttpParse_" + label, **kw)
        return label, tlc.run("HttpParse", cfg, name="HttpParse_" + label, workers=workers, timeout=1500)
    with ThreadPoolExecutor(max_workers=max(1, 16 // workers)) as ex:
        res = list(ex.map(one, jobs))
    for label, r in res:
        if not r.ok:
            raise tlc.TLCError("design model %s violates %s" % (label, r.violated))
        ctx.add_model(r, label)
    return res


def expect_violation(ctx, label, expected, **kw):
    """the model with a deviation of the current tree on must reproduce the expected violation"""
    cfg = model_cfg("HttpParse_" + label, liveness=False, **kw)
    r = tlc.run("HttpParse", cfg, name="HttpParse_" + label, workers=8, timeout=900)
    ok = (not r.ok) and expected in r.violated
    ctx.coverage.setdefault("deviation_runs", []).append(
        {"label": label, "expected": expected, "reproduced": ok, "violated": r.violated,
         "distinct": r.distinct})
    if not ok:
        ctx.note_drift("model with deviations %s no longer violates %s (got %s)"
                       % (kw.get("dev"), expected, r.violated))
    return r


def emit_cases(family):
    cfgp = os.path.join(OUT, "cfg", "HttpCases_%s.cfg" % family)
    os.makedirs(os.path.dirname(cfgp), exist_ok=True)
    tlc.write_cfg(cfgp, spec="Spec", constants={"Family": family})
    outp = os.path.join(OUT, "cases_%s.ndjson" % family)
    if os.path.exists(outp):
        os.unlink(outp)
    tlc.run("HttpCases", cfgp, name="HttpCases_" + family, workers=1, timeout=600,
            env={"CASES_OUT": outp})
    cases = []
    with open(outp) as f:
        for ln in f:
            ln = ln.strip()
            if ln:
                cases.append(json.loads(ln))
    return cases


# ---------------------------------------------------------------------------------------------

def observe(case, variant, cuts, mode="read", source="iter", cfg=None, symcuts=False):
    """-> (trace events, raw obs, Concrete).  cuts are byte offsets unless symcuts."""
    c = cz.concretize(case["ms"], variant, case["cut"])
    if symcuts:
        cuts = [c.spans[k][0] for k in cuts if 0 < k < len(c.spans)]
    if cfg is None and case["ms"] and case["ms"][0].get("px") in ("on_ok", "on_bad"):
        cfg = drv.make_cfg(proxy_protocol=True, proxy_allow_ips="*")
    obs = drv.run(bytes(c.data), cuts, cfg=cfg, mode=mode, source=source)
    ev = []
    for r in obs["out"]:
        ev.append({"e": "req", "start": cz.byte_to_sym_offset(c, r["start"]),
                   "data": cz.body_positions(c, r["body"]), "done": bool(r["bodydone"])})
    ev.append({"e": "fin", "kind": obs["fin"].split(":")[0]})
    return ev, obs, c


def worker_observe(case, variant, cuts, kind, mode):
    """the same stream through the connection handling of a worker class (sync / gthread / async handle()): which
    requests reach the application, where each was parsed from, what body it could read.  The parser object(s) the
    worker creates are observed through RequestParser.mesg_class; -> (events, info, Concrete)"""
    from drivers import conn as cdrv
    from gunicorn.http import parser as gparser
    from gunicorn.http.message import Request
    c = cz.concretize(case["ms"], variant, case["cut"])
    data = bytes(c.data)
    segs = drv.segments(data, cuts)
    cur = {"sock": None}
    out = []

    class Rec(Request):
        def __init__(self, cfg, unreader, *a, **k):
            sock = cur["sock"]
            self._vstart = (sock.delivered - len(unreader.buf.getvalue())) if sock is not None else -1
            super().__init__(cfg, unreader, *a, **k)

    def app(environ, start_response):
        rec = {"start": -1, "body": b"", "bodydone": False}
        req = cur.get("req")
        if req is not None:
            rec["start"] = getattr(req, "_vstart", -1)
        out.append(rec)
        if mode == "read":
            chunks = []
            while True:
                d = environ["wsgi.input"].read(8192)
                if not d:
                    break
                chunks.append(d)
                rec["body"] = b"".join(chunks)
            rec["bodydone"] = True
        start_response("200 OK", [("Content-Length", "2")])
        return [b"ok"]
    kw = {}
    if case["ms"] and case["ms"][0].get("px") in ("on_ok", "on_bad"):
        kw = {"proxy_protocol": True, "proxy_allow_ips": "*"}
    cfg = cdrv.make_cfg(keepalive=2, **kw)
    w = cdrv.make_worker(kind, cfg, app)
    orig = w.handle_request

    def hr(*a, **k):
        cur["req"] = next((x for x in a if isinstance(x, Request)), None)
        return orig(*a, **k)
    w.handle_request = hr
    old = gparser.RequestParser.mesg_class
    gparser.RequestParser.mesg_class = Rec
    realsock = cdrv.FakeSock

    class Sock(realsock):
        def __init__(self, *a, **k):
            super().__init__(*a, **k)
            cur["sock"] = self
    cdrv.FakeSock = Sock
    try:
        r = cdrv.serve(kind, cfg, segs, app, worker=w, eof_dispatch=True)
    finally:
        gparser.RequestParser.mesg_class = old
        cdrv.FakeSock = realsock
    ev = [{"e": "req", "start": cz.byte_to_sym_offset(c, x["start"]) if x["start"] >= 0 else -1,
           "data": cz.body_positions(c, x["body"]), "done": bool(x["bodydone"])} for x in out]
    ev.append({"e": "fin", "kind": "worker-end"})
    return ev, {"escaped": r.escaped, "wire": r.wire[:60].decode("latin-1")}, c


def rand_cuts(rng, n, k=None):
    if n <= 1:
        return []
    k = k if k is not None else rng.randint(1, min(6, n - 1))
    return sorted(rng.sample(range(1, n), min(k, n - 1)))


def c01(ctx):
    fams = ["heads1", "heads2", "chunks", "trunc", "pipeline", "proxy", "embed", "blank"] + ([] if ctx.quick else ["heads3"])
    run_models(ctx, [(f, {"family": f}) for f in fams])
    ctx.coverage["exhaustive"] = True
    ctx.coverage["rule"] = ("TLC: every stream of the families %s x every segmentation into reads of 1..3 "
                            "symbols; traces: the same streams concretized (seeded spelling variants) and "
                            "pushed through gunicorn.http.RequestParser" % fams)
    if not ctx.quick:
        expect_violation(ctx, "asis_pyws", "FramingExact", family="heads1", dev=["StripPyWs"])
    traces, meta = [], []
    rng = ctx.rng
    nvar = 2 if ctx.quick else None
    with ThreadPoolExecutor(max_workers=8) as ex:
        emitted = dict(zip(fams, ex.map(emit_cases, fams)))
    for f in fams:
        cases = emitted[f]
        for ci, case in enumerate(cases):
            nv = cz.num_variants(case["ms"])
            vs = range(nv) if nvar is None else [rng.randrange(nv) for _ in range(nvar)]
            has_body = any(m["fr"] != "none" for m in case["ms"])
            plan = [(v, "read") for v in vs] + [(v, "skip") for v in vs if not (ctx.quick and rng.random() < 0.5)]
            if f == "embed":
                # the body spells a request and the application ignores it: every request-line spelling
                plan = [(v, "skip") for v in range(len(cz.RL11))]
            if has_body:
                # the application ignores the body of a GET (spelling variant 0) / of another method (variant 1)
                plan += [(0, "skip"), (1, "skip")]
            for v, mode in plan:
                n = len(cz.concretize(case["ms"], v, case["cut"]).data)
                for cuts, src in ((rand_cuts(rng, n), "iter" if mode == "read" else "sock"),):
                    ev, obs, c = observe(case, v, cuts, mode, src)
                    traces.append({"ms": case["ms"], "cut": case["cut"], "mode": mode, "ev": ev})
                    meta.append({"family": f, "case": ci, "variant": v, "cuts": cuts, "mode": mode,
                                 "source": src, "exc": obs["exc"], "bytes": bytes(c.data).decode("latin-1")})
    # permit_obsolete_folding relaxes ONE thing (continuation lines); heads without any continuation line keep their
    # strict reading under it -- including values whose forbidden byte sits on the continuation of a folded spelling
    # (the NulVal spellings contain such)
    cfg_fold = drv.make_cfg(permit_obsolete_folding=True)
    npf = 0
    for f in ("heads1", "heads2"):
        cases = [c for c in emitted[f] if not any(h == "ObsFold" for m in c["ms"] for h in list(m["hdrs"]) + list(m.get("trl", [])))]
        if ctx.quick and len(cases) > 250:
            cases = rng.sample(cases, 250)
        for ci, case in enumerate(cases):
            nv = cz.num_variants(case["ms"])
            for v in ([rng.randrange(nv)] if ctx.quick else range(nv)):
                n = len(cz.concretize(case["ms"], v, case["cut"]).data)
                cuts = rand_cuts(rng, n)
                ev, obs, c = observe(case, v, cuts, "read", "iter", cfg=cfg_fold)
                traces.append({"ms": case["ms"], "cut": case["cut"], "mode": "read", "ev": ev})
                meta.append({"family": f, "case": ci, "variant": v, "cuts": cuts, "mode": "read", "source": "iter,permit_obsolete_folding",
                             "exc": obs["exc"], "bytes": bytes(c.data).decode("latin-1")})
                npf += 1
    ctx.coverage["streams_under_permit_obsolete_folding"] = npf
    # the same streams through the workers' connection handling (keep-alive hand-backs between requests): the
    # requests that reach the application are judged by the same strict reading
    nw = 0
    for f in ("pipeline", "trunc", "embed", "chunks"):
        cases = emitted[f]
        if len(cases) > (120 if ctx.quick else 1500):
            cases = rng.sample(cases, 120 if ctx.quick else 1500)
        for ci, case in enumerate(cases):
            v = rng.randrange(cz.num_variants(case["ms"]))
            n = len(cz.concretize(case["ms"], v, case["cut"]).data)
            for kind in (("gthread", "async") if not ctx.quick else (rng.choice(["gthread", "async", "gthread", "sync"]),)):
                mode = "skip" if f == "embed" else rng.choice(["read", "skip"])    # (an embedded request is no body data)
                cuts = rand_cuts(rng, n)
                ev, info, c = worker_observe(case, v, cuts, kind, mode)
                traces.append({"ms": case["ms"], "cut": case["cut"], "mode": mode, "ev": ev})
                meta.append({"family": f, "case": ci, "variant": v, "cuts": cuts, "mode": mode, "source": "worker:" + kind,
                             "exc": info["escaped"], "bytes": bytes(c.data).decode("latin-1")})
                nw += 1
    ctx.coverage["worker_level_streams"] = nw
    judge(ctx, "C01", traces, meta)
    ctx.assumptions += [
        "streams are generated from the descriptor grammar of specs/HttpStream.tla (one strict reading by construction)",
        "parser configuration: defaults (no documented-unsafe mode)",
        "byte -> symbol abstraction of observed offsets/body bytes is done by harness/concretize.py"]


def judge(ctx, prop, traces, meta, chunk=4000):
    verdicts, stats = tlc.validate_batch("HttpTrace", "HttpTrace.cfg", traces, name="HttpTrace_" + prop,
                                         chunk=chunk)
    ctx.add_traces(len(traces), stats)
    for t, m, (v, step) in zip(traces, meta, verdicts):
        if v == "ok":
            continue
        k = sum(1 for e in t["ev"][:step] if e["e"] == "req")
        ms = t["ms"]
        idx = min(max(k, 1), len(ms)) - 1
        sig = "%s/%s/causes=%s" % (prop, v, ",".join(causes(ms[idx])) or "-")
        if v in ("BodyNotStrict", "BodyShort", "StartOffset", "ExtraRequest", "BodyBeyondStream"):
            sig += "/fr=%s" % ms[idx]["fr"]
        ctx.violation(sig, "%s at request %d of stream %r (exc=%s)" % (v, k, m["bytes"][:200], m["exc"]),
                      {"trace": t, "meta": m, "verdict": v, "step": step})
    for t, m in list(zip(traces, meta))[:3]:
        ctx.sample({"bytes": m["bytes"][:160], "cuts": m["cuts"], "events": t["ev"]})


# ---------------------------------------------------------------------------------------------

def seg_set(rng, n, quick):
    """segmentations of an n-byte stream: whole, byte-by-byte, every single cut, pairs, random"""
    segs = [[], list(range(1, n))]
    segs += [[i] for i in range(1, n)]
    if n <= 120:
        pairs = [(i, j) for i in range(1, n) for j in range(i + 1, n)]
        if quick and len(pairs) > 40:
            pairs = rng.sample(pairs, 40)
        elif len(pairs) > 150:
            pairs = rng.sample(pairs, 150)
        segs += [list(p) for p in pairs]
    for _ in range(6 if quick else 30):
        segs.append(rand_cuts(rng, n))
    return segs


def c06(ctx):
    fams = ["chunks", "trunc", "pipeline", "heads1", "blank"] + ([] if ctx.quick else ["heads2", "limits", "endless"])
    # (D): every segmentation of every stream; the terminal observation is pinned to a function of
    # the stream alone by FramingExact + CompleteOkDelivered + FinDetermined.
    jobs = [(f + "_r%d" % mr, {"family": f, "maxrecv": mr}) for f in fams[:4] for mr in ((3,) if ctx.quick else (2, 5))]
    jobs.append(("limits_seg", {"family": "limits", "maxrecv": 16, "limit_fields": 2, "fs": 3, "default_fs": 4}))
    run_models(ctx, jobs)
    expect_violation(ctx, "asis_cap", "CompleteOkDelivered", family="limits", dev=["CapWholeBlock"], maxrecv=16,
                     limit_fields=2, fs=3, default_fs=4)
    ctx.coverage["exhaustive"] = True
    rng = ctx.rng
    traces, meta = [], []
    nruns = 0
    for f in fams:
        cases = emit_cases(f)
        if ctx.quick and len(cases) > 150:
            cases = rng.sample(cases, 150)
        for ci, case in enumerate(cases):
            nv = cz.num_variants(case["ms"])
            for v in ([rng.randrange(nv)] if ctx.quick else rng.sample(range(nv), min(nv, 2))):
                c = cz.concretize(case["ms"], v, case["cut"])
                data = bytes(c.data)
                digs, ids, ev = {}, [], []
                ref_ev = None
                for si, cuts in enumerate(seg_set(rng, len(data), ctx.quick)):
                    src = "tls" if si % 7 == 4 else "sock" if si % 3 == 2 else "iter"
                    obs = drv.run(data, cuts, mode="read", source=src)
                    nruns += 1
                    d = json.dumps(drv.digest(obs), sort_keys=True)
                    did = digs.setdefault(d, len(digs) + 1)
                    ids.append(did)
                    ev.append({"e": "seg", "dig": did})
                    if ref_ev is None:
                        ref_ev = obs
                t = {"ms": case["ms"], "cut": case["cut"], "mode": "read", "ev": ev}
                traces.append(t)
                meta.append({"family": f, "case": ci, "variant": v, "bytes": data.decode("latin-1"),
                             "digests": [x[:600] for x in list(digs.keys())[:3]], "kinds": _kinds(digs), "exc": ref_ev["exc"],
                             "cuts": "seg_set", "nseg": len(ids)})
    # the application does not read the bodies (the parser has to get past them by itself before the next request): the
    # requests obtained must not depend on where the reads end inside an unread body either
    for f in ("pipeline", "chunks"):
        cases = emit_cases(f)
        cases = rng.sample(cases, min(len(cases), 40 if ctx.quick else 400))
        for ci, case in enumerate(cases):
            v = rng.randrange(cz.num_variants(case["ms"]))
            data = bytes(cz.concretize(case["ms"], v, case["cut"]).data)
            n = len(data)
            digs, ev = {}, []
            segsets = [[], list(range(1, n))] + [[i] for i in range(1, n)] + [rand_cuts(rng, n) for _ in range(6)]
            for si, cuts in enumerate(segsets):
                obs = drv.run(data, cuts, mode="skip", source="sock" if si % 3 == 2 else "iter")
                nruns += 1
                d = json.dumps(drv.digest(obs), sort_keys=True)
                ev.append({"e": "seg", "dig": digs.setdefault(d, len(digs) + 1)})
            traces.append({"ms": case["ms"], "cut": case["cut"], "mode": "skip", "ev": ev})
            meta.append({"family": f, "case": ci, "variant": v, "bytes": data.decode("latin-1"), "shape": "app-skips-bodies",
                         "digests": [x[:600] for x in list(digs.keys())[:3]], "kinds": _kinds(digs), "exc": None,
                         "cuts": "seg_set", "nseg": len(segsets)})
    # the same under non-default limit settings (0 = "unlimited" / "use the hard maximum", and small limits): whatever
    # the parser decides, it decides the same for every segmentation
    for cfgkw in ({"limit_request_fields": 0}, {"limit_request_field_size": 0}, {"limit_request_line": 0},
                  {"limit_request_fields": 3, "limit_request_field_size": 40, "limit_request_line": 60},
                  # PROXY protocol on, the peer (127.0.0.1) allowed / not allowed to use it
                  {"proxy_protocol": True, "proxy_allow_ips": "10.9.8.7"}, {"proxy_protocol": True, "proxy_allow_ips": "*"},
                  {"proxy_protocol": True, "proxy_allow_ips": "10.9.8.7", "limit_request_line": 20},
                  # the documented switches that relax (or tighten) what the head parser accepts
                  {"permit_obsolete_folding": True}, {"strip_header_spaces": True}, {"casefold_http_method": True},
                  {"permit_unconventional_http_method": True},
                  {"permit_unconventional_http_version": True}, {"header_map": "refuse"}, {"header_map": "dangerous"},
                  {"permit_obsolete_folding": True, "strip_header_spaces": True,
                   "permit_unconventional_http_method": True, "permit_unconventional_http_version": True,
                   "casefold_http_method": True, "header_map": "dangerous"}):
        relax = not any(k.startswith(("limit_", "proxy_")) for k in cfgkw)
        if relax and ctx.quick and len(cfgkw) == 1 and rng.random() < 0.5:
            continue                    # (quick tier: about half of the single switches per run, the combination always)
        cfgv = drv.make_cfg(**cfgkw)
        for f in (("proxy",) if "proxy_protocol" in cfgkw else ("heads1", "pipeline", "chunks")):
            cases = emit_cases(f)
            cases = rng.sample(cases, min(len(cases), (10 if relax else 25) if ctx.quick else (50 if relax else 250)))
            for ci, case in enumerate(cases):
                v = rng.randrange(cz.num_variants(case["ms"]))
                data = bytes(cz.concretize(case["ms"], v, case["cut"]).data)
                digs, ev = {}, []
                n = len(data)
                segsets = [[], list(range(1, n))] + [[i] for i in range(1, n, 1 if not ctx.quick else 2)] + \
                    [rand_cuts(rng, n) for _ in range(6)]
                for si, cuts in enumerate(segsets):
                    obs = drv.run(data, cuts, cfg=cfgv, mode="read", source="sock" if si % 3 == 2 else "iter")
                    nruns += 1
                    d = json.dumps(drv.digest(obs), sort_keys=True)
                    ev.append({"e": "seg", "dig": digs.setdefault(d, len(digs) + 1)})
                traces.append({"ms": case["ms"], "cut": case["cut"], "mode": "read", "ev": ev})
                meta.append({"family": f, "case": ci, "variant": v, "bytes": data.decode("latin-1"),
                             "shape": "cfg:" + ",".join("%s=%s" % (k.replace("limit_request_", ""), x) for k, x in sorted(cfgkw.items())),
                             "digests": [x[:600] for x in list(digs.keys())[:3]], "kinds": _kinds(digs), "exc": None,
                             "cuts": "seg_set", "nseg": len(segsets)})
    # streams built around the buffer caps that small (or switched-off) limits give: a head-less request followed by more
    # pipelined bytes than the header-block cap, a trailer block around / beyond the cap with the field size unlimited, heads
    # at the cap -- every single cut, coarse reads of the usual sizes, random cuts
    big = []
    fol = b"GET /b HTTP/1.1\r\nX-A: " + b"a" * 20 + b"\r\nX-B: " + b"b" * 20 + b"\r\n\r\n"
    big.append(({"limit_request_fields": 2, "limit_request_field_size": 30}, b"GET /a HTTP/1.1\r\n\r\n" + fol, "headless+pipelined"))
    big.append(({"limit_request_fields": 2, "limit_request_field_size": 30}, b"POST /a HTTP/1.1\r\nContent-Length: 3\r\n\r\nabc" + fol + fol, "body+pipelined"))
    for tl in (100, 16380, 16390, 17000) if not ctx.quick else (16390, 17000):
        big.append(({"limit_request_fields": 2, "limit_request_field_size": 0},
                    b"POST /t HTTP/1.1\r\nTransfer-Encoding: chunked\r\n\r\n5\r\nhello\r\n0\r\nX-T: " + b"t" * tl + b"\r\n\r\n" + fol, "trailer=%d" % tl))
    for hl in (8100, 8190, 8200):
        big.append(({}, b"GET /h HTTP/1.1\r\nX-Long: " + b"h" * hl + b"\r\n\r\n" + fol, "header=%d" % hl))
    for cfgkw, data, label in big:
        cfgv = drv.make_cfg(**cfgkw)
        n = len(data)
        firstend = data.find(b"\r\n") + 2
        segsets = [[]] + [list(range(k, n, k)) for k in (8192, 4096, 1000, 100, 7, 1)] + \
            [[i] for i in (range(1, n) if n < 400 else list(range(1, 60)) + list(range(n - 60, n)))] + \
            [[firstend, firstend + 1], [firstend + 1], [firstend - 1, firstend + 1]] + [rand_cuts(rng, n) for _ in range(8)]
        digs, ev = {}, []
        for si, cuts in enumerate(segsets):
            obs = drv.run(data, [c for c in cuts if 0 < c < n], cfg=cfgv, mode="read", source="sock" if si % 3 == 2 else "iter")
            nruns += 1
            d = json.dumps(drv.digest(obs), sort_keys=True)
            ev.append({"e": "seg", "dig": digs.setdefault(d, len(digs) + 1)})
        traces.append({"ms": [], "cut": 0, "mode": "read", "ev": ev})
        meta.append({"family": "caps", "case": 0, "variant": 0, "bytes": data[:300].decode("latin-1"),
                     "shape": "caps:" + label + "," + ",".join("%s=%s" % (k.replace("limit_request_", ""), x) for k, x in sorted(cfgkw.items())),
                     "digests": [x[:600] for x in list(digs.keys())[:3]], "kinds": _kinds(digs), "exc": None,
                     "cuts": "seg_set", "nseg": len(segsets)})
    ctx.coverage["parser_runs"] = nruns
    # through the workers' connection handling: the requests the application sees must not depend on how the bytes
    # were split across reads either (kept-alive connections go back to the poller / handler loop between requests)
    nw = 0
    for f in ("pipeline", "trunc", "chunks"):
        cases = emit_cases(f)
        cases = rng.sample(cases, min(len(cases), 40 if ctx.quick else 400))
        for ci, case in enumerate(cases):
            v = rng.randrange(cz.num_variants(case["ms"]))
            data = bytes(cz.concretize(case["ms"], v, case["cut"]).data)
            for kind in ("gthread", "async"):
                digs, ev = {}, []
                segsets = [[], list(range(1, len(data)))] + [rand_cuts(rng, len(data)) for _ in range(4 if ctx.quick else 12)]
                wmode = "read" if (ci % 2 == 0 or f == "trunc") else "skip"       # (half of the cases: the application ignores its input)
                for cuts in segsets:
                    wev, info, c = worker_observe(case, v, cuts, kind, wmode)
                    d = json.dumps([wev, info["escaped"]], sort_keys=True)
                    ev.append({"e": "seg", "dig": digs.setdefault(d, len(digs) + 1)})
                    nw += 1
                traces.append({"ms": case["ms"], "cut": case["cut"], "mode": "read", "ev": ev})
                meta.append({"family": f, "case": ci, "variant": v, "bytes": data.decode("latin-1"), "shape": "worker:" + kind + ("" if wmode == "read" else ",app-skips-bodies"),
                             "digests": [x[:600] for x in list(digs.keys())[:3]], "kinds": ["%d observations" % len(digs)],
                             "exc": None, "cuts": "seg_set", "nseg": len(segsets)})
    ctx.coverage["worker_level_runs"] = nw
    # real servers with real sockets and the real hubs (gthread is left out: its handling of pipelined requests is the
    # recorded finding F25 of C13)
    from props.reload_real import _parallel
    for t, m in _parallel(["gevent", "sync"] if ctx.quick else ["gevent", "eventlet", "sync"], lambda a, i: real_segmentations(a)):
        traces.append(t)
        meta.append(m)
    real_scale_c06(ctx, traces, meta)
    verdicts, stats = tlc.validate_batch("HttpTrace", "HttpTrace.cfg", traces, name="HttpTrace_C06", chunk=4000)
    ctx.add_traces(len(traces), stats)
    for t, m, (v, step) in zip(traces, meta, verdicts):
        if v == "ok":
            continue
        kinds = m["kinds"]
        sig = "C06/%s/%s/%s" % (v, m.get("shape", "model-scale"), "|".join(kinds))
        ctx.violation(sig, "observation depends on segmentation: %s for stream %r..." % (kinds, m["bytes"][:120]),
                      {"trace": t, "meta": m})
    for t, m in list(zip(traces, meta))[:2]:
        ctx.sample({"bytes": m["bytes"][:120], "segmentations": m["nseg"], "distinct_observations": len(m["digests"])})
    ctx.assumptions += ["default parser configuration, plus four non-default limit settings on sampled streams",
                        "reads of at most 8192 bytes (SocketUnreader) / arbitrary segments (IterUnreader)"]


def _kinds(digs):
    out = set()
    for x in digs:
        d = json.loads(x)
        out.add("%s:%s:%d" % (d["fin"], d["exc"], len(d["reqs"])))
    return sorted(out)


def real_scale_c06(ctx, traces, meta):
    """real-scale streams: delimiters around 8191/8192/8193, cuts at +-1 of every delimiter, and
    the largest head the default limits allow followed by body bytes in the same read."""
    rng = ctx.rng
    shapes = []
    # request line / header / chunk delimiters at the read-size boundary
    for target in (8190, 8191, 8192, 8193):
        pad = target - len(b"GET / HTTP/1.1\r\nX-P: \r\n")
        shapes.append(("delim@%d" % target,
                       b"GET / HTTP/1.1\r\nX-P: " + b"a" * pad + b"\r\nContent-Length: 5\r\n\r\nhello"
                       b"GET /2 HTTP/1.1\r\n\r\n"))
        body = b"b" * (target - 60)
        shapes.append(("chunk@%d" % target,
                       b"POST / HTTP/1.1\r\nTransfer-Encoding: chunked\r\n\r\n%x\r\n" % len(body) + body
                       + b"\r\n3\r\nabc\r\n0\r\nX-T: 1\r\n\r\nGET /2 HTTP/1.1\r\n\r\n"))
    # request line of exactly / one over the default limit_request_line (4094), cut at every offset around its CRLF
    for ln in (4093, 4094, 4095):
        rl = b"GET /" + b"a" * (ln - len(b"GET / HTTP/1.1")) + b" HTTP/1.1"
        shapes.append(("reqline=%d" % ln, rl + b"\r\nHost: h\r\n\r\nGET /2 HTTP/1.1\r\n\r\n"))
    # chunk-size lines with extensions around / beyond limit_request_line and the read size
    for n in (4000, 4090, 5000, 9000):
        shapes.append(("chunkext=%d" % n,
                       b"POST / HTTP/1.1\r\nTransfer-Encoding: chunked\r\n\r\n5;" + b"x" * n + b"\r\nhello\r\n0\r\n\r\n"
                       b"GET /2 HTTP/1.1\r\n\r\n"))
    # empty lines before a request line (RFC 9112 2.2), at the start of the connection and between requests
    for name, data in (("lead-crlf", b"\r\nGET / HTTP/1.1\r\nHost: h\r\n\r\n"),
                       ("lead-crlf2", b"\r\n\r\nGET / HTTP/1.1\r\nHost: h\r\n\r\n"),
                       ("lead-lf", b"\nGET / HTTP/1.1\r\nHost: h\r\n\r\n"),
                       ("mid-crlf", b"POST /1 HTTP/1.1\r\nContent-Length: 3\r\n\r\nabc\r\nGET /2 HTTP/1.1\r\n\r\n"),
                       ("mid-crlf-nobody", b"GET /1 HTTP/1.1\r\n\r\n\r\nGET /2 HTTP/1.1\r\n\r\n"),
                       ("mid-crlf-chunked", b"POST /1 HTTP/1.1\r\nTransfer-Encoding: chunked\r\n\r\n0\r\n\r\n\r\nGET /2 HTTP/1.1\r\n\r\n")):
        shapes.append((name, data))
    # largest head within the default limits, then body bytes
    if not ctx.quick:
        line = b"X-H: " + b"v" * (8188 - 5)
        head = b"POST / HTTP/1.1\r\n" + b"\r\n".join([line] * 99 + [b"Content-Length: 1000"]) + b"\r\n\r\n"
        shapes.append(("maxhead+body", head + b"z" * 1000))
    for name, data in shapes:
        delims = [i for i in range(len(data)) if data[i:i + 2] == b"\r\n"]
        segsets = [[], list(range(8192, len(data), 8192)), list(range(1, len(data), 4096))]
        for d in delims:
            for off in (-1, 0, 1, 2, 3):
                if 0 < d + off < len(data):
                    segsets.append([d + off])
        for _ in range(5):
            segsets.append(rand_cuts(rng, len(data), 3))
        if len(data) < 120:
            segsets += [[i] for i in range(1, len(data))] + [list(range(1, len(data)))]
        if name.startswith("maxhead"):
            eoh = data.find(b"\r\n\r\n") + 4
            segsets = [[], [eoh], [eoh - 1], [eoh + 1], list(range(8192, len(data), 8192)),
                       [eoh - 4000, eoh + 500], list(range(8000, len(data), 8000))]
        digs, ev = {}, []
        for si, cuts in enumerate(segsets):
            obs = drv.run(data, cuts, mode="read", source="tls" if si % 5 == 3 else "sock" if si % 2 else "iter")
            d = json.dumps(drv.digest(obs), sort_keys=True)
            ev.append({"e": "seg", "dig": digs.setdefault(d, len(digs) + 1)})
        traces.append({"ms": [], "cut": 0, "mode": "read", "ev": ev})
        meta.append({"family": "real-scale", "shape": name, "bytes": data[:100].decode("latin-1"),
                     "digests": [x[:400] for x in list(digs.keys())[:3]], "kinds": _kinds(digs), "exc": None,
                     "nseg": len(segsets), "cuts": "delims"})


def real_segmentations(wk):
    """real server (real sockets, real hub): three pipelined requests sent under several segmentations with pauses between
    the segments; what comes back must be the same each time.  -> (trace, meta)"""
    import threading
    import time
    from drivers import realproc as rp
    reqs = [b"POST /echo HTTP/1.1\r\nHost: h\r\nContent-Length: 5\r\n\r\nhello",
            b"GET /pid?2 HTTP/1.1\r\nHost: h\r\n\r\n",
            b"GET /pid?3 HTTP/1.1\r\nHost: h\r\nConnection: close\r\n\r\n"]
    data = b"".join(reqs)
    a, b2 = len(reqs[0]), len(reqs[0]) + len(reqs[1])
    segsets = {"whole": [], "head|body+rest": [a - 5], "per-request": [a, b2], "inside-2nd": [a + 7], "inside-3rd": [b2 + 9],
               "bytes-of-2nd": list(range(a, b2))}
    s = rp.Server(wk, workers=1, threads=2 if wk == "gthread" else None, args=["--keep-alive", "2"], name="c06")
    out = {}
    try:
        s.start()
        s.wait_booted(1)

        def one(name, cuts):
            c = s.connect(timeout=8)
            try:
                pts = [0] + cuts + [len(data)]
                for x, y in zip(pts, pts[1:]):
                    try:
                        c.sendall(data[x:y])
                    except OSError:
                        break            # the server has answered and closed already (one request per connection)
                    time.sleep(0.25 if len(cuts) < 10 else 0.01)
                buf = b""
                c.settimeout(6)
                try:
                    while True:
                        d = c.recv(65536)
                        if not d:
                            break
                        buf += d
                except OSError:
                    pass
                out[name] = [int(x[:3]) for x in buf.split(b"HTTP/1.1 ")[1:] if x[:3].isdigit()]
            finally:
                c.close()
        ths = [threading.Thread(target=one, args=(n, c)) for n, c in segsets.items()]
        [t.start() for t in ths]
        [t.join() for t in ths]
    finally:
        s.cleanup()
    digs, ev = {}, []
    for name in segsets:
        d = json.dumps(out.get(name))
        ev.append({"e": "seg", "dig": digs.setdefault(d, len(digs) + 1)})
    return {"ms": [], "cut": 0, "mode": "read", "ev": ev}, \
        {"family": "real", "shape": "real:" + wk, "bytes": data[:120].decode("latin-1"), "digests": list(digs)[:4],
         "kinds": ["%s=%s" % (k, v) for k, v in sorted(out.items())], "exc": None, "cuts": "seg_set", "nseg": len(segsets)}


def replay(ctx, data):
    case = data["case"]
    t, m = case["trace"], case["meta"]
    print("replaying %s: stream %r" % (data["signature"], m["bytes"][:200]))
    if m.get("cuts") not in ("seg_set", "delims") and t["ms"]:
        ev, obs, c = observe({"ms": t["ms"], "cut": t["cut"]}, m["variant"], m["cuts"], m["mode"], m["source"])
        t = dict(t, ev=ev)
        print("observed:", ev, obs["exc"])
    verdicts, _ = tlc.validate_batch("HttpTrace", "HttpTrace.cfg", [t], name="HttpTrace_replay")
    print("verdict:", verdicts[0])
    if verdicts[0][0] != "ok":
        print("VIOLATION property=%s replay=%s" % (data["property"], "(replayed)"))
        return 1
    return 0


CHECKS = {"C01": c01, "C06": c06}


# ---------------------------------------------------------------------------------------------
# C12

def eff_limits(line, fields, fsize):
    """limits as documented: line 0..8190 (0 unlimited, larger clamps to 8190); fields 1..32768
    (0 or larger clamps to 32768); field size positive or 0 = unlimited"""
    return {"line": line if 0 <= line < 8190 else 8190,
            "fields": fields if 0 < fields <= 32768 else 32768,
            "fsize": fsize}


def build_request(rllen, fields, body=b""):
    """fields: list of (kind, linelen) with kind in plain|under|cl; -> bytes, request line of rllen bytes"""
    base = b"GET / HTTP/1.1"
    pad = rllen - len(base)
    assert pad >= 0
    rl = b"GET /" + b"a" * pad + b" HTTP/1.1"
    lines = [rl]
    for i, (kind, ln) in enumerate(fields):
        name = {"plain": b"X-F%d" % i, "under": b"X_F%d" % i, "cl": b"Content-Length", "wscolon": b"X-W%d" % i, "fold": b"X-O", "foldblank": b"X-P", "foldpad": b"X-P"}[kind]
        if kind == "fold":
            # one field folded over ln + 1 physical lines (obsolete line folding, accepted with permit_obsolete_folding)
            lines.append(b"X-O%d: v" % i)
            lines += [b" c%d" % j for j in range(ln)]
            continue
        if kind in ("foldblank", "foldpad"):
            # one folded field of ln bytes in all (CRLFs between its lines included) whose size comes from continuation lines
            # that are blank (foldblank) or padded with blanks around one letter (foldpad)
            first = b"X-P%d: v" % i
            rest = ln - len(first)
            lines.append(first)
            while rest > 2:
                k = min(48, rest - 2)            # a continuation line of k bytes costs k + 2
                k = max(k, 1)
                lines.append(b" " * k if kind == "foldblank" else (b" " * (k // 2) + b"x" + b" " * (k - k // 2 - 1) if k > 1 else b" "))
                rest -= k + 2
            continue
        if kind == "wscolon":
            # a field that is long only through blanks between its name and the colon (accepted, and stripped, with the
            # documented strip_header_spaces setting)
            lines.append(name + (b" \t" * ln)[:max(0, ln - len(name) - 3)] + b": v")
            continue
        if kind == "cl":
            val = b"%d" % len(body)
            val = b"0" * max(0, ln - len(name) - 2 - len(val)) + val
        else:
            val = b"v" * max(0, ln - len(name) - 2)
        lines.append(name + b": " + val)
    return b"\r\n".join(lines) + b"\r\n\r\n" + body


PROXY_LINE = b"PROXY TCP4 1.2.3.4 5.6.7.8 1111 2222\r\n"


def limit_record(ctx, cfgkw, rllen, fields, cuts_kind, rng, body=b"", proxy=False):
    data = build_request(rllen, fields, body)
    plain = data
    if proxy:
        cfgkw = dict(cfgkw, proxy_protocol=True, proxy_allow_ips="*")
        data = PROXY_LINE + data
    if cuts_kind == "whole":
        cuts = []
    elif cuts_kind == "bytes":
        cuts = list(range(1, len(data)))
    elif cuts_kind == "8k":
        cuts = list(range(8192, len(data), 8192))
    elif cuts_kind == "crlf":
        cuts = [data.find(b"\r\n") + 1]       # a read ends between the CR and the LF of the request line
    elif cuts_kind == "eol":
        cuts = [data.find(b"\r\n") + 2]       # the first line arrives alone; the next read brings the rest of the head
    elif cuts_kind == "mid":
        # the first read ends inside the head; the second brings the rest of it plus what follows
        cuts = [max(1, (data.find(b"\r\n\r\n") + 2) // 2)]
    elif cuts_kind == "eoh-1":
        cuts = [data.find(b"\r\n\r\n") + 3]
    else:
        cuts = rand_cuts(rng, len(data))
    cfg = drv.make_cfg(**cfgkw)
    obs = drv.run(data, cuts, cfg=cfg, mode="read", source="sock" if cuts_kind == "8k" else "iter")
    phys = plain.split(b"\r\n\r\n")[0].split(b"\r\n")
    # a field = a line that does not start with SP / HTAB (continuation lines belong to the field above them)
    # (its size: all its physical lines, with the CRLFs between them)
    lens = [len(phys[0])]
    for x in phys[1:]:
        if x[:1] in (b" ", b"\t") and len(lens) > 1:
            lens[-1] += len(x) + 2
        else:
            lens.append(len(x))
    ev = {"e": "limit", "cfg": eff_limits(cfgkw.get("limit_request_line", 4094),
                                         cfgkw.get("limit_request_fields", 100),
                                         cfgkw.get("limit_request_field_size", 8190)),
          "rllen": lens[0], "nfields": len(lens) - 1, "maxfield": max(lens[1:] or [0]), "wellformed": True,
          "handed": len(obs["out"]) >= 1}
    meta = {"cfg": cfgkw, "rllen": lens[0], "fields": [[k, n] for k, n in fields][:8], "nfields": len(fields),
            "cuts": cuts_kind, "exc": obs["exc"], "under": sum(1 for k, _ in fields if k == "under"), "proxy": proxy}
    return ev, meta


class Endless:
    """lazy byte source: prefix, then filler forever (cut at `cap` bytes), in `recv`-byte segments"""

    def __init__(self, prefix, filler, recv, cap):
        self.prefix, self.filler, self.seg, self.cap = prefix, filler, recv, cap
        self.delivered = 0

    def __iter__(self):
        return self

    def __next__(self):
        if self.delivered >= len(self.prefix) + self.cap:
            raise StopIteration
        if self.delivered < len(self.prefix):
            seg = self.prefix[self.delivered:self.delivered + self.seg]
        else:
            k = (self.delivered - len(self.prefix)) % len(self.filler)
            rep = (self.filler * (self.seg // len(self.filler) + 2))[k:k + self.seg]
            seg = rep
        self.delivered += len(seg)
        return seg


def endless_record(cfgkw, phase, style, recv):
    from gunicorn.http.parser import RequestParser
    from gunicorn.http import errors as herr
    eff = eff_limits(cfgkw.get("limit_request_line", 4094), cfgkw.get("limit_request_fields", 100),
                     cfgkw.get("limit_request_field_size", 8190))
    head_bound = eff["fields"] * ((eff["fsize"] or 8190) + 2) + 4
    bound = max((eff["line"] or 8190) + 2, head_bound) + recv + 4
    if phase == "reqline_after_proxy":
        cfgkw = dict(cfgkw, proxy_protocol=True, proxy_allow_ips="*")
    prefix = {"reqline": b"GET /", "reqline_after_proxy": PROXY_LINE + b"GET /", "headers": b"GET / HTTP/1.1\r\n",
              "chunkline": b"POST / HTTP/1.1\r\nTransfer-Encoding: chunked\r\n\r\n1;",
              "trailers": b"POST / HTTP/1.1\r\nTransfer-Encoding: chunked\r\n\r\n0\r\n"}[phase]
    filler = b"a" if style == "long" else b"X-A: b\r\n"
    if phase in ("headers", "trailers") and style == "long":
        prefix += b"X-A: "
    if phase in ("reqline", "reqline_after_proxy", "chunkline"):
        filler = b"a"
    src = Endless(prefix, filler, recv, 4 * bound)
    parser = RequestParser(drv.make_cfg(**cfgkw), src, ("127.0.0.1", 1))
    refused, exc = False, None
    try:
        req = next(parser)
        while req.body.read(8192):
            pass
    except herr.NoMoreData as e:
        exc = type(e).__name__
    except StopIteration:
        exc = "StopIteration"
    except herr.ParseException as e:
        refused, exc = True, type(e).__name__
    except Exception as e:   # noqa
        refused, exc = True, "crash:" + type(e).__name__
    fed = max(0, src.delivered - len(prefix))
    ev = {"e": "endless", "cfg": eff, "ph": phase, "fed": fed, "recv": recv, "refused": refused}
    meta = {"cfg": cfgkw, "phase": phase, "style": style, "recv": recv, "exc": exc, "fed": fed, "bound": bound}
    return ev, meta


def c12(ctx):
    small = {"limit_line": 3, "limit_fields": 3, "fs": 5, "default_fs": 4}
    jobs = [("limits_design", dict(family="limits", invariants=None, **small)),
            ("endless_design", dict(family="endless", **small)),
            ("limits_fs0", dict(family="limits", limit_line=3, limit_fields=3, fs=0, default_fs=4)),
            ("limits_wide", dict(family="limits", maxrecv=16, limit_fields=2, fs=3, default_fs=4)),
            ("proxy_limits", dict(family="proxy", limit_line=3, limit_fields=3, fs=5, default_fs=4))]
    for j in jobs:
        j[1]["invariants"] = ["FramingExact", "RejectsListed", "CompleteOkDelivered", "FinDetermined",
                              "InOrderNoLossNoDup", "OverLimitRejected", "BufferBounded"]
    run_models(ctx, jobs)
    ctx.coverage["exhaustive"] = True
    expect_violation(ctx, "asis_dropped", "OverLimitRejected", family="limits", dev=["DroppedNotCounted"],
                     limit_line=3, limit_fields=2, fs=5, default_fs=4)
    expect_violation(ctx, "dev_proxyline", "OverLimitRejected", family="proxy", dev=["ProxyLineNoLimit"],
                     limit_line=3, limit_fields=3, fs=5, default_fs=4)
    expect_violation(ctx, "asis_chunkline", "BufferBounded", family="endless", dev=["UnboundedChunkLine"],
                     invariants=["BufferBounded"], **small)
    expect_violation(ctx, "asis_trailers", "BufferBounded", family="endless", dev=["UnboundedTrailers"],
                     invariants=["BufferBounded"], **small)
    rng = ctx.rng
    traces, metas = [], []

    def add(ev, meta):
        traces.append({"ev": [ev]})
        metas.append(meta)

    lines = [0, 20, 64, 4094, 8190, 9000] if ctx.quick else [0, 15, 20, 64, 1000, 4094, 8189, 8190, 9000, 40000]
    fieldss = [1, 3, 100] if ctx.quick else [1, 2, 3, 10, 100, 1000, 0]
    fsizes = [0, 16, 64, 8190] if ctx.quick else [0, 12, 16, 64, 1000, 8190, 20000]
    cutkinds = ["whole", "rand", "8k"] + ([] if ctx.quick else ["bytes", "rand", "rand", "rand", "mid", "eol"])
    # request-line boundary
    for L in lines:
        eff = eff_limits(L, 100, 8190)["line"] or 5000
        for d in (-4, -3, -2, -1, 0, 1, 2, 3, 4, 40):
            rl = eff + d
            if rl < 14:
                continue
            for ck in cutkinds + ["crlf"]:
                if ck == "bytes" and rl > 300:
                    continue
                add(*limit_record(ctx, {"limit_request_line": L}, rl, [("plain", 12)], ck, rng))
                if ck in ("whole", "rand") and (L == 0 or L >= 64):
                    # the same request after a PROXY protocol preamble (first request of a connection);
                    # the preamble line itself is read under the same limit, so only limits it fits in
                    add(*limit_record(ctx, {"limit_request_line": L}, rl, [("plain", 12)], ck, rng, proxy=True))
    # limit_request_line = 0 is "unlimited": lines beyond the hard maximum of the other settings are within the limits
    for rl in (8189, 8190, 8191, 8192, 9000, 20000) + (() if ctx.quick else (65535, 70000, 200000)):
        for ck in ("whole", "rand", "8k"):
            add(*limit_record(ctx, {"limit_request_line": 0}, rl, [("plain", 12)], ck, rng))
    # field-count boundary, with and without fields that the default header_map drops
    for F in fieldss:
        eff = eff_limits(4094, F, 8190)["fields"]
        if eff > 2000:
            continue
        for d in (-2, -1, 0, 1, 2, 50):
            n = eff + d
            if n < 0:
                continue
            for mix in ("plain", "under", "mixed"):
                kinds = {"plain": ["plain"] * n, "under": ["under"] * n,
                         "mixed": [("under" if i % 2 else "plain") for i in range(n)]}[mix]
                for ck in cutkinds[:2]:
                    add(*limit_record(ctx, {"limit_request_fields": F}, 14, [(k, 14) for k in kinds], ck, rng))
    # field-size boundary
    for S in fsizes:
        eff = S or 30000
        for d in (-4, -3, -2, -1, 0, 1, 2, 3, 40):
            ln = eff + d
            if ln < 10:
                continue
            for ck in cutkinds:
                if ck == "bytes" and ln > 300:
                    continue
                for pos in (0, 2):
                    # (an over-long field is over-long whether or not the default header_map drops its name later)
                    for kind in ("plain", "under"):
                        fields = [("plain", 12)] * 3
                        fields[pos] = (kind, ln)
                        add(*limit_record(ctx, {"limit_request_field_size": S}, 14, fields, ck, rng))
    # obsolete line folding permitted: the limit counts fields, not physical lines
    for F in (3, 6, 100):
        for nfold in (F - 1, F + 5, 3 * F):
            for ck in ("whole", "rand"):
                add(*limit_record(ctx, {"limit_request_fields": F, "permit_obsolete_folding": True}, 14,
                                  [("plain", 12), ("fold", nfold), ("plain", 12)], ck, rng))
    # folded fields whose size comes from blank or padded continuation lines: the limit is about the bytes on the wire
    for S in (100, 300):
        for d in (-40, -2, 0, 1, 3, 60, 900):
            for kind in ("foldblank", "foldpad"):
                for ck in ("whole", "rand"):
                    add(*limit_record(ctx, {"limit_request_field_size": S, "permit_obsolete_folding": True}, 14,
                                      [("plain", 12), (kind, S - 2 + d), ("plain", 12)], ck, rng))
    # fields whose size comes from whitespace before the colon, with strip_header_spaces on
    for S in (32, 64, 200):
        for d in (-3, -1, 0, 1, 2, 30, 400):
            for ck in ("whole", "rand"):
                add(*limit_record(ctx, {"limit_request_field_size": S, "strip_header_spaces": True}, 14,
                                  [("plain", 12), ("wscolon", S + d), ("plain", 12)], ck, rng))
    # limit_request_fields = 0 / out of range means "the hard maximum": requests within all limits, heads in several reads
    for F in (0, 40000):
        for ck in ("whole", "mid", "eol", "eoh-1", "rand", "bytes"):
            add(*limit_record(ctx, {"limit_request_fields": F}, 14, [("plain", 20)] * 5, ck, rng, body=b""))
            add(*limit_record(ctx, {"limit_request_fields": F, "limit_request_field_size": 0, "limit_request_line": 0}, 14,
                              [("plain", 30), ("cl", 19)], ck, rng, body=b"b" * 50))
    # combined small limits, followed by a body and a pipelined request in the same reads
    for (L, F, S) in [(64, 2, 32), (0, 1, 0), (20, 3, 16), (4094, 4, 50), (0, 2, 20)] + ([] if ctx.quick else [(100, 5, 50), (0, 100, 0)]):
        for ck in ("whole", "mid", "eoh-1", "rand", "crlf", "eol"):
            # no header field at all, pipelined requests right behind
            add(*limit_record(ctx, {"limit_request_line": L, "limit_request_fields": F, "limit_request_field_size": S},
                              14, [], ck, rng, body=b"GET /2 HTTP/1.1\r\n\r\n" * 20))
            if L == 0 or L >= 400:
                # ... whose own (legal) head is longer than the header-block cap of these limits
                nxt = b"GET /" + b"a" * 300 + b" HTTP/1.1\r\n\r\n"
                add(*limit_record(ctx, {"limit_request_line": L, "limit_request_fields": F, "limit_request_field_size": S},
                                  14, [], ck, rng, body=nxt * 3))
        for nf in (1, F):
            for ck in cutkinds[:3] + ["mid", "eoh-1"]:
                body = b"b" * 300
                fields = [("plain", min(S, 30) - 2 if S else 20)] * (nf - 1) + [("cl", 19)]
                if S and 19 + 2 > S:
                    continue
                if L and 14 + 2 > L:
                    continue
                add(*limit_record(ctx, {"limit_request_line": L, "limit_request_fields": F,
                                        "limit_request_field_size": S}, 14, fields, ck, rng, body=body))
    # unlimited field size really unlimited?
    for ck in ("whole", "8k"):
        add(*limit_record(ctx, {"limit_request_field_size": 0}, 14, [("plain", 12), ("plain", 900000)], ck, rng))
    # endless streams
    cfgs = [{"limit_request_line": 64, "limit_request_fields": 4, "limit_request_field_size": 32},
            {"limit_request_line": 200, "limit_request_fields": 10, "limit_request_field_size": 100},
            # 0 = "unlimited" field size / request line: the head buffer is still bounded (by the default sizes)
            {"limit_request_line": 64, "limit_request_fields": 3, "limit_request_field_size": 0},
            {"limit_request_line": 0, "limit_request_fields": 2, "limit_request_field_size": 0}]
    if not ctx.quick:
        cfgs.append({})     # defaults
    for kw in cfgs:
        for phase in ("reqline", "reqline_after_proxy", "headers", "chunkline", "trailers"):
            for style in (("long", "many") if phase in ("headers", "trailers") else ("long",)):
                # an element whose own limit is set to 0 ("unlimited") has no bound to enforce: not judged
                if kw.get("limit_request_line", 1) == 0 and phase.startswith("reqline"):
                    continue
                if kw.get("limit_request_field_size", 1) == 0 and style == "long" and phase in ("headers", "trailers"):
                    continue
                for recv in ((1, 64, 8192) if kw else (8192,)):
                    add(*endless_record(kw, phase, style, recv))
    verdicts, stats = tlc.validate_batch("HttpLimitsTrace", "HttpLimitsTrace.cfg", traces, name="HttpLimits_C12")
    ctx.add_traces(len(traces), stats)
    for t, m, (v, step) in zip(traces, metas, verdicts):
        if v == "ok":
            continue
        e = t["ev"][0]
        if e["e"] == "limit":
            which = []
            c = e["cfg"]
            if c["line"] and e["rllen"] > c["line"] + 2:
                which.append("line-after-proxy" if m.get("proxy") else "line")
            if e["nfields"] > c["fields"]:
                which.append("fields" + ("-dropped" if m["under"] else ""))
            if c["fsize"] and e["maxfield"] > c["fsize"]:
                which.append("fsize")
            if v == "WithinLimitsRejected":
                which = ["fsize=0" if c["fsize"] == 0 else "fsize>0", "line=0" if c["line"] == 0 else "line>0",
                         str(m["exc"])]
            sig = "C12/%s/%s" % (v, "+".join(which))
        else:
            sig = "C12/%s/phase=%s" % (v, e["ph"])
        ctx.violation(sig, "%s: %s" % (v, json.dumps(m)[:300]), {"trace": t, "meta": m})
    for t, m in list(zip(traces, metas))[:3] + list(zip(traces, metas))[-2:]:
        ctx.sample({"event": t["ev"][0], "meta": {k: m[k] for k in m if k != "fields"}})
    ctx.assumptions += ["limits as documented: line 0..8190 (0 unlimited), fields <= 32768, field size 0 = unlimited",
                        "'exceeds'/'within' decided with a 2-byte margin for the line terminator",
                        "held data is measured as bytes fed to the parser while it waits for a delimiter"]


def replay_c12(ctx, data):
    case = data["case"]
    verdicts, _ = tlc.validate_batch("HttpLimitsTrace", "HttpLimitsTrace.cfg", [case["trace"]], name="HttpLimits_replay")
    print("recorded event:", case["trace"], "meta:", case["meta"], "verdict:", verdicts[0])
    return 1 if verdicts[0][0] != "ok" else 0


CHECKS["C12"] = c12
_replay_c01 = replay


def replay(ctx, data):   # noqa: F811
    if data["property"] == "C12":
        return replay_c12(ctx, data)
    return _replay_c01(ctx, data)


# ---------------------------------------------------------------------------------------------
# (C) spec -> code at behaviour level: TLC -simulate behaviours of HttpParse (deviations of the current
# tree on) replayed into the real parser with the SAME segmentation (network reads at the same symbol
# boundaries); the terminal observation must be the model's.

def replay_behaviours(ctx, family, num, maxrecv=3):
    cfg = model_cfg("HttpParse_sim_" + family, family=family, dev=AS_IS_DEV, maxrecv=maxrecv, invariants=[], liveness=False)
    behs, _ = tlc.simulate_behaviours("HttpParse", cfg, num=num, depth=120, seed=ctx.seed, name="HttpParse_sim_" + family)
    n = bad = 0
    for beh in behs:
        first, last = beh[0][1], beh[-1][1]
        if last.get("pc") != "Done":
            continue
        ms = first["ms"]
        cut = len(first["S"])
        # network reads: every increase of `net` is one read of that many symbols
        reads, prev = [], 0
        for _, st in beh[1:]:
            if st["net"] > prev:
                reads.append(st["net"])
                prev = st["net"]
        ms_py = json.loads(json.dumps(ms))
        for m in ms_py:
            m["hdrs"] = list(m["hdrs"])
        c = cz.concretize(ms_py, ctx.rng.randrange(8), cut)
        if len(c.syms) != cut:
            continue
        bcuts = [c.spans[k][0] for k in reads if 0 < k < len(c.spans)]
        obs = drv.run(bytes(c.data), bcuts, mode="read", source="iter")
        got_out = [(cz.byte_to_sym_offset(c, r["start"]), cz.body_positions(c, r["body"])) for r in obs["out"]]
        exp_out = [(o["start"], list(o["data"])) for o in last["out"]]
        got_fin = obs["fin"].split(":")[0]
        exp_fin = last["fin"]
        n += 1
        # on a body-level reject / eof the application may have been given less than the model yielded
        same_out = len(got_out) == len(exp_out) and all(
            g[0] == e[0] and (g[1] == e[1] or (exp_fin in ("bodyreject", "bodyeof") and e[1][:len(g[1])] == g[1]))
            for g, e in zip(got_out, exp_out))
        same_fin = got_fin == exp_fin or {got_fin, exp_fin} <= {"bodyreject", "crash", "reject"} \
            or {got_fin, exp_fin} <= {"nomore", "bodyeof"}
        if not (same_out and same_fin):
            bad += 1
            if bad <= 3:
                ctx.note_drift("HttpParse behaviour not followed (%s): stream=%r reads=%s model=(%s,%s) code=(%s,%s)"
                               % (family, bytes(c.data)[:80], reads, exp_out, exp_fin, got_out, got_fin))
    ctx.coverage["replayed_behaviours"] = ctx.coverage.get("replayed_behaviours", 0) + n
    return n, bad


_c01_core = c01


def c01_with_replay(ctx):
    _c01_core(ctx)
    fams = ("chunks", "trunc", "pipeline") if not ctx.quick else ("chunks", "trunc")
    for fam in fams:
        replay_behaviours(ctx, fam, 150 if ctx.quick else 1500)
    # the connection-level loop (specs/KeepAlive.tla): what reaches the application over the life of a connection, with
    # the keep-alive time running out between and inside requests and a stop request at every point
    from props import keepalive
    keepalive.design(ctx)
    keepalive.model_traces(ctx, {"PhantomRequest", "ExceptionEscapedHandle", "ConnectionLeftOpen"}, "C01")


CHECKS["C01"] = c01_with_replay
